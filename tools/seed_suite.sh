#!/bin/bash
# usage: seed_suite.sh [seed-id ...]   (default: every directory under /verif/seeded without a suite.txt)
# Confirms that the repository's own suite (the BASELINE command, minus the one test that times out on the unchanged
# tree as well) still passes with each seeded change applied. Works in the scratch worktree /tmp/seed-base with its own
# target dir; writes /verif/seeded/<id>/suite.txt.
export CARGO_TARGET_DIR=/tmp/suite-target CARGO_PROFILE_DEV_DEBUG=0 CARGO_PROFILE_TEST_DEBUG=0 CARGO_NET_OFFLINE=true
W=/tmp/seed-base
[ -d $W ] || git -C /repo worktree add --detach $W HEAD >/dev/null 2>&1
HEAD=$(git -C /repo rev-parse HEAD)
cd $W || exit 2
git checkout -q -- . ; git checkout -q --detach $HEAD || exit 2
IDS="$@"
if [ -z "$IDS" ]; then for d in /verif/seeded/*/; do s=$(basename $d); [ -f $d/suite.txt ] || IDS="$IDS $s"; done; fi
for s in $IDS; do
  P=/verif/seeded/$s/patch.diff
  git checkout -q -- . ; git clean -fdq tests src 2>/dev/null
  if ! git apply $P 2>/dev/null; then echo "$s: patch does not apply to $HEAD" | tee /verif/seeded/$s/suite.txt; continue; fi
  cargo nextest run --workspace --no-fail-fast --tool-config-file pb:/w/lib/nextest.toml --profile pb --test-threads 8 --offline -E 'not test(test_full_split_execution)' > /tmp/suite_$s.log 2>&1
  R=$(grep -E "Summary" /tmp/suite_$s.log | sed 's/^ *//')
  F=$(grep -E "^\s+(FAIL|TIMEOUT|SIGABRT|SIGSEGV)" /tmp/suite_$s.log | sort -u | head -5 | tr '\n' ';')
  [ -z "$R" ] && R="no summary (build failed?): $(grep -E '^error' /tmp/suite_$s.log | head -2 | tr '\n' ';')"
  echo "$s @ ${HEAD:0:8}: $R $F" | tee /verif/seeded/$s/suite.txt
  git checkout -q -- .
done
