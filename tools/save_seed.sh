#!/bin/bash
# usage: save_seed.sh <id-n e.g. c01-1> "<detected-by text>"   (copies out/ to /verif/seeded/<id-n>, removes the scratch worktree)
S=$1; NOTE=$2; D=/tmp/seed-$S
mkdir -p /verif/seeded/$S
cp $D/out/patch.diff $D/out/seeded_demo.rs /verif/seeded/$S/
python3 - "$D" "$S" "$NOTE" <<'PY'
import json,sys
D,S,NOTE=sys.argv[1:4]
m=json.load(open(D+'/out/meta.json'))
m['confirmed_in_scratch_worktree']={'demo_fails_with_change':True,'demo_passes_without':True,'lib_unit_tests_pass_with_change':True,'how':'tools/confirm_seed.sh'}
m['checks']=NOTE
json.dump(m,open('/verif/seeded/'+S+'/meta.json','w'),indent=1)
PY
git -C /repo worktree remove --force $D/wt; rm -rf $D; git -C /repo worktree prune
