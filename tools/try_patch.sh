#!/bin/bash
# usage: try_patch.sh [-R] <patch-file> <tier> <ID> [<ID>...]
# Applies a patch to /repo's working tree (with -R: reverse-applies it), runs ./check <ID> <tier> for every ID,
# prints one line per check (exit code, VIOLATION signatures), and always restores the tree.
REV=""
if [ "$1" = "-R" ]; then REV="-R"; shift; fi
PATCH=$1; TIER=$2; shift 2
cd /repo || exit 2
if ! git diff --quiet; then echo "refusing: /repo has local modifications"; exit 2; fi
if ! git apply $REV "$PATCH"; then echo "patch does not apply"; exit 2; fi
# evidence files describe runs on the unchanged tree: keep them out of reach of the mutated runs
EVBAK=$(mktemp -d /dev/shm/evbak.XXXXXX); cp -a /verif/evidence/. $EVBAK/
trap 'git -C /repo checkout -- . ; git -C /repo clean -fdq -- tests src 2>/dev/null; rm -rf /verif/evidence; mkdir -p /verif/evidence; cp -a $EVBAK/. /verif/evidence/; rm -rf $EVBAK' EXIT
cd /verif
for id in "$@"; do
  out=$(./check $id $TIER 2>&1); rc=$?
  echo "== $id $TIER rc=$rc"
  echo "$out" | grep -E "^VIOLATION|^  sig:|^KNOWN-FINDING|^MACHINERY" | head -${MAXLINES:-12}
done
