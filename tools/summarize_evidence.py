#!/usr/bin/env python3
"""Prints a markdown table of what the evidence files in /verif/evidence say (one row per property)."""
import json, glob, os
ROOT = os.path.dirname(os.path.dirname(os.path.abspath(__file__)))
rows = []
for f in sorted(glob.glob(os.path.join(ROOT, "evidence", "*.json"))):
    e = json.load(open(f)); c = e["coverage"]
    n = c.get("executions") or c.get("evaluations") or 0
    rows.append((e["property_id"], e["tier"], e["level"], n, c.get("states", ""), c.get("transitions", ""), c.get("distinct_nontrivial", ""), c.get("exhaustive"), e["wall_s"], len(c.get("known_findings_reproduced", []))))
print("| property | tier | level | executions / evaluations | states | transitions | non-trivial | exhaustive | wall s | known findings reproduced |")
print("|---|---|---|---|---|---|---|---|---|---|")
for r in rows:
    print("| " + " | ".join(str(x) for x in r) + " |")
