#!/bin/bash
# usage: agent_setup.sh <ID>   -> creates /tmp/agent-<id>/{harness,target,repo}
set -e
ID=$1; id=$(echo $ID | tr A-Z a-z)
D=/tmp/agent-$id
rm -rf $D; mkdir -p $D
git -C /repo worktree prune
git -C /repo worktree add --detach $D/repo HEAD >/dev/null 2>&1
cp -a /verif/harness $D/harness
cp -a /verif/target $D/target
sed -i "s|path = \"/repo\"|path = \"$D/repo\"|" $D/harness/Cargo.toml
sed -i "s|target-dir = \"/verif/target\"|target-dir = \"$D/target\"|" $D/harness/.cargo/config.toml
mkdir -p $D/evidence $D/replays
cp /verif/KNOWN_FINDINGS.json $D/KNOWN_FINDINGS.json
echo "ready: $D"
