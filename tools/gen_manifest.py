#!/usr/bin/env python3
"""Regenerates /verif/MANIFEST.json from the table below (kept in one place so it stays valid)."""
import json, os, subprocess
ROOT = os.path.dirname(os.path.dirname(os.path.abspath(__file__)))

ENGINE_A = "A-controlled-scheduler"
ENGINE_B = "B-explicit-state-histories"
ENGINE_C = "C-bounded-exhaustive-inputs"
ENGINE_F = "F-fault-point-enumeration"

# id -> (engine, category, technique, level text, level note, design ref)
CHECKS = {
 "C01": (ENGINE_A, "model_checking",
   "stateless model checking of the real Ingester (WAL on tmpfs): exhaustive DFS over schedules of 2 writers + flush timer at store-request / catalog-call / pause-point granularity with bounded preemptions, injected upload/registration errors (before/after effect) and up to two crash + restart rounds placed at every quiescent point",
   "Real Ingester with WalSyncMode::EveryWrite, flush_row_count 2: 3 single-row writes from 2 writers + timer tick; plans: every single (thorough: double) fault position x 1 preemption; every crash point x 2 (3) preemptions; fault + crash; crash - restart - crash (two crashes placed anywhere, recovery itself may be crashed, a write after the first restart) over a multi-segment WAL (rotation on every entry; threshold 3); schema change (flush-before-append inside a write) with crash, fault + crash and two faults + crash; back-pressure (BufferFull rejections of logged writes) with crash and fault + crash; thorough adds all pause points, three preemptions, two writers with two crashes. Oracle after a fault-free final flush through the shutdown path: every id whose write() returned Ok is in a catalogued chunk (decoded from the raw store).",
   "a write that returned is durable (sync on every write, tmpfs); crash points are the quiescent points of the scheduler (tasks parked at gates; in-flight file operations complete first); torn WAL writes are C05's subject",
   "DESIGN.md section 5 C01"),
 "C02": (ENGINE_A, "model_checking",
   "stateless model checking of the real code: exhaustive DFS over all interleavings of 2-3 catalog clients at object-store-request granularity, with state caching; linearizability oracle by brute force",
   "Every interleaving (2 clients: unbounded; 3 clients: preemption-bounded) of the real ObjectStoreMetadataClient mutation paths (register, delete, complete_compaction, complete_compaction_with_target), incl. create races, legacy-fallback reads, conflict/retry and retry exhaustion: 12-20 hand-written race programs plus the generated family of every unordered pair of client programs of 1..=2 operations over an 8-operation alphabet (quick: all 1-vs-1 and 1-vs-2 pairs and every 3rd 2-vs-2 pair; thorough: all 2.6 k pairs) and over a 5-operation alphabet on an empty store (create-if-absent race, legacy fallback; 465 pairs, quick every 2nd), ~1.5 k programs / 100 k executions in the quick tier; every catalog version checked for chunk-map/time-index agreement; final state must equal a real-time-consistent sequential order of exactly the Ok operations.",
   "InMemory object store's conditional PUT is atomic; one request = one atomic step; tokio back-off timers fire eagerly (no shared-state access between wake-up and next request)",
   "DESIGN.md section 5 C02"),
 "C03": (ENGINE_A, "model_checking",
   "stateless model checking of the real Compactor: exhaustive DFS over schedules of 1-2 compactor nodes at object-store-request / catalog-call granularity with preemption bound, plus one crash, injected error (before/after effect) or lease expiry placed at every point",
   "Real Compactor::run_compaction_cycle over real Parquet chunks (rows carry unique ids) on both catalog back ends: one compactor x every single fault position x {before, after}; one/two compactors x every crash point (restart runs a fresh cycle); two compactors x all interleavings within 2 (3) preemptions, x lease expiry (+301 s) anywhere; datasets incl. a chunk straddling an hour boundary and L0+L1 chunks over several hours in two cycles. After EVERY transition: nothing queryable became unqueryable and every listed object exists; at the end: reachable id multiset == original, each once, every row found by a point lookup of its own timestamp through the time index; merged chunk level = max(replaced)+1, levels never decrease; epilogue of every execution: the grace period passes, every live compactor runs one more cycle, every listed object must still exist and the rows must still be the original ones. (b) mixed-schema data sets (the ingester starts a new chunk at every schema change): every sequence of 2-3 chunk shapes out of 6 (label columns [host] / [region] / [host,region] / [region,host] / none, Timestamp(ns) or Int64 time column) in one hour x both back ends x L0 / L1, two real cycles, the multiset of WHOLE rows (every non-null column value) before vs after.",
   "duplicates tolerated while a compaction is in flight; crash = abort at a quiescent point; the lease-renewal task gets a horizon of 1 request per execution; no state caching (tasks share memory the fingerprint cannot see)",
   "DESIGN.md section 5 C03"),
 "C04": (ENGINE_C, "exploration",
   "bounded-exhaustive differential enumeration of the real QueryNode::query against DataFusion over a MemTable of all ingested rows: grammar-generated WHERE clauses x literal forms x SELECT shapes over enumerated chunk layouts, both catalog back ends, statistics-bearing catalogs, compaction and node states; a recording catalog wrapper measures pruning and attributes each mismatch to its cause",
   "Data sets of <=13 rows at instants on and +-1 ns around now, one hour ago and hour-bucket boundaries (2 metrics, host a/b/NULL); layouts: every chunking of a fixed family (one chunk, one per row in both flush orders, interleaved, straddling, nested, out of order; thorough: every cut into 2-3 contiguous chunks and every 2-chunk assignment of the small sets); Int64 and Timestamp(ns,UTC) columns; in-memory and object-store catalog, with and without true column statistics; L1 compaction before or between queries; warm node, first query of a node, same query twice, adaptive indexing on. Queries: ~60 WHERE templates (comparisons both ways, BETWEEN, =, IN, AND/OR/NOT incl. double negation, holes, redundant and repeated bounds) x bound assignments from a 16-18-point pool x 4 literal forms (integer, TIMESTAMP literal, to_timestamp_nanos, now()-relative), 15 SELECT shapes x 12 label predicates, 31 HAVING / derived-table shapes: 64 k evaluations quick, 4.5 M thorough, each compared with the full-scan answer. Label-set sub-space: every sequence of 2-3 chunk shapes out of 4 label sets x both back ends x both time column types, windows selecting all / the first / the last chunk, plain / * / count and per label projection, IS [NOT] NULL, =, <>, GROUP BY, count(label), on a warm and on a fresh node, against one MemTable of all rows under the union of the columns.",
   "DataFusion is evaluator and reference (only chunk selection, registration and binding are judged); results compared as multisets of rendered rows; both-reject counts as agreement; frozen clock; chunks written and registered directly (one schema per data set except in the label-set sub-space); statistics hand-written (the repository writes none); catalog-cache staleness, one-sided windows, joins, unions, sub-queries and negative timestamps are outside the family; membership in the family is decided by the generator's own interval analysis",
   "DESIGN.md section 5 C04"),
 "C05": (ENGINE_B, "model_checking",
   "explicit-state search (BFS with deduplication on directory image + reference state) over WAL operation histories executed on the real WriteAheadLog, with crash images derived from directory snapshots; every byte offset of the final crash enumerated",
   "All histories up to depth 3 (quick) / 5 (thorough) over append small/large, truncate_before, persist_flushed_seq, reopen and crash-during-operation (structural cuts) for three segment limits (rotate every entry, two entries per segment, never); from every distinct state every byte offset of a crash during append / truncate / flushed_seq write is followed by reopen-check-append-reopen-check against a reference log: exactly the complete entries, in order, once; sequence numbers above everything acknowledged. Every read check also compares read_entries_after(k), for every k from 0 to one past the newest entry, with the list read_entries() returns.",
   "sync on every write: returned operations are durable; torn write = prefix of header++payload; atomic ordered create/unlink; persist_flushed_seq is called with the highest acknowledged sequence number",
   "DESIGN.md section 5 C05"),
 "C06": (ENGINE_A, "model_checking",
   "stateless model checking of the real Ingester without faults (exhaustive DFS over writer/timer schedules within a preemption bound) plus bounded-exhaustive enumeration of batch shapes x thresholds",
   "Every schedule within 2 (3) preemptions of 2-3 writers with alternating schemas + flush timer + a legacy and a topic subscriber; plus plans in which byte-identical rows are written several times; after the shutdown flush: stored rows == accepted rows as multisets with bit-equal values, each catalog entry's row_count/min/max equal the decoded truth, each chunk announced to each subscriber exactly once. Input part: 2.5k shape x threshold combinations (timestamp types, extremes, NaN/inf/-0.0, null labels, row/byte thresholds, BufferFull).",
   "fault-free; subscribers keep up with the channel",
   "DESIGN.md section 5 C06"),
 "C07": (ENGINE_B, "model_checking",
   "explicit-state enumeration of all operation histories up to a depth, executed in lock-step on both real metadata back ends, every boundary query range compared with a reference interval map",
   "Every history of depth <=3 (quick; 4 with a reduced alphabet in thorough) over register (3 paths x 9-11 intervals incl. hour boundaries +-1 ns, negative, zero-length, multi-day, re-registration), delete, complete_compaction (known / unknown target), complete_compaction_with_target (merged chunk covering 1-3 hour buckets or straddling the epoch) on LocalMetadataClient and ObjectStoreMetadataClient in lock-step plus a fresh object-store client; after each history all ordered pairs of ~40 boundary points are queried (inverted ranges included, judged leniently).",
   "the answer for an inverted range is only required to be panic-free, error-free, duplicate-free and inside the overlap formula; no deduplication of histories",
   "DESIGN.md section 5 C07"),
 "C08": (ENGINE_A, "model_checking",
   "stateless model checking of the real code: exhaustive DFS over all interleavings of 2-3 nodes' lease operations at object-store-request granularity, wall-clock jumps as extra transitions, state caching",
   "Every interleaving of acquire/renew/complete/fail/scavenge by 2 nodes (3 in thorough, preemption-bounded) combined with every placement of <=2 (3) wall-clock jumps (+150 s, +301 s); invariants at every quiescent state: no lease-file version holds two live leases sharing a chunk, no two holders believe they hold a shared chunk, a reclaimed holder's renew is refused, abandoned leases are acquirable after expiry; also on the in-memory client at call granularity. Besides the hand-written programs: the generated family of every unordered pair of node programs of 1..=2 (thorough 3) lease operations (acquire over overlapping chunk sets, renew, complete, fail, scavenge) with the clock jumps placed anywhere.",
   "all nodes read the same interposed wall clock; InMemory conditional PUT is atomic; holder belief after renew = wall clock at the renew call + 300 s (what the caller can know)",
   "DESIGN.md section 5 C08"),
 "C14": (ENGINE_F, "fault_enumeration",
   "exhaustive fault/crash-point enumeration of the real ShardSplitter under the controlled scheduler: every request of the split x {error before effect, error after effect, crash}, followed by the documented recovery; a second interruption is nested at every request of the recovery run",
   "Real ShardSplitter over real Parquet chunks (rows below, at, above the split point) on both catalog back ends: for every object-store / catalog request of execute_split_with_monitoring and each mode in {fail-before, fail-after, crash}, and for a second interruption (crash after error, crash after crash; thorough also error after error, 3-chunk shard) at every request of the recovery run: recovery (resume_split up to 4 times on a fresh splitter, fresh split when nothing was recorded) must finish, and the final state must equal the uninterrupted one: two Active shards partitioning the range at the split point, old shard PendingDeletion, no split state / progress object, every old row in exactly one new shard on its side (split point to the upper shard) exactly once, no old-shard delete before the cut-over completed.",
   "crash-after-request-i equals crash-before-request-i+1 (memory is lost); sleeps on virtual time; new shard ids are taken from the last progress object written",
   "DESIGN.md section 5 C14"),
 "C15": (ENGINE_C, "exploration",
   "bounded-exhaustive input enumeration against a reference: the real Ingester::write under split states installed through the real MetadataClient, decoded new-shard chunks compared with the accepted rows; QueryNode::query compared with the same SQL over a MemTable of each accepted row once; the de-duplication routine run on every bounded input",
   "Routing: {in-memory, object-store catalog} x {Int64, Timestamp(ns)} x split points x 7 phase settings x all write histories of 1 write of <=3 rows over 12 (36) row values or 2 writes over ts {split-1, split, split+1} x metric x host x value: every accepted row in exactly one new shard on its side (split point to the upper shard), nothing outside DualWrite/Backfill. Reads: multisets of <=2 (3) rows + mixed-metric and two-write histories x 11 (19) queries incl. aggregates, judged after a flush in DualWrite/Backfill; a lifecycle walk through all phases, also over a shard that already holds data laid out under its id (the real back-fill copies it); the two new-shard ids sort ascending in half of the cases and descending in the other half; dedup routine on <=3 (4) rows x <=2 batches x Int64/Timestamp x Utf8/Utf8View. Both halves hold since the repair of the read half (c775b7b); the de-duplication routine, no longer on any query path, is exercised on every bounded input as an observation only.",
   "a batch's shard is the one the ingester derives from its first row; Timestamp-typed writes rejected by dual-write are counted, not judged; fresh query node per check; DataFusion is evaluator and reference; frozen clock and entropy",
   "DESIGN.md section 5 C15"),
 "C16": (ENGINE_B, "model_checking",
   "bounded-exhaustive explicit-state search over operation histories of the real TieredCache + CachedObjectStore (fresh objects per history, every answer compared with the backing store's answer to the identical request), plus exhaustive interleaving exploration of concurrent readers under the controlled scheduler with backing requests as gated scheduling points and clock jumps as extra transitions",
   "(a) all histories up to depth 3-6 (quick) / 3-8 (thorough) over new-object PUT (via the wrapper or directly, sizes 1/100/5000 B), 17 read kinds (get, get_opts plain/bounded/offset/suffix/if_match/if_none_match/date conditions/head, get_range, get_ranges, head) on <=4 name-related keys incl. missing ones, clock ticks, disk-tier settle; L1 in {0,1,100,200,5000,1 MiB} B x disk tier in {none, 4096, 8192, 128 MiB} x 1-3 preloaded contents (eviction on every insert, objects larger than a tier, L2->L1 promotion). (b) all interleavings of 2 (3) tasks x 2-3 reads on same / crossed / related / missing keys incl. one writer of a new object and <=2 clock jumps, L1-only configurations.",
   "a read that must fail may fail with any error kind; answers that ignore date preconditions but return exact bytes are not judged; only meta.size/location compared; disk-tier configurations sequential only (foyer runs its own threads); delete/rename through the wrapper is outside the quantifier and reported as an observation unless VERIF_C16_EXT_STRICT=1",
   "DESIGN.md section 5 C16"),
 "C17": (ENGINE_C, "exploration",
   "bounded-exhaustive input enumeration against the real entry points, each case in a watched worker process so that hangs (2 s CPU) and aborts are attributed to the exact input; expected rows computed by the harness's own protobuf writer/model",
   "Remote write: <=3 series x {no name, 2 names} x 2 labels {absent, 2 values} x <=2 samples; 20 values (+-0, fractions, 2^53+-, 2^63+-, 2^64, 1e300, 5e-324, +-inf, NaN) x 9 timestamps incl. ones not expressible in ns; 688 alternative valid encodings. OTLP: <=2 resources x <=2 metrics x <=2 points over gauge/sum/histogram/exp-histogram/summary with overlapping resource/point attributes. Bytes: every HTTP body <=2 bytes; every snappy-wrapped payload <=2 (quick) / <=3 (thorough, 16.8 M) bytes; single-mutation neighbourhoods (every prefix, every single-byte substitution, every varint / 32/64-bit word replaced by boundary values) of remote-write, OTLP, snappy and Flight frames; all Flight frame sequences <=3 over 6 frame kinds. Oracle: one row per sample with exact ns timestamp, name, complete label set, numerically equal value; a status comes back, no panic, no hang.",
   "built with overflow checks on; HTTP/gRPC framing not exercised; row order not prescribed; null and empty string both mean label absent; lenient where the property is silent (series without a name, key clashes, non-string attributes)",
   "DESIGN.md section 5 C17"),
 "C18": (ENGINE_C, "exploration",
   "bounded-exhaustive differential enumeration: every WHERE clause of the supported grammar x every small batch, QueryFilter::from_sql/apply vs DataFusion's own evaluation of the same clause over a MemTable of the rows; the same clauses streamed end to end through a real Ingester flush -> broadcast/topic channel -> StreamingQueryExecutor and through the websocket endpoint; all TopicFilter trees x all batch metadata through matches(), the and() builder and FilteredReceiver",
   "Clauses: no WHERE; 390 comparison forms (6 operators x both operand orders x 5 columns x matching/other-type/negative/NULL literals, qualified/upper-case/quoted names); all AND/OR pairs of 132 core forms; all depth-2 trees over a 12-comparison alphabet (quick: 6/5). 2 schemas (Timestamp(ns,UTC) / Int64). Batches: every batch of <=3 (quick 2) rows over an 8-row covering alphabet plus one 1296-row batch of all value combinations around the merge point. 2.7 M (quick) / 83.7 M (thorough) row-filter cases; 3 k / 131 k streams (order and multiplicity checked); 10,701 / 74,813 topic filters of depth <=2 x 63 metadata; 50 websocket cases.",
   "DataFusion v44 is the meaning of a WHERE clause; NOT/IN/BETWEEN/LIKE/IS NULL/functions are outside the stated scope; the subscriber keeps up; frozen wall clock (merge point = subscription instant)",
   "DESIGN.md section 5 C18"),
 "C19": (ENGINE_B, "model_checking",
   "explicit-state breadth-first search over cluster operation histories, every transition executed by replaying the state's shortest history through the public API on freshly built NodeRegistry + ShardAssignment + DistributedWriteRouter under an interposed monotonic clock; states deduplicated on a full-state fingerprint (cross-checked against enumeration without deduplication); each route_write runs as a tokio task under a 50-poll watchdog in a worker process with abort attribution",
   "For each of 3 assignment strategies x 2 clusters (2 ingesting + 1 query-only node with type flip; 3 ingesting nodes), 2 shards, loads {10,(94),95}: ALL histories up to depth 6 (quick, ~250 k states / 1.1 M transitions) or 8 (thorough, ~6.6 M states / 37 M transitions) over register / re-type / drain / heartbeat / heartbeats lost 16 s or 31 s + one tick of the real health check / load / remove / rebalance / route: every route returns within the poll bound an eligible node (healthy, ingesting type, load < 95, equal to the assignment) or an error, and no shard leaves a still-eligible node except through rebalance.",
   "sequential histories only; Err is always accepted; any rebalance justifies any move; heartbeat loss affects all nodes at once",
   "DESIGN.md section 5 C19"),
 "C20": (ENGINE_B, "model_checking",
   "explicit enumeration of every initial catalog x configuration of a bounded family, each driven through repeated real compaction cycles with the invariant checked between cycles",
   "All catalogs with 0..3/2/2/1 (thorough 0..4/3/4/3) chunks at L0 hour A / L0 hour B / L1 / L2 x merge threshold {2,3} x level target size {1 B, ~2 chunks, ~100 chunks} x max_levels {2,4} x both back ends, plus variants with 0..2 L0 chunks in the next hour and an L0 chunk straddling that hour boundary: a fixed point is reached within 8 cycles, every row is found by a point lookup of its timestamp after every cycle, candidate groups offered before each cycle are pairwise disjoint and level-homogeneous, groups actually merged (leases) are disjoint and of the lease's level, every level equals max(replaced)+1 or stays, rows conserved.",
   "one compactor, fault-free, frozen clock; in-memory levels tracked from observed merges",
   "DESIGN.md section 5 C20"),
 "C09": (ENGINE_B, "model_checking",
   "explicit-state search over histories of the real Compactor (cycle / clock / pin / unpin / restart) with every physical DELETE and retention removal judged against catalog history, grace, pins and cut-off; plus stateless model checking of all schedules of a GC pass against a pinning query",
   "(a) all histories up to depth 4 (quick) / 6 (thorough) over {compaction cycle, a cycle during which the catalog commit / the merged upload / the lease completion fails (before or after taking effect), clock +100 s/+301 s/+1 day, pin(2 sets), unpin, restart via Compactor::run} on both catalog back ends with grace 0/300 s and retention 1 day over a dataset with chunks inside the window, older than, straddling the cut-off and with negative timestamps; from every state every deletion that was ever persisted at the end of a cycle must be carried out after unpin + clock-past-grace + restart. (b) every schedule within 2 (3) preemptions of run_compaction_cycle vs QueryNode::query sharing a ChunkPinRegistry, catalog calls and store requests as scheduling points, grace 0/30/300 s: no DELETE is sent while the chunk is pinned. (c) the real ChunkPinRegistry as a state machine: BFS to depth 6 (8) over pin / try_pin of every ordering of two paths, drop of any live guard, begin_delete / drop of a claim, deduplicated on the reference state; after every operation is_pinned, pinned_count and the verdict agree with a reference (pin counts, claims).",
   "wall and monotonic clocks advance together; the harness is the only other source of catalog changes; quick tier does not make the query's chunk-data reads scheduling points; (c) assumes one collector per process (a claimed path is not claimed again before the claim is dropped)",
   "DESIGN.md section 5 C09"),
 "C10": (ENGINE_A, "model_checking",
   "stateless model checking of the real QueryNode: exhaustive DFS over all interleavings of 2-3 queries at catalog-call and registration/planning pause-point granularity, each result compared with the same query run alone",
   "One QueryNode over chunks in disjoint hours, cold or after having served other queries (non-initial table binding), with and without adaptive indexing; 2 queries (rows, aggregates) over disjoint / overlapping / subset / empty chunk selections, one of them possibly selecting the set bound last, a query against the historical phase of StreamingQueryExecutor::execute, 3 queries of which the third repeats the first, and variants in which the first two chunk-data reads of every query are scheduling points (a query parked inside its registration while holding the lock); thorough: two tenants, two streaming subscriptions, three queries on a warm node; all interleavings (3 queries: 4 preemptions) of catalog calls and the pause points before registration and after planning; every result must equal the result of the same query alone on a fresh node.",
   "DataFusion-internal waits resolve inside one step on the single-threaded runtime, so the interleaving granularity is register / plan / execute (plus the gated data reads); queries use Int64 timestamps with integer literals; every scenario starts from a node that has seen the files' schema (a vacuity guard fails the run if a query's time window is extracted as unbounded, i.e. if the selections cannot differ)",
   "DESIGN.md section 5 C10"),
 "C11": (ENGINE_B, "model_checking",
   "explicit-state breadth-first search over statement sequences against the real entry points; state = full world image (object listing with sizes/ETags/hashes, catalog, session catalogs/tables/options/functions/prepared statements, local files, probe queries on both nodes and a node started afterwards); every sequence re-executed on a freshly built world",
   "1232 transitions: 16 SQL entry points (HTTP SQL POST/GET, adaptive-indexing node, Flight get_flight_info / do_get / prepared statements / execute_batches, query_stream, query_stream_filtered, the 7 QueryEngine methods that take SQL) x 75 statements (one or more per statement kind DataFusion 44 plans; COPY targets: fresh path, existing chunk, catalog object, directories, file:// URL, local path, unregistered scheme) + 32 hostile/benign Prometheus requests; two initial states (cold, warm); quick depth 1, thorough depth 2 plus all ordered pairs; invariant: image unchanged, no mutating request reaches the store handles, every write-like statement gets an error from every executing entry point. A self-test hands every statement to DataFusion unrestricted to prove the image sees each kind of write.",
   "one representative per statement kind; entry points called in-process (no HTTP/gRPC framing); SET / PREPARE / transactions / EXPLAIN without ANALYZE only need to leave the state unchanged",
   "DESIGN.md section 5 C11"),
 "C12": (ENGINE_C, "exploration",
   "bounded-exhaustive enumeration of predicate trees x chunks (value multisets with true / missing / mistyped statistics) against a direct three-valued evaluation of the predicate on every row; the same through the real SQL -> predicate extraction -> catalog selection path and end to end through QueryNode::query against DataFusion over a MemTable of all rows",
   "fn layer: every ColumnPredicate tree of depth <=1 over the full atom alphabet (6 comparison operators x every domain value, NULL, comparable cross-type and incomparable literals; IN/NOT IN with every list of <=2 literals incl. empty; BETWEEN with every ordered and unordered pair) and every depth-2 tree over an end-point centred alphabet x every chunk = multiset of <=3 values over a 4 (thorough 5)-value domain + NULL for int/float/string columns x statistics {true, missing, type-swapped, junk, alternative numeric JSON type, min only, max only}, plus two-column chunks x trees mixing both columns (~1.5e8 cases quick): pruned => no row of the chunk can satisfy the predicate. sql layer: 4.7 k statements (both operand orders, BETWEEN/NOT BETWEEN, IN/NOT IN, NOT, IS NULL, arithmetic, casts, AND/OR compounds, aliasing projections, HAVING, CTE, join, union) x 2 catalogs carrying statistics over 12 chunks: no dropped chunk holds a matching row, the extracted predicate excludes no matching row, and QueryNode::query equals the same SQL over all rows; the fn layer's reference evaluator is validated row by row against DataFusion on the exactly convertible forms.",
   "statistics are attached to catalog.json by the harness (the ingest path writes none); a literal incomparable with the column's type may make a comparison come out either way ('may match'), except where the harness itself falsified the statistics' JSON type; DataFusion is evaluator and reference in the sql layer; frozen clock, no timestamp predicate (a timestamp conjunct disables column-predicate extraction)",
   "DESIGN.md section 5 C12"),
 "C13": (ENGINE_A, "model_checking",
   "stateless model checking of the real code: exhaustive DFS over all interleavings of 2-3 nodes' shard-metadata updates/creations at object-store-request granularity with state caching; plus exhaustive update histories of the router cache",
   "Every interleaving of 1-2 update_shard_metadata calls per node (expected generation equal, stale, ahead; shard absent or at generation 2) on the object-store client (request granularity) and the in-memory client (call granularity), hand-written programs plus the generated family of every unordered pair (thorough: also triple) of client programs of 1..=2 (3) updates with expected generations g0-1 ..= g0+2 from an absent shard and from generation 2; oracle: one winner per base generation, generations form the chain g0+1.., every version ever written carries the next generation, stored content belongs to the last winner; ShardRouter: all update sequences up to depth 5/7 never lower the cached generation.",
   "InMemory conditional PUT is atomic; the in-memory client's synchronous check-then-insert window is not a scheduling point of a single-threaded scheduler (stated in DESIGN.md)",
   "DESIGN.md section 5 C13"),
}

NOT_YET = {}

def main():
    props = [json.loads(l) for l in open(os.path.join(ROOT, "properties.jsonl"))]
    hooks = subprocess.run(["git", "-C", "/repo", "log", "--format=%h %s", "--grep=^verif-hooks"], capture_output=True, text=True).stdout.strip().splitlines()
    engines = {}
    checks = []
    na = []
    for p in props:
        pid = p["id"]
        if pid in CHECKS:
            eng, cat, tech, text, note, ref = CHECKS[pid]
            engines.setdefault(eng, []).append(pid)
            checks.append({
                "property_id": pid,
                "quick_cmd": f"./check {pid} quick",
                "thorough_cmd": f"./check {pid} thorough",
                "evidence_file": f"/verif/evidence/{pid}.json",
                "replay_cmd_template": f"./check {pid} --replay {{path}}",
                "engine": eng,
                "level_claimed": {"category": cat, "text": text, "design_ref": ref},
                "level_note": note,
                "technique": tech,
            })
        else:
            na.append({"property_id": pid, "reason": NOT_YET.get(pid, "check not built yet in this round (planned: see DESIGN.md section 5); not a claim that model checking cannot apply")})
    kinds = {
      ENGINE_A: ("harness/src/engine/sched.rs", "stateless DFS with replay over the real async code: gates at every object-store request / catalog call / hook pause point on a paused single-threaded tokio runtime; deviation bounds (preemptions, faults, crashes, clock jumps); state caching where the fingerprint is complete; interposed clocks and entropy"),
      ENGINE_B: ("harness/src/props", "breadth-first search over operation histories; every transition calls the real code on freshly built objects; invariant on every state"),
      ENGINE_C: ("harness/src/props", "complete enumeration of a finite input space against a boring reference"),
      ENGINE_F: ("harness/src/engine/sched.rs", "every request index x {fail-before, fail-after, crash} (nested) of a sequential procedure, then the documented recovery"),
    }
    m = {
      "version": 1,
      "setup_cmd": "./check --build",
      "hooks": {
        "guard": "cargo feature verif-hooks (off by default)",
        "enable": "the harness crate depends on cardinalsin = { path = \"/repo\", features = [\"verif-hooks\"] }",
        "baseline_off_cmd": "cd /repo && (cargo nextest run --workspace --no-fail-fast --tool-config-file pb:/w/lib/nextest.toml --profile pb --test-threads 8 --offline || cargo test --workspace --no-fail-fast --offline)",
        "source_commits": [h.split()[0] for h in hooks],
        "add_only": True,
      },
      "engines": [{"name": k, "path": kinds[k][0], "serves_properties": v, "kind_free_text": kinds[k][1]} for k, v in engines.items()],
      "checks": checks,
      "notes": "Exit codes of every command: 0 held (possibly with KNOWN-FINDING lines), 1 VIOLATION, 2 machinery failure (never a verdict). Known findings: /verif/KNOWN_FINDINGS.json. Seeded changes used to test the checks: /verif/seeded/.",
      "not_applicable": na,
    }
    json.dump(m, open(os.path.join(ROOT, "MANIFEST.json"), "w"), indent=1)
    print(f"MANIFEST.json: {len(checks)} checks, {len(na)} not claimed")

if __name__ == "__main__":
    main()
