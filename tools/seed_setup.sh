#!/bin/bash
# usage: seed_setup.sh <ID> <n>  -> /tmp/seed-<id>-<n>/{wt,out,BRIEF.md}
set -e
ID=$1; N=$2; id=$(echo $ID | tr A-Z a-z)
D=/tmp/seed-$id-$N
rm -rf $D; mkdir -p $D/out
git -C /repo worktree prune
git -C /repo worktree add --detach $D/wt HEAD >/dev/null 2>&1
python3 - "$ID" "$D" <<'PY'
import json,sys
ID,D=sys.argv[1],sys.argv[2]
p=[json.loads(l) for l in open('/verif/properties.jsonl') if json.loads(l)['id']==ID][0]
ptxt=f"**{p['title']}**\n\n{p['statement']}\n\nIt must hold: {p['quantifier']['text']}\n\nCode that is meant to make it hold: "+"; ".join(f"{x.get('name')} ({x.get('where')})" for x in p['anchors']['mechanism'])+f"\n\nFiles: {', '.join(p['anchors']['files'])}"
b=open('/verif/tools/SEED_BRIEF.md').read().replace('__WT__',D+'/wt').replace('__OUT__',D+'/out').replace('__DIR__',D).replace('__PROPERTY__',ptxt).replace('__ID__',ID)
open(D+'/BRIEF.md','w').write(b)
PY
echo "ready: $D"
