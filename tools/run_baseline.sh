#!/bin/bash
# Runs the repository's own suite (guard off) the way BASELINE.json does, in a scratch target dir outside /repo,
# and prints the pass/fail summary. usage: run_baseline.sh [runs]
RUNS=${1:-1}
export CARGO_TARGET_DIR=${BASELINE_TARGET:-/tmp/rt} CARGO_PROFILE_DEV_DEBUG=0 CARGO_PROFILE_TEST_DEBUG=0 CARGO_NET_OFFLINE=true
cd /repo || exit 2
for r in $(seq 1 $RUNS); do
  cargo nextest run --workspace --no-fail-fast --tool-config-file pb:/w/lib/nextest.toml --profile pb --test-threads 8 --offline > /tmp/baseline_run_$r.log 2>&1
  grep -E "Summary|FAIL|TIMEOUT|SIGKILL|TERMINATING" /tmp/baseline_run_$r.log | sort | uniq -c | head -20
done
