#!/bin/bash
# usage: confirm_seed.sh <dir: /tmp/seed-<id>-<n>>  [extra cargo test args to run with the change, e.g. "--lib"]
# Re-confirms a seeded change in its scratch worktree: demo fails with the change, passes without, the library unit tests
# pass with the change. Prints a JSON summary line.
D=$1
export CARGO_TARGET_DIR=$D/target CARGO_PROFILE_DEV_DEBUG=0 CARGO_PROFILE_TEST_DEBUG=0 CARGO_NET_OFFLINE=true
cd $D/wt || exit 2
git checkout -q -- src; git apply $D/out/patch.diff || { echo "patch does not apply"; exit 2; }
cp $D/out/seeded_demo.rs tests/seeded_demo.rs
cargo test --offline --test seeded_demo > $D/confirm_with.log 2>&1; with=$?
cargo test --offline --lib > $D/confirm_lib.log 2>&1; lib=$?
git checkout -q -- src
cargo test --offline --test seeded_demo > $D/confirm_without.log 2>&1; without=$?
git apply $D/out/patch.diff
echo "{\"dir\":\"$D\",\"demo_with_change_exit\":$with,\"demo_without_change_exit\":$without,\"lib_tests_with_change_exit\":$lib,\"lib_summary\":\"$(grep -h 'test result' $D/confirm_lib.log | head -1)\"}"
