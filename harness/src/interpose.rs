//! C-symbol interposers. This file is `#[path]`-included by the *binary* so that the symbols are
//! defined in the executable itself (and exported with -rdynamic for dlsym-based lookups).

use csverif::engine::env;

#[no_mangle]
pub unsafe extern "C" fn clock_gettime(clk: libc::clockid_t, ts: *mut libc::timespec) -> libc::c_int {
    let r = libc::syscall(libc::SYS_clock_gettime, clk as libc::c_long, ts) as libc::c_int;
    if r != 0 || ts.is_null() {
        return r;
    }
    match clk {
        libc::CLOCK_REALTIME | libc::CLOCK_REALTIME_COARSE => {
            if let Some(ns) = env::hook_wall() {
                (*ts).tv_sec = ns.div_euclid(1_000_000_000) as libc::time_t;
                (*ts).tv_nsec = ns.rem_euclid(1_000_000_000) as libc::c_long;
            }
        }
        libc::CLOCK_MONOTONIC
        | libc::CLOCK_MONOTONIC_COARSE
        | libc::CLOCK_MONOTONIC_RAW
        | libc::CLOCK_BOOTTIME => {
            let off = env::hook_mono_offset();
            if off != 0 {
                let ns = (*ts).tv_sec as i64 * 1_000_000_000 + (*ts).tv_nsec as i64 + off;
                (*ts).tv_sec = ns.div_euclid(1_000_000_000) as libc::time_t;
                (*ts).tv_nsec = ns.rem_euclid(1_000_000_000) as libc::c_long;
            }
        }
        _ => {}
    }
    r
}

#[no_mangle]
pub unsafe extern "C" fn getrandom(buf: *mut libc::c_void, len: libc::size_t, flags: libc::c_uint) -> libc::ssize_t {
    if len == 0 {
        return 0;
    }
    let slice = std::slice::from_raw_parts_mut(buf as *mut u8, len);
    if env::hook_fill_random(slice) {
        return len as libc::ssize_t;
    }
    libc::syscall(libc::SYS_getrandom, buf, len, flags) as libc::ssize_t
}

/// Start-up self check: with an environment installed the wall clock equals the epoch, uuids are a
/// function of the draw counter, and two fresh threads iterate a HashMap identically.
pub fn self_check() -> Result<(), String> {
    use std::collections::HashMap;
    fn probe() -> (i64, String, Vec<u32>) {
        let e = env::EnvState::new();
        env::install(&e);
        let now = chrono::Utc::now().timestamp_nanos_opt().unwrap_or(0);
        let st = std::time::SystemTime::now()
            .duration_since(std::time::UNIX_EPOCH)
            .map(|d| d.as_nanos() as i64)
            .unwrap_or(0);
        let u = uuid::Uuid::new_v4().to_string();
        let mut m = HashMap::new();
        for i in 0..64u32 {
            m.insert(i, i);
        }
        let order: Vec<u32> = m.keys().copied().collect();
        let i0 = std::time::Instant::now();
        e.advance_mono_secs(61);
        let el = i0.elapsed().as_secs();
        env::uninstall();
        assert!(now == st);
        (if el >= 61 && el < 70 { now } else { -1 }, u, order)
    }
    let a = std::thread::spawn(probe).join().map_err(|_| "probe panicked")?;
    let b = std::thread::spawn(probe).join().map_err(|_| "probe panicked")?;
    if a.0 != env::EPOCH_NS {
        return Err(format!("clock_gettime interposer not bound (wall={} expected {})", a.0, env::EPOCH_NS));
    }
    if a != b {
        return Err("getrandom interposer not bound: uuid / HashMap order differ between identical fresh threads".into());
    }
    Ok(())
}
