//! vcheck <PROPERTY> <quick|thorough>            run a check
//! vcheck <PROPERTY> --replay <file>             re-run one recorded failing case without the explorer
//! vcheck --selfcheck                            interposition self check only

#[path = "../interpose.rs"]
mod interpose;

use csverif::engine::report;
use csverif::props;

fn main() {
    let args: Vec<String> = std::env::args().skip(1).collect();
    if let Err(e) = interpose::self_check() {
        eprintln!("MACHINERY: {e}");
        std::process::exit(2);
    }
    if args.first().map(|s| s.as_str()) == Some("--selfcheck") {
        println!("interposition ok");
        return;
    }
    if args.len() < 2 {
        eprintln!("usage: vcheck <ID> <quick|thorough> | vcheck <ID> --replay <file>");
        std::process::exit(2);
    }
    if std::env::var("VERIF_RNG_TRACE").is_ok() {
        csverif::engine::env::TRACE_RNG.store(true, std::sync::atomic::Ordering::Relaxed);
    }
    report::quiet_panics();
    csverif::engine::sched::install_pause_hook();
    let id = args[0].to_uppercase();
    if id == "C13" && args[1] == "stress" {
        let (n, both) = csverif::props::c13::stress_local(20000);
        println!("in-memory update_shard_metadata, 2 free-running threads, same expected generation: both succeeded in {both} of {n} rounds");
        std::process::exit(0);
    }
    let code = if args[1] == "--replay" {
        let path = args.get(2).expect("replay file");
        let body = std::fs::read_to_string(path).expect("read replay file");
        let v: serde_json::Value = serde_json::from_str(&body).expect("parse replay file");
        props::replay(&id, &v["replay"])
    } else {
        let tier = match args[1].as_str() {
            "quick" | "thorough" => args[1].clone(),
            _ => std::env::var("VERIF_TIER").unwrap_or_else(|_| "quick".into()),
        };
        props::run(&id, &tier)
    };
    std::process::exit(code);
}
