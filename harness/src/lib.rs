pub mod engine;
pub mod props;
