//! Per-execution environment: wall clock, monotonic offset, entropy.
//!
//! The binary (`src/bin/vcheck.rs`, via `src/interpose.rs`) defines the C symbols
//! `clock_gettime` and `getrandom`; they consult the thread-local pointer installed here.
//! A thread with no environment installed sees the real clock and real entropy.

use std::cell::Cell;
use std::sync::atomic::{AtomicI64, AtomicU64, Ordering};
use std::sync::Arc;

/// 2025-06-01T12:00:00Z in ns: an arbitrary fixed epoch (mid-hour so hour arithmetic is visible).
pub const EPOCH_NS: i64 = 1_748_779_200_000_000_000;
pub const MAX_ACTORS: usize = 32;
pub static TRACE_RNG: std::sync::atomic::AtomicBool = std::sync::atomic::AtomicBool::new(false);

pub struct EnvState {
    /// frozen wall clock (absolute, ns since unix epoch)
    pub wall_ns: AtomicI64,
    /// forward offset added to every monotonic clock read (ns)
    pub mono_off_ns: AtomicI64,
    /// per-actor entropy draw counters
    pub rng: [AtomicU64; MAX_ACTORS],
    /// number of wall-clock reads (diagnostics only)
    pub wall_reads: AtomicU64,
}

impl EnvState {
    pub fn new() -> Arc<Self> {
        Arc::new(Self {
            wall_ns: AtomicI64::new(EPOCH_NS),
            mono_off_ns: AtomicI64::new(0),
            rng: std::array::from_fn(|_| AtomicU64::new(0)),
            wall_reads: AtomicU64::new(0),
        })
    }
    pub fn wall(&self) -> i64 {
        self.wall_ns.load(Ordering::SeqCst)
    }
    pub fn advance_wall_secs(&self, s: i64) {
        self.wall_ns.fetch_add(s * 1_000_000_000, Ordering::SeqCst);
    }
    pub fn advance_mono_secs(&self, s: i64) {
        self.mono_off_ns
            .fetch_add(s * 1_000_000_000, Ordering::SeqCst);
    }
}

thread_local! {
    static ENV: Cell<*const EnvState> = const { Cell::new(std::ptr::null()) };
    static ACTOR: Cell<usize> = const { Cell::new(0) };
}

/// Install `env` for the current thread. The caller keeps the `Arc` alive for as long as the
/// thread may read clocks (the execution owns it until its runtime has been dropped).
pub fn install(env: &Arc<EnvState>) {
    ENV.with(|c| c.set(Arc::as_ptr(env)));
}
pub fn uninstall() {
    ENV.with(|c| c.set(std::ptr::null()));
}
pub fn set_actor(a: usize) -> usize {
    ACTOR.with(|c| c.replace(a % MAX_ACTORS))
}
pub fn current_actor() -> usize {
    ACTOR.with(|c| c.get())
}

#[inline]
fn with_env<R>(f: impl FnOnce(Option<&EnvState>) -> R) -> R {
    let p = ENV.try_with(|c| c.get()).unwrap_or(std::ptr::null());
    if p.is_null() {
        f(None)
    } else {
        // SAFETY: pointer installed from a live Arc by `install`, cleared before the Arc is dropped.
        f(Some(unsafe { &*p }))
    }
}

/// Called by the interposed `clock_gettime`. Returns Some(ns) when the clock is owned.
pub fn hook_wall() -> Option<i64> {
    with_env(|e| {
        e.map(|e| {
            e.wall_reads.fetch_add(1, Ordering::Relaxed);
            e.wall_ns.load(Ordering::SeqCst)
        })
    })
}
pub fn hook_mono_offset() -> i64 {
    with_env(|e| e.map(|e| e.mono_off_ns.load(Ordering::SeqCst)).unwrap_or(0))
}

#[inline]
fn splitmix64(mut z: u64) -> u64 {
    z = z.wrapping_add(0x9E3779B97F4A7C15);
    z = (z ^ (z >> 30)).wrapping_mul(0xBF58476D1CE4E5B9);
    z = (z ^ (z >> 27)).wrapping_mul(0x94D049BB133111EB);
    z ^ (z >> 31)
}

#[inline]
fn buf_len_tag(n: usize) -> usize {
    n
}

/// Called by the interposed `getrandom`. Returns false when entropy is not owned on this thread.
pub fn hook_fill_random(buf: &mut [u8]) -> bool {
    with_env(|e| match e {
        None => false,
        Some(e) => {
            let a = ACTOR.try_with(|c| c.get()).unwrap_or(0);
            if TRACE_RNG.load(Ordering::Relaxed) {
                let name = std::thread::current().name().unwrap_or("?").to_string();
                eprintln!("RNG thread={name} actor={a} n={} len={}", e.rng[a].load(Ordering::SeqCst), buf.len());
            }
            if buf.len() >= 32 {
                // Seeds of lazily initialised process-global or per-thread generators (ahash, rand::thread_rng):
                // they are requested once, by whichever task happens to need them first in the process. Serve a
                // constant stream that does not consume any per-actor counter, so that executions stay a function
                // of their schedule.
                for (i, chunk) in buf.chunks_mut(8).enumerate() {
                    let v = splitmix64(0xC0FFEE ^ ((buf_len_tag(chunk.len()) as u64) << 32) ^ i as u64).to_le_bytes();
                    chunk.copy_from_slice(&v[..chunk.len()]);
                }
                return true;
            }
            for chunk in buf.chunks_mut(8) {
                let n = e.rng[a].fetch_add(1, Ordering::SeqCst);
                let v = splitmix64(((a as u64) << 48) ^ n).to_le_bytes();
                chunk.copy_from_slice(&v[..chunk.len()]);
            }
            true
        }
    })
}
