//! Evidence files, replay artefacts, known-findings matching and exit codes.

use serde_json::{json, Map, Value};
use std::collections::BTreeMap;
use std::path::PathBuf;
use std::time::Instant;

pub fn verif_root() -> PathBuf {
    std::env::var("VERIF_ROOT").map(PathBuf::from).unwrap_or_else(|_| PathBuf::from("/verif"))
}

#[derive(Debug, Clone, serde::Deserialize)]
pub struct KnownFinding {
    pub property: String,
    pub id: String,
    /// "open" or "fixed"
    pub status: String,
    /// exact violation signature this entry covers
    #[serde(default)]
    pub sig: Option<String>,
    /// or: every signature starting with this prefix
    #[serde(default)]
    pub sig_prefix: Option<String>,
    pub what: String,
    #[serde(default)]
    pub commit: Option<String>,
}

pub fn load_known(property: &str) -> Vec<KnownFinding> {
    let p = verif_root().join("KNOWN_FINDINGS.json");
    let Ok(s) = std::fs::read_to_string(&p) else { return Vec::new() };
    let v: Value = match serde_json::from_str(&s) {
        Ok(v) => v,
        Err(e) => {
            eprintln!("MACHINERY: KNOWN_FINDINGS.json does not parse: {e}");
            std::process::exit(2);
        }
    };
    let arr = v.get("findings").and_then(|f| f.as_array()).cloned().unwrap_or_default();
    arr.into_iter()
        .filter_map(|e| serde_json::from_value::<KnownFinding>(e).ok())
        .filter(|k| k.property == property)
        .collect()
}

#[derive(Debug, Clone)]
pub struct ReportedViolation {
    pub sig: String,
    pub msg: String,
    /// everything needed to re-run the failing case without the explorer
    pub replay: Value,
    pub count: u64,
}

pub struct Report {
    pub property: String,
    pub tier: String,
    pub seed: i64,
    pub level: String,
    pub coverage: Map<String, Value>,
    pub assumptions: Vec<String>,
    pub violations: BTreeMap<String, ReportedViolation>,
    pub machinery_errors: Vec<String>,
    pub t0: Instant,
}

impl Report {
    pub fn new(property: &str, tier: &str, level: &str) -> Self {
        let seed = std::env::var("VERIF_SEED").ok().and_then(|s| s.parse().ok()).unwrap_or(0);
        Self {
            property: property.to_string(),
            tier: tier.to_string(),
            seed,
            level: level.to_string(),
            coverage: Map::new(),
            assumptions: Vec::new(),
            violations: BTreeMap::new(),
            machinery_errors: Vec::new(),
            t0: Instant::now(),
        }
    }
    pub fn set(&mut self, k: &str, v: impl Into<Value>) {
        self.coverage.insert(k.to_string(), v.into());
    }
    pub fn add_u64(&mut self, k: &str, n: u64) {
        let cur = self.coverage.get(k).and_then(|v| v.as_u64()).unwrap_or(0);
        self.coverage.insert(k.to_string(), json!(cur + n));
    }
    pub fn get_u64(&self, k: &str) -> u64 {
        self.coverage.get(k).and_then(|v| v.as_u64()).unwrap_or(0)
    }
    pub fn push_sample(&mut self, v: Value) {
        let arr = self.coverage.entry("samples".to_string()).or_insert_with(|| json!([]));
        if let Some(a) = arr.as_array_mut() {
            if a.len() < 6 {
                a.push(v);
            }
        }
    }
    pub fn assume(&mut self, s: &str) {
        if !self.assumptions.iter().any(|a| a == s) {
            self.assumptions.push(s.to_string());
        }
    }
    pub fn violation(&mut self, sig: &str, msg: &str, replay: Value) {
        let e = self.violations.entry(sig.to_string()).or_insert_with(|| ReportedViolation {
            sig: sig.to_string(),
            msg: msg.to_string(),
            replay,
            count: 0,
        });
        e.count += 1;
    }
    pub fn violation_n(&mut self, sig: &str, msg: &str, replay: Value, n: u64) {
        let e = self.violations.entry(sig.to_string()).or_insert_with(|| ReportedViolation {
            sig: sig.to_string(),
            msg: msg.to_string(),
            replay,
            count: 0,
        });
        e.count += n;
    }
    pub fn machinery(&mut self, msg: impl Into<String>) {
        self.machinery_errors.push(msg.into());
    }

    /// Merge the statistics of one engine-A exploration into the coverage map.
    pub fn absorb_explore(&mut self, name: &str, params: &Value, st: &super::sched::ExploreStats, bounds: super::sched::Cost) {
        self.add_u64("executions", st.executions);
        self.add_u64("evaluations", st.executions);
        self.add_u64("states", st.states);
        self.add_u64("transitions", st.transitions);
        self.add_u64("traces_validated_against_impl", st.executions);
        self.add_u64("pruned_revisits", st.pruned);
        self.add_u64("determinism_selftest_runs", st.selftest_runs);
        let md = self.get_u64("max_depth").max(st.max_depth as u64);
        self.set("max_depth", md);
        let scen = self.coverage.entry("scenarios".to_string()).or_insert_with(|| json!([]));
        if let Some(a) = scen.as_array_mut() {
            a.push(json!({
                "scenario": name, "params": params,
                "bounds_completed": if st.capped { Value::Null } else { json!({"preemptions": bounds.preempt, "faults": bounds.fault, "crashes": bounds.crash, "clock_jumps": bounds.clock}) },
                "bounds_requested": {"preemptions": bounds.preempt, "faults": bounds.fault, "crashes": bounds.crash, "clock_jumps": bounds.clock},
                "executions": st.executions, "states": st.states, "transitions": st.transitions, "pruned_revisits": st.pruned,
                "max_depth": st.max_depth, "distinct_outcomes": st.outcomes.len(), "capped": st.capped,
                "flags": st.flags, "wall_s": (st.wall_s * 100.0).round() / 100.0,
            }));
        }
        if st.capped {
            self.set("exhaustive", false);
        }
        let prev = self.get_u64("distinct_outcomes");
        self.set("distinct_outcomes", prev + st.outcomes.len() as u64);
        for s in st.samples.iter().take(2) {
            self.push_sample(json!({"scenario": name, "trace": s}));
        }
        for e in &st.machinery_errors {
            self.machinery(format!("[{name}] {e}"));
        }
        for (sig, v) in &st.violations {
            self.violation_n(
                sig,
                &v.msg,
                json!({"kind": "schedule", "scenario": name, "params": params, "prefix": v.prefix, "trace": v.trace,
                       "bounds": {"preempt": bounds.preempt, "fault": bounds.fault, "crash": bounds.crash, "clock": bounds.clock}}),
                v.count,
            );
        }
    }

    /// Like `absorb_explore`, for families of many generated scenarios: counters, violations and machinery errors
    /// are merged, but no per-scenario entry is written (the caller adds one summary entry for the family).
    pub fn absorb_explore_compact(&mut self, name: &str, params: &Value, st: &super::sched::ExploreStats, bounds: super::sched::Cost) {
        self.add_u64("executions", st.executions);
        self.add_u64("evaluations", st.executions);
        self.add_u64("states", st.states);
        self.add_u64("transitions", st.transitions);
        self.add_u64("traces_validated_against_impl", st.executions);
        self.add_u64("pruned_revisits", st.pruned);
        self.add_u64("determinism_selftest_runs", st.selftest_runs);
        let md = self.get_u64("max_depth").max(st.max_depth as u64);
        self.set("max_depth", md);
        if st.capped {
            self.set("exhaustive", false);
        }
        let prev = self.get_u64("distinct_outcomes");
        self.set("distinct_outcomes", prev + st.outcomes.len() as u64);
        for e in &st.machinery_errors {
            self.machinery(format!("[{name}] {e}"));
        }
        for (sig, v) in &st.violations {
            self.violation_n(
                sig,
                &v.msg,
                json!({"kind": "schedule", "scenario": name, "params": params, "prefix": v.prefix, "trace": v.trace,
                       "bounds": {"preempt": bounds.preempt, "fault": bounds.fault, "crash": bounds.crash, "clock": bounds.clock}}),
                v.count,
            );
        }
    }

    /// Write evidence + replays, print the verdict lines, return the process exit code.
    pub fn finish(mut self) -> i32 {
        let root = verif_root();
        let known = load_known(&self.property);
        let mut unknown = 0;
        let mut known_hit: BTreeMap<String, (String, u64)> = BTreeMap::new();
        let rdir = root.join("replays").join(&self.property);
        let mut vio_summ = Vec::new();
        for (sig, v) in &self.violations {
            let k = known.iter().find(|k| {
                k.status == "open"
                    && (k.sig.as_deref() == Some(sig.as_str())
                        || k.sig_prefix.as_deref().map(|p| sig.starts_with(p)).unwrap_or(false))
            });
            match k {
                Some(k) => {
                    let e = known_hit.entry(k.id.clone()).or_insert((k.what.clone(), 0));
                    e.1 += v.count;
                    vio_summ.push(json!({"sig": sig, "known_finding": k.id, "count": v.count}));
                }
                None => {
                    unknown += 1;
                    if unknown > 200 {
                        // enough witnesses written out; the rest is counted in the evidence file
                        vio_summ.push(json!({"sig": sig, "count": v.count}));
                        continue;
                    }
                    let _ = std::fs::create_dir_all(&rdir);
                    let mut h = std::collections::hash_map::DefaultHasher::new();
                    std::hash::Hash::hash(sig, &mut h);
                    let name = format!("{:016x}.json", std::hash::Hasher::finish(&h));
                    let path = rdir.join(name);
                    let body = json!({"property": self.property, "sig": sig, "msg": v.msg, "count": v.count, "replay": v.replay});
                    let _ = std::fs::write(&path, serde_json::to_string_pretty(&body).unwrap());
                    println!("VIOLATION property={} replay={}", self.property, path.display());
                    if unknown <= 40 {
                        println!("  sig: {sig}");
                        println!("  msg: {}", v.msg.lines().take(12).collect::<Vec<_>>().join("\n       "));
                    }
                    vio_summ.push(json!({"sig": sig, "replay": path.display().to_string(), "count": v.count}));
                }
            }
        }
        if unknown > 200 {
            println!("({} further violation signatures were counted but not written out)", unknown - 200);
        }
        for (id, (what, n)) in &known_hit {
            println!("KNOWN-FINDING: property={} {} {} (reproduced {} times)", self.property, id, what, n);
        }
        for e in &self.machinery_errors {
            eprintln!("MACHINERY: {e}");
        }
        let wall = self.t0.elapsed().as_secs_f64();
        if !self.coverage.contains_key("exhaustive") {
            self.coverage.insert("exhaustive".into(), json!(true));
        }
        self.coverage.insert("violation_summary".into(), json!(vio_summ));
        self.coverage.insert("known_findings_reproduced".into(), json!(known_hit.keys().collect::<Vec<_>>()));
        if !self.machinery_errors.is_empty() {
            self.coverage.insert("machinery_errors".into(), json!(self.machinery_errors));
        }
        let ev = json!({
            "property_id": self.property,
            "tier": self.tier,
            "seed": self.seed,
            "level": self.level,
            "coverage": Value::Object(self.coverage.clone()),
            "assumptions": self.assumptions,
            "wall_s": (wall * 100.0).round() / 100.0,
            "violations": unknown,
        });
        let edir = root.join("evidence");
        let _ = std::fs::create_dir_all(&edir);
        let epath = edir.join(format!("{}.json", self.property));
        if let Err(e) = std::fs::write(&epath, serde_json::to_string_pretty(&ev).unwrap() + "\n") {
            eprintln!("MACHINERY: cannot write evidence {}: {e}", epath.display());
            return 2;
        }
        println!(
            "{} {}: {} unlisted violation signature(s), {} known finding(s) reproduced, {:.1}s, evidence {}",
            self.property,
            self.tier,
            unknown,
            known_hit.len(),
            wall,
            epath.display()
        );
        // a violation found is reported as such even when a vacuity guard (or another machinery check) also
        // fired: guards routinely fire *because* the violation cut executions short
        if unknown > 0 {
            1
        } else if !self.machinery_errors.is_empty() {
            2
        } else {
            0
        }
    }
}

/// Silence panic messages of the code under test (they are caught and judged by the oracles).
pub fn quiet_panics() {
    if std::env::var("VERIF_LOUD_PANICS").is_ok() {
        return;
    }
    std::panic::set_hook(Box::new(|_| {}));
}
