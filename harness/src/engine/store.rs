//! `GatedStore`: an `ObjectStore` wrapper whose every (selected) request is a scheduling point, that logs
//! every request with the wall clock at which it took effect, keeps every version ever written, and
//! can answer a granted request with an injected failure (before or after the effect).

use super::sched::{Ctl, Decision};
use async_trait::async_trait;
use bytes::Bytes;
use futures::stream::BoxStream;
use futures::StreamExt;
use object_store::path::Path;
use object_store::{
    GetOptions, GetResult, ListResult, MultipartUpload, ObjectMeta, ObjectStore, PutMultipartOpts, PutOptions,
    PutPayload, PutResult, Result as OsResult,
};
use std::sync::{Arc, Mutex};

#[derive(Debug, Clone)]
pub struct LogEntry {
    pub seq: usize,
    pub node: String,
    pub actor: String,
    /// PUT / GET / DELETE / LIST / COPY / MPUT
    pub kind: String,
    pub path: String,
    /// did the request take effect / succeed at the backing store
    pub ok: bool,
    /// error text when !ok (backing-store error or injected)
    pub err: Option<String>,
    pub injected: Option<Decision>,
    pub wall_ns: i64,
    /// payload of a PUT that took effect
    pub payload: Option<Bytes>,
    /// "create" / "update" / "overwrite" for PUTs
    pub mode: String,
}

#[derive(Default)]
pub struct StoreLog {
    pub entries: Mutex<Vec<LogEntry>>,
}

impl StoreLog {
    pub fn new() -> Arc<Self> {
        Arc::new(Self::default())
    }
    pub fn push(&self, mut e: LogEntry) {
        let mut g = self.entries.lock().unwrap();
        e.seq = g.len();
        g.push(e);
    }
    pub fn snapshot(&self) -> Vec<LogEntry> {
        self.entries.lock().unwrap().clone()
    }
    pub fn len(&self) -> usize {
        self.entries.lock().unwrap().len()
    }
    /// every version of `path` ever written (successful PUTs that took effect), in order
    pub fn versions(&self, path_suffix: &str) -> Vec<LogEntry> {
        self.entries
            .lock()
            .unwrap()
            .iter()
            .filter(|e| e.kind == "PUT" && e.ok && e.path.ends_with(path_suffix))
            .cloned()
            .collect()
    }
}

pub type GateFilter = Arc<dyn Fn(&str, &str) -> bool + Send + Sync>;

pub struct GatedStore {
    pub inner: Arc<dyn ObjectStore>,
    pub node: String,
    pub ctl: Ctl,
    pub log: Arc<StoreLog>,
    /// (kind, path) -> is this request a scheduling point?
    pub filter: GateFilter,
    /// rolling hash of every response this node has received (part of the node's state fingerprint)
    pub resp_hash: std::sync::atomic::AtomicU64,
    /// one-shot injected failures for sequential harnesses: the next request of `kind` whose path contains the
    /// substring gets the decision
    pub inject: Mutex<Vec<(String, String, Decision)>>,
}

impl GatedStore {
    pub fn resp(&self) -> u64 {
        self.resp_hash.load(std::sync::atomic::Ordering::SeqCst)
    }
    pub fn new(inner: Arc<dyn ObjectStore>, node: &str, ctl: &Ctl, log: &Arc<StoreLog>) -> Arc<Self> {
        Arc::new(Self {
            inner,
            node: node.to_string(),
            ctl: ctl.clone(),
            log: log.clone(),
            filter: Arc::new(|_, _| true),
            resp_hash: std::sync::atomic::AtomicU64::new(0),
            inject: Mutex::new(Vec::new()),
        })
    }
    pub fn with_filter(
        inner: Arc<dyn ObjectStore>,
        node: &str,
        ctl: &Ctl,
        log: &Arc<StoreLog>,
        filter: impl Fn(&str, &str) -> bool + Send + Sync + 'static,
    ) -> Arc<Self> {
        Arc::new(Self {
            inner,
            node: node.to_string(),
            ctl: ctl.clone(),
            log: log.clone(),
            filter: Arc::new(filter),
            resp_hash: std::sync::atomic::AtomicU64::new(0),
            inject: Mutex::new(Vec::new()),
        })
    }

    pub fn inject_failure(&self, kind: &str, path_contains: &str, d: Decision) {
        self.inject.lock().unwrap().push((kind.to_string(), path_contains.to_string(), d));
    }
    pub fn pending_injections(&self) -> usize {
        self.inject.lock().unwrap().len()
    }
    pub fn clear_injections(&self) {
        self.inject.lock().unwrap().clear();
    }
    async fn gate(&self, kind: &str, path: &str, payload: Option<Bytes>) -> Decision {
        {
            let mut inj = self.inject.lock().unwrap();
            if let Some(i) = inj.iter().position(|(k, p, _)| k == kind && path.contains(p.as_str())) {
                return inj.remove(i).2;
            }
        }
        if (self.filter)(kind, path) {
            self.ctl.gate(&self.node, kind, path, payload).await
        } else {
            Decision::Ok
        }
    }

    fn record(&self, kind: &str, path: &str, ok: bool, err: Option<String>, injected: Option<Decision>, payload: Option<Bytes>, mode: &str) {
        let actor = Ctl::current_actor_name()
            .map(|a| a.to_string())
            .unwrap_or_else(|| format!("{}/bg", self.node));
        {
            use std::hash::{Hash, Hasher};
            let mut h = std::collections::hash_map::DefaultHasher::new();
            self.resp_hash.load(std::sync::atomic::Ordering::SeqCst).hash(&mut h);
            (kind, path, ok, &err, mode).hash(&mut h);
            self.resp_hash.store(h.finish(), std::sync::atomic::Ordering::SeqCst);
        }
        self.log.push(LogEntry {
            seq: 0,
            node: self.node.clone(),
            actor,
            kind: kind.to_string(),
            path: path.to_string(),
            ok,
            err,
            injected,
            wall_ns: self.ctl.env().wall(),
            payload,
            mode: mode.to_string(),
        });
    }
}

fn injected_error(what: &str) -> object_store::Error {
    object_store::Error::Generic {
        store: "verif-injected",
        source: format!("injected failure: {what}").into(),
    }
}

fn payload_bytes(p: &PutPayload) -> Bytes {
    let mut v = Vec::with_capacity(p.content_length());
    for b in p.iter() {
        v.extend_from_slice(b);
    }
    Bytes::from(v)
}

impl std::fmt::Debug for GatedStore {
    fn fmt(&self, f: &mut std::fmt::Formatter<'_>) -> std::fmt::Result {
        write!(f, "GatedStore({})", self.node)
    }
}
impl std::fmt::Display for GatedStore {
    fn fmt(&self, f: &mut std::fmt::Formatter<'_>) -> std::fmt::Result {
        write!(f, "GatedStore({})", self.node)
    }
}

#[async_trait]
impl ObjectStore for GatedStore {
    async fn put_opts(&self, location: &Path, payload: PutPayload, opts: PutOptions) -> OsResult<PutResult> {
        let p = location.to_string();
        let bytes = payload_bytes(&payload);
        let mode = match &opts.mode {
            object_store::PutMode::Create => "create",
            object_store::PutMode::Update(_) => "update",
            object_store::PutMode::Overwrite => "overwrite",
        };
        let d = self.gate("PUT", &p, Some(bytes.clone())).await;
        match d {
            Decision::FailBefore => {
                self.record("PUT", &p, false, Some("injected".into()), Some(d), Some(bytes), mode);
                Err(injected_error("PUT before effect"))
            }
            Decision::Ok | Decision::FailAfter => {
                let r = self.inner.put_opts(location, payload, opts).await;
                match (&r, d) {
                    (Ok(_), Decision::FailAfter) => {
                        self.record("PUT", &p, true, Some("injected-after".into()), Some(d), Some(bytes), mode);
                        Err(injected_error("PUT after effect"))
                    }
                    (Ok(_), _) => {
                        self.record("PUT", &p, true, None, None, Some(bytes), mode);
                        r
                    }
                    (Err(e), _) => {
                        self.record("PUT", &p, false, Some(e.to_string()), None, None, mode);
                        r
                    }
                }
            }
        }
    }

    async fn put_multipart_opts(&self, location: &Path, opts: PutMultipartOpts) -> OsResult<Box<dyn MultipartUpload>> {
        let p = location.to_string();
        let d = self.gate("MPUT", &p, None).await;
        if d != Decision::Ok {
            self.record("MPUT", &p, false, Some("injected".into()), Some(d), None, "");
            return Err(injected_error("MPUT"));
        }
        let r = self.inner.put_multipart_opts(location, opts).await;
        self.record("MPUT", &p, r.is_ok(), r.as_ref().err().map(|e| e.to_string()), None, None, "");
        r
    }

    async fn get_opts(&self, location: &Path, options: GetOptions) -> OsResult<GetResult> {
        let p = location.to_string();
        let kind = if options.head { "HEAD" } else { "GET" };
        let d = self.gate(kind, &p, None).await;
        if d != Decision::Ok {
            self.record(kind, &p, false, Some("injected".into()), Some(d), None, "");
            return Err(injected_error("GET"));
        }
        let r = self.inner.get_opts(location, options).await;
        let etag = r.as_ref().ok().and_then(|g| g.meta.e_tag.clone()).unwrap_or_default();
        self.record(kind, &p, r.is_ok(), r.as_ref().err().map(|e| e.to_string()), None, None, &etag);
        r
    }

    async fn delete(&self, location: &Path) -> OsResult<()> {
        let p = location.to_string();
        let d = self.gate("DELETE", &p, None).await;
        match d {
            Decision::FailBefore => {
                self.record("DELETE", &p, false, Some("injected".into()), Some(d), None, "");
                Err(injected_error("DELETE before effect"))
            }
            _ => {
                let r = self.inner.delete(location).await;
                if r.is_ok() && d == Decision::FailAfter {
                    self.record("DELETE", &p, true, Some("injected-after".into()), Some(d), None, "");
                    return Err(injected_error("DELETE after effect"));
                }
                self.record("DELETE", &p, r.is_ok(), r.as_ref().err().map(|e| e.to_string()), None, None, "");
                r
            }
        }
    }

    fn list(&self, prefix: Option<&Path>) -> BoxStream<'_, OsResult<ObjectMeta>> {
        let p = prefix.map(|p| p.to_string()).unwrap_or_default();
        let prefix = prefix.cloned();
        futures::stream::once(async move {
            let d = self.gate("LIST", &p, None).await;
            if d != Decision::Ok {
                self.record("LIST", &p, false, Some("injected".into()), Some(d), None, "");
                return futures::stream::iter(vec![Err(injected_error("LIST"))]).boxed();
            }
            self.record("LIST", &p, true, None, None, None, "");
            self.inner.list(prefix.as_ref())
        })
        .flatten()
        .boxed()
    }

    async fn list_with_delimiter(&self, prefix: Option<&Path>) -> OsResult<ListResult> {
        let p = prefix.map(|p| p.to_string()).unwrap_or_default();
        let d = self.gate("LIST", &p, None).await;
        if d != Decision::Ok {
            self.record("LIST", &p, false, Some("injected".into()), Some(d), None, "");
            return Err(injected_error("LIST"));
        }
        self.record("LIST", &p, true, None, None, None, "");
        self.inner.list_with_delimiter(prefix).await
    }

    async fn copy(&self, from: &Path, to: &Path) -> OsResult<()> {
        let p = format!("{from} -> {to}");
        let d = self.gate("COPY", &p, None).await;
        if d == Decision::FailBefore {
            self.record("COPY", &p, false, Some("injected".into()), Some(d), None, "");
            return Err(injected_error("COPY"));
        }
        let r = self.inner.copy(from, to).await;
        if r.is_ok() && d == Decision::FailAfter {
            self.record("COPY", &p, true, Some("injected-after".into()), Some(d), None, "");
            return Err(injected_error("COPY after effect"));
        }
        self.record("COPY", &p, r.is_ok(), r.as_ref().err().map(|e| e.to_string()), None, None, "");
        r
    }

    async fn copy_if_not_exists(&self, from: &Path, to: &Path) -> OsResult<()> {
        let p = format!("{from} -> {to}");
        let d = self.gate("COPY", &p, None).await;
        if d == Decision::FailBefore {
            self.record("COPY", &p, false, Some("injected".into()), Some(d), None, "");
            return Err(injected_error("COPY"));
        }
        let r = self.inner.copy_if_not_exists(from, to).await;
        if r.is_ok() && d == Decision::FailAfter {
            self.record("COPY", &p, true, Some("injected-after".into()), Some(d), None, "");
            return Err(injected_error("COPY after effect"));
        }
        self.record("COPY", &p, r.is_ok(), r.as_ref().err().map(|e| e.to_string()), None, None, "");
        r
    }
}

/// Raw read helpers for oracles (bypass gates and caches).
pub async fn raw_get(store: &Arc<dyn ObjectStore>, path: &str) -> Option<Bytes> {
    match store.get(&Path::parse(path).expect("path")).await {
        Ok(r) => r.bytes().await.ok(),
        Err(_) => None,
    }
}

pub async fn raw_list(store: &Arc<dyn ObjectStore>) -> Vec<(String, usize, Option<String>)> {
    let mut out = Vec::new();
    let mut s = store.list(None);
    while let Some(m) = s.next().await {
        if let Ok(m) = m {
            out.push((m.location.to_string(), m.size, m.e_tag));
        }
    }
    out.sort();
    out
}
