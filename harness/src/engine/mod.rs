pub mod env;
pub mod meta;
pub mod report;
pub mod sched;
pub mod store;
