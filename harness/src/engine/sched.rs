//! Engine A: controlled scheduler for the real async code.
//!
//! One execution = one fresh OS thread + one fresh paused current-thread tokio runtime. Tasks of the
//! code under test park at *gates* (object-store requests, catalog calls, feature-gated pause points);
//! the driver waits for quiescence (a far-future virtual-time sleep fires only when nothing is runnable
//! and no blocking work is in flight), lists the enabled transitions in a canonical order and takes the
//! one the search tells it to. The search is a stateless DFS with replay and deviation bounds.

use super::env::{self, EnvState};
use async_trait::async_trait;
use std::collections::{BTreeMap, BTreeSet, HashMap};
use std::future::Future;
use std::pin::Pin;
use std::sync::atomic::{AtomicBool, AtomicU64, Ordering};
use std::sync::{Arc, Mutex};
use std::task::{Context, Poll};
use std::time::{Duration, Instant};
use tokio::sync::oneshot;

// ------------------------------------------------------------------------------------------------
// Gates
// ------------------------------------------------------------------------------------------------

#[derive(Debug, Clone, Copy, PartialEq, Eq, Hash, serde::Serialize, serde::Deserialize)]
pub enum Decision {
    Ok,
    /// return an error, the request has no effect
    FailBefore,
    /// apply the request, then return an error (lost response)
    FailAfter,
}

#[derive(Debug, Clone)]
pub struct GateInfo {
    pub serial: u64,
    pub actor: String,
    pub node: String,
    /// e.g. "PUT", "GET", "DELETE", "LIST", "META", "HOOK"
    pub kind: String,
    /// object path, catalog method name or hook label
    pub what: String,
    /// PUT payload (so signatures can look inside uploads)
    pub payload: Option<bytes::Bytes>,
}

impl GateInfo {
    pub fn label(&self) -> String {
        format!("{}:{} {}", self.actor, self.kind, self.what)
    }
}

struct Parked {
    info: GateInfo,
    tx: oneshot::Sender<Decision>,
}

thread_local! {
    static CUR_ACTOR_NAME: std::cell::RefCell<Option<Arc<str>>> = const { std::cell::RefCell::new(None) };
    static CUR_NODE_NAME: std::cell::RefCell<Option<Arc<str>>> = const { std::cell::RefCell::new(None) };
    static CUR_CTL: std::cell::RefCell<Option<Ctl>> = const { std::cell::RefCell::new(None) };
}

/// The controller handle shared by the driver, the gate wrappers and the hook callback.
#[derive(Clone)]
pub struct Ctl(Arc<CtlInner>);

pub struct CtlInner {
    pub env: Arc<EnvState>,
    parked: Mutex<Vec<Parked>>,
    serial: AtomicU64,
    trace: Mutex<Vec<String>>,
    tasks: Mutex<Vec<TaskRec>>,
    dead: Mutex<BTreeSet<String>>,
    actor_ids: Mutex<BTreeMap<String, usize>>,
    /// set by the driver when the execution is over: every gate then parks forever
    closed: AtomicBool,
    hook_filter: Mutex<Option<Arc<dyn Fn(&str) -> bool + Send + Sync>>>,
}

struct TaskRec {
    actor: String,
    node: String,
    handle: tokio::task::JoinHandle<()>,
    done: Arc<AtomicBool>,
    panicked: Arc<Mutex<Option<String>>>,
}

impl Ctl {
    pub fn new(env: Arc<EnvState>) -> Self {
        Ctl(Arc::new(CtlInner {
            env,
            parked: Mutex::new(Vec::new()),
            serial: AtomicU64::new(0),
            trace: Mutex::new(Vec::new()),
            tasks: Mutex::new(Vec::new()),
            dead: Mutex::new(BTreeSet::new()),
            actor_ids: Mutex::new(BTreeMap::new()),
            closed: AtomicBool::new(false),
            hook_filter: Mutex::new(None),
        }))
    }
    pub fn env(&self) -> &Arc<EnvState> {
        &self.0.env
    }
    /// The controller of the execution running on this thread (used by the global hook callback).
    pub fn current() -> Option<Ctl> {
        CUR_CTL.with(|c| c.borrow().clone())
    }
    pub fn log(&self, s: impl Into<String>) {
        self.0.trace.lock().unwrap().push(s.into());
    }
    pub fn trace(&self) -> Vec<String> {
        self.0.trace.lock().unwrap().clone()
    }
    pub fn current_actor_name() -> Option<Arc<str>> {
        CUR_ACTOR_NAME.with(|c| c.borrow().clone())
    }

    /// Scheduling point. Parks the calling task until the driver grants it.
    pub async fn gate(&self, node: &str, kind: &str, what: &str, payload: Option<bytes::Bytes>) -> Decision {
        let actor = Self::current_actor_name()
            .map(|a| a.to_string())
            .unwrap_or_else(|| format!("{node}/bg"));
        if self.0.closed.load(Ordering::SeqCst) || self.0.dead.lock().unwrap().contains(node) {
            std::future::pending::<()>().await;
        }
        let (tx, rx) = oneshot::channel();
        let serial = self.0.serial.fetch_add(1, Ordering::SeqCst);
        self.0.parked.lock().unwrap().push(Parked {
            info: GateInfo {
                serial,
                actor,
                node: node.to_string(),
                kind: kind.to_string(),
                what: what.to_string(),
                payload,
            },
            tx,
        });
        match rx.await {
            Ok(d) => d,
            Err(_) => {
                // the node was crashed or the execution ended while we were parked
                std::future::pending::<()>().await;
                unreachable!()
            }
        }
    }

    /// Spawn a task of the code under test as actor `actor` on node `node`.
    pub fn spawn<F>(&self, node: &str, actor: &str, fut: F)
    where
        F: Future<Output = ()> + Send + 'static,
    {
        let id = {
            let mut ids = self.0.actor_ids.lock().unwrap();
            let n = ids.len() + 1;
            *ids.entry(actor.to_string()).or_insert(n)
        };
        let done = Arc::new(AtomicBool::new(false));
        let panicked = Arc::new(Mutex::new(None));
        let scoped = ActorScope {
            name: Arc::from(actor),
            node: Arc::from(node),
            id,
            inner: Box::pin(fut),
            done: done.clone(),
            panicked: panicked.clone(),
        };
        let handle = tokio::spawn(scoped);
        self.0.tasks.lock().unwrap().push(TaskRec {
            actor: actor.to_string(),
            node: node.to_string(),
            handle,
            done,
            panicked,
        });
    }

    /// true when the task spawned as `actor` has run to completion (normally or by panic)
    pub fn is_done(&self, actor: &str) -> bool {
        self.0
            .tasks
            .lock()
            .unwrap()
            .iter()
            .filter(|t| t.actor == actor)
            .all(|t| t.done.load(Ordering::SeqCst))
    }
    pub fn all_done(&self) -> bool {
        let dead = self.0.dead.lock().unwrap().clone();
        self.0
            .tasks
            .lock()
            .unwrap()
            .iter()
            .filter(|t| !dead.contains(&t.node))
            .all(|t| t.done.load(Ordering::SeqCst))
    }
    pub fn unfinished_actors(&self) -> Vec<String> {
        let dead = self.0.dead.lock().unwrap().clone();
        self.0
            .tasks
            .lock()
            .unwrap()
            .iter()
            .filter(|t| !dead.contains(&t.node) && !t.done.load(Ordering::SeqCst))
            .map(|t| t.actor.clone())
            .collect()
    }
    /// panics of tasks spawned through `spawn` (actor, message)
    pub fn panics(&self) -> Vec<(String, String)> {
        self.0
            .tasks
            .lock()
            .unwrap()
            .iter()
            .filter_map(|t| t.panicked.lock().unwrap().clone().map(|m| (t.actor.clone(), m)))
            .collect()
    }

    /// Crash a node: abort its tasks, drop its parked gates, make every later gate of it park forever.
    pub fn crash_node(&self, node: &str) {
        self.0.dead.lock().unwrap().insert(node.to_string());
        self.0.parked.lock().unwrap().retain(|p| p.info.node != node);
        for t in self.0.tasks.lock().unwrap().iter() {
            if t.node == node {
                t.handle.abort();
            }
        }
    }
    /// Let a (new incarnation of a) node run again under the same node name.
    pub fn revive_node(&self, node: &str) {
        self.0.dead.lock().unwrap().remove(node);
        // forget the crashed incarnation's task records
        self.0.tasks.lock().unwrap().retain(|t| t.node != node);
    }

    pub fn parked_infos(&self) -> Vec<GateInfo> {
        let mut g = self.0.parked.lock().unwrap();
        // a task that was aborted by the code under test (e.g. a lease-renewal task) drops its receiver
        g.retain(|p| !p.tx.is_closed());
        g.iter().map(|p| p.info.clone()).collect()
    }
    fn grant(&self, serial: u64, d: Decision) -> bool {
        let mut g = self.0.parked.lock().unwrap();
        if let Some(i) = g.iter().position(|p| p.info.serial == serial) {
            let p = g.remove(i);
            drop(g);
            let _ = p.tx.send(d);
            true
        } else {
            false
        }
    }
    fn close(&self) {
        self.0.closed.store(true, Ordering::SeqCst);
        self.0.parked.lock().unwrap().clear();
        for t in self.0.tasks.lock().unwrap().iter() {
            t.handle.abort();
        }
    }

    /// Wait until nothing is runnable and no blocking-pool work is in flight.
    pub async fn settle(&self) {
        // The paused clock auto-advances only when the runtime is idle and no spawn_blocking work is
        // outstanding; timers of the code under test (earlier deadlines) fire first.
        tokio::time::sleep(Duration::from_secs(100_000)).await;
    }

    /// Grant every parked gate (in serial order) until nothing is parked any more. Used by scenarios
    /// for fault-free epilogues ("flush through the shutdown path").
    pub async fn run_free(&self, max_steps: usize) -> usize {
        let mut n = 0;
        loop {
            self.settle().await;
            let mut infos = self.parked_infos();
            if infos.is_empty() || n >= max_steps {
                return n;
            }
            infos.sort_by_key(|g| g.serial);
            self.grant(infos[0].serial, Decision::Ok);
            n += 1;
        }
    }
}

struct ActorScope {
    name: Arc<str>,
    node: Arc<str>,
    id: usize,
    inner: Pin<Box<dyn Future<Output = ()> + Send>>,
    done: Arc<AtomicBool>,
    panicked: Arc<Mutex<Option<String>>>,
}

impl Future for ActorScope {
    type Output = ();
    fn poll(mut self: Pin<&mut Self>, cx: &mut Context<'_>) -> Poll<()> {
        let prev_name = CUR_ACTOR_NAME.with(|c| c.replace(Some(self.name.clone())));
        let prev_node = CUR_NODE_NAME.with(|c| c.replace(Some(self.node.clone())));
        let prev_id = env::set_actor(self.id);
        let r = std::panic::catch_unwind(std::panic::AssertUnwindSafe(|| self.inner.as_mut().poll(cx)));
        env::set_actor(prev_id);
        CUR_ACTOR_NAME.with(|c| *c.borrow_mut() = prev_name);
        CUR_NODE_NAME.with(|c| *c.borrow_mut() = prev_node);
        match r {
            Ok(Poll::Ready(())) => {
                self.done.store(true, Ordering::SeqCst);
                Poll::Ready(())
            }
            Ok(Poll::Pending) => Poll::Pending,
            Err(p) => {
                let msg = if let Some(s) = p.downcast_ref::<&str>() {
                    s.to_string()
                } else if let Some(s) = p.downcast_ref::<String>() {
                    s.clone()
                } else {
                    "panic".to_string()
                };
                *self.panicked.lock().unwrap() = Some(msg);
                self.done.store(true, Ordering::SeqCst);
                Poll::Ready(())
            }
        }
    }
}

/// Install the process-global hook callback of the repository's `verif_hooks` module: a pause point
/// becomes a gate of the execution running on the calling thread (no-op on other threads).
pub fn install_pause_hook() {
    cardinalsin::verif_hooks::set_pause_fn(Some(Arc::new(|label: &'static str| {
        let ctl = Ctl::current();
        let fut: cardinalsin::verif_hooks::PauseFuture = Box::pin(async move {
            if let Some(ctl) = ctl {
                if ctl.hook_enabled(label) {
                    let node = CUR_NODE_NAME.with(|c| c.borrow().clone()).map(|n| n.to_string()).unwrap_or_else(|| "?".into());
                    let _ = ctl.gate(&node, "HOOK", label, None).await;
                }
            }
        });
        fut
    })));
}

impl Ctl {
    fn hook_enabled(&self, label: &str) -> bool {
        match self.0.hook_filter.lock().unwrap().as_ref() {
            Some(f) => f(label),
            None => false,
        }
    }
    /// Decide which feature-gated pause points of the repository are scheduling points in this
    /// execution (default: none).
    pub fn set_hook_filter(&self, f: impl Fn(&str) -> bool + Send + Sync + 'static) {
        *self.0.hook_filter.lock().unwrap() = Some(Arc::new(f));
    }
}

// ------------------------------------------------------------------------------------------------
// Scenario interface
// ------------------------------------------------------------------------------------------------

#[derive(Debug, Clone, Copy, Default, PartialEq, Eq, Hash, serde::Serialize, serde::Deserialize)]
pub struct Cost {
    pub preempt: u32,
    pub fault: u32,
    pub crash: u32,
    pub clock: u32,
}

impl Cost {
    pub const ZERO: Cost = Cost { preempt: 0, fault: 0, crash: 0, clock: 0 };
    pub fn add(self, o: Cost) -> Cost {
        Cost {
            preempt: self.preempt + o.preempt,
            fault: self.fault + o.fault,
            crash: self.crash + o.crash,
            clock: self.clock + o.clock,
        }
    }
    pub fn within(self, b: Cost) -> bool {
        self.preempt <= b.preempt && self.fault <= b.fault && self.crash <= b.crash && self.clock <= b.clock
    }
    /// remaining = bound - self (saturating)
    pub fn remaining(self, b: Cost) -> Cost {
        Cost {
            preempt: b.preempt.saturating_sub(self.preempt),
            fault: b.fault.saturating_sub(self.fault),
            crash: b.crash.saturating_sub(self.crash),
            clock: b.clock.saturating_sub(self.clock),
        }
    }
    pub fn dominates(self, o: Cost) -> bool {
        self.preempt >= o.preempt && self.fault >= o.fault && self.crash >= o.crash && self.clock >= o.clock
    }
}

#[derive(Debug, Clone)]
pub struct Extra {
    pub label: String,
    pub cost: Cost,
}

#[derive(Debug, Clone, serde::Serialize, serde::Deserialize)]
pub struct Violation {
    /// signature: what kind of failure this is, as narrowly as the trace allows (matched against
    /// KNOWN_FINDINGS.json)
    pub sig: String,
    pub msg: String,
}

#[derive(Debug, Clone, Default)]
pub struct Finish {
    pub violations: Vec<Violation>,
    /// canonical description of the terminal outcome (for "distinct outcomes")
    pub outcome: String,
    /// facts observed in this execution, used by vacuity guards
    pub flags: Vec<String>,
}

#[async_trait(?Send)]
pub trait Scenario {
    /// build the world and spawn the initial tasks
    async fn setup(&mut self, ctl: &Ctl);
    /// may this parked gate be granted now? (used for tick budgets)
    fn gate_enabled(&self, _g: &GateInfo) -> bool {
        true
    }
    /// injected-failure modes offered for this gate (each costs one fault)
    fn fault_modes(&self, _g: &GateInfo) -> Vec<Decision> {
        Vec::new()
    }
    /// pseudo transitions (crash, clock jump, ...) enabled now
    fn extras(&self, _ctl: &Ctl) -> Vec<Extra> {
        Vec::new()
    }
    async fn apply_extra(&mut self, _ctl: &Ctl, _x: &Extra) {}
    /// bookkeeping when a gate is granted
    fn on_grant(&mut self, _g: &GateInfo, _d: Decision) {}
    /// invariant evaluated at every quiescent point
    async fn step_check(&mut self, _ctl: &Ctl) -> Vec<Violation> {
        Vec::new()
    }
    /// fingerprint of the complete state (None = no state caching for this scenario)
    fn fingerprint(&self, _ctl: &Ctl) -> Option<u64> {
        None
    }
    /// called when the execution has ended (no enabled gate, default choice)
    async fn finish(&mut self, ctl: &Ctl) -> Finish;
}

pub type ScenarioFactory = Arc<dyn Fn() -> Box<dyn Scenario> + Send + Sync>;

// ------------------------------------------------------------------------------------------------
// One execution
// ------------------------------------------------------------------------------------------------

#[derive(Debug, Clone, serde::Serialize, serde::Deserialize, PartialEq, Eq)]
pub struct Choice {
    pub idx: u32,
    /// hash of the enabled-transition list this choice was made from (replay divergence check)
    pub enabled_hash: u64,
}

#[derive(Debug, Clone)]
pub struct Step {
    pub labels: Vec<String>,
    pub costs: Vec<Cost>,
    pub chosen: u32,
    pub enabled_hash: u64,
    pub fp: Option<u64>,
}

#[derive(Debug)]
pub struct RunResult {
    pub steps: Vec<Step>,
    pub finish: Option<Finish>,
    pub step_violations: Vec<Violation>,
    pub trace: Vec<String>,
    /// Some(k): the run was cut at step k because its state was already expanded
    pub pruned_at: Option<usize>,
    pub machinery_error: Option<String>,
}

enum Trans {
    Gate { serial: u64, decision: Decision, info: GateInfo },
    Extra(Extra),
    End,
}

fn hash_str_list(v: &[String]) -> u64 {
    use std::hash::{Hash, Hasher};
    let mut h = std::collections::hash_map::DefaultHasher::new();
    for s in v {
        s.hash(&mut h);
    }
    h.finish()
}

pub trait Visited: Send + Sync {
    /// returns true when (fp, remaining) is dominated by something already recorded; records it otherwise
    fn check_and_insert(&self, fp: u64, remaining: Cost) -> bool;
    fn len(&self) -> usize;
}

pub struct VisitedMap(Mutex<HashMap<u64, Vec<Cost>>>);
impl VisitedMap {
    pub fn new() -> Self {
        VisitedMap(Mutex::new(HashMap::new()))
    }
}
impl Visited for VisitedMap {
    fn check_and_insert(&self, fp: u64, remaining: Cost) -> bool {
        let mut g = self.0.lock().unwrap();
        let e = g.entry(fp).or_default();
        if e.iter().any(|c| c.dominates(remaining)) {
            return true;
        }
        e.retain(|c| !remaining.dominates(*c));
        e.push(remaining);
        false
    }
    fn len(&self) -> usize {
        self.0.lock().unwrap().len()
    }
}

async fn drive(
    scn: &mut dyn Scenario,
    ctl: &Ctl,
    prefix: &[Choice],
    bounds: Cost,
    visited: Option<&dyn Visited>,
    max_steps: usize,
) -> RunResult {
    let mut res = RunResult {
        steps: Vec::new(),
        finish: None,
        step_violations: Vec::new(),
        trace: Vec::new(),
        pruned_at: None,
        machinery_error: None,
    };
    scn.setup(ctl).await;
    let mut last_actor: Option<String> = None;
    let mut cum = Cost::ZERO;
    loop {
        ctl.settle().await;
        let v = scn.step_check(ctl).await;
        if !v.is_empty() {
            res.step_violations.extend(v);
            break;
        }
        let k = res.steps.len();
        // enabled transitions, canonical order
        let mut gates: Vec<GateInfo> = ctl.parked_infos().into_iter().filter(|g| scn.gate_enabled(g)).collect();
        gates.sort_by(|a, b| {
            let la = Some(&a.actor) == last_actor.as_ref();
            let lb = Some(&b.actor) == last_actor.as_ref();
            lb.cmp(&la).then(a.actor.cmp(&b.actor)).then(a.serial.cmp(&b.serial))
        });
        let last_enabled = gates.iter().any(|g| Some(&g.actor) == last_actor.as_ref());
        let mut trans: Vec<(Trans, String, Cost)> = Vec::new();
        for g in &gates {
            let pre = if last_enabled && Some(&g.actor) != last_actor.as_ref() { 1 } else { 0 };
            trans.push((
                Trans::Gate { serial: g.serial, decision: Decision::Ok, info: g.clone() },
                g.label(),
                Cost { preempt: pre, ..Cost::ZERO },
            ));
        }
        for g in &gates {
            let pre = if last_enabled && Some(&g.actor) != last_actor.as_ref() { 1 } else { 0 };
            for d in scn.fault_modes(g) {
                trans.push((
                    Trans::Gate { serial: g.serial, decision: d, info: g.clone() },
                    format!("{} !{:?}", g.label(), d),
                    Cost { preempt: pre, fault: 1, ..Cost::ZERO },
                ));
            }
        }
        if gates.is_empty() {
            trans.push((Trans::End, "END".to_string(), Cost::ZERO));
        }
        for x in scn.extras(ctl) {
            let label = format!("*{}", x.label);
            let cost = x.cost;
            trans.push((Trans::Extra(x), label, cost));
        }
        let labels: Vec<String> = trans.iter().map(|t| t.1.clone()).collect();
        let costs: Vec<Cost> = trans.iter().map(|t| t.2).collect();
        let eh = hash_str_list(&labels);

        let fp = if k >= prefix.len() { scn.fingerprint(ctl) } else { None };
        if k >= prefix.len() {
            if let (Some(fp), Some(vis)) = (fp, visited) {
                use std::hash::{Hash, Hasher};
                let mut h = std::collections::hash_map::DefaultHasher::new();
                fp.hash(&mut h);
                last_actor.hash(&mut h);
                eh.hash(&mut h);
                if vis.check_and_insert(h.finish(), cum.remaining(bounds)) {
                    res.pruned_at = Some(k);
                    break;
                }
            }
        }

        let choice = if k < prefix.len() {
            if prefix[k].enabled_hash != eh {
                res.machinery_error = Some(format!(
                    "replay divergence at step {k}: enabled set differs from the recorded one; now: {labels:?}"
                ));
                break;
            }
            prefix[k].idx as usize
        } else {
            0
        };
        if choice >= trans.len() {
            res.machinery_error = Some(format!("replay divergence at step {k}: choice {choice} out of range {}", trans.len()));
            break;
        }
        res.steps.push(Step { labels, costs, chosen: choice as u32, enabled_hash: eh, fp });
        if k >= max_steps {
            res.machinery_error = Some(format!("execution exceeded {max_steps} steps (livelock?)"));
            break;
        }
        let (t, label, cost) = trans.swap_remove(choice);
        cum = cum.add(cost);
        ctl.log(format!("#{k} {label}"));
        match t {
            Trans::End => break,
            Trans::Gate { serial, decision, info } => {
                scn.on_grant(&info, decision);
                last_actor = Some(info.actor.clone());
                if !ctl.grant(serial, decision) {
                    res.machinery_error = Some(format!("gate {serial} vanished before grant"));
                    break;
                }
            }
            Trans::Extra(x) => {
                scn.apply_extra(ctl, &x).await;
            }
        }
    }
    if res.machinery_error.is_none() && res.pruned_at.is_none() && res.step_violations.is_empty() {
        res.finish = Some(scn.finish(ctl).await);
    }
    ctl.close();
    // let aborted tasks drop
    tokio::task::yield_now().await;
    res.trace = ctl.trace();
    res
}

/// Run one execution on a fresh thread with a fresh runtime and environment.
pub fn run_once(
    factory: &ScenarioFactory,
    prefix: &[Choice],
    bounds: Cost,
    visited: Option<Arc<dyn Visited>>,
    max_steps: usize,
) -> RunResult {
    let factory = factory.clone();
    let prefix = prefix.to_vec();
    let h = std::thread::Builder::new()
        .name("exec".into())
        .stack_size(16 << 20)
        .spawn(move || {
            let envs = EnvState::new();
            env::install(&envs);
            let env2 = envs.clone();
            let rt = tokio::runtime::Builder::new_current_thread()
                .enable_all()
                .start_paused(true)
                .rng_seed(tokio::runtime::RngSeed::from_bytes(b"csverif-execution"))
                .max_blocking_threads(1)
                .on_thread_start(move || env::install(&env2))
                .on_thread_stop(env::uninstall)
                .build()
                .expect("runtime");
            let ctl = Ctl::new(envs.clone());
            CUR_CTL.with(|c| *c.borrow_mut() = Some(ctl.clone()));
            let mut scn = factory();
            let res = rt.block_on(drive(scn.as_mut(), &ctl, &prefix, bounds, visited.as_deref(), max_steps));
            drop(scn);
            CUR_CTL.with(|c| *c.borrow_mut() = None);
            drop(rt);
            env::uninstall();
            drop(envs);
            res
        })
        .expect("spawn exec thread");
    match h.join() {
        Ok(r) => r,
        Err(p) => {
            let msg = if let Some(s) = p.downcast_ref::<&str>() {
                s.to_string()
            } else if let Some(s) = p.downcast_ref::<String>() {
                s.clone()
            } else {
                "panic".into()
            };
            RunResult {
                steps: Vec::new(),
                finish: None,
                step_violations: Vec::new(),
                trace: Vec::new(),
                pruned_at: None,
                machinery_error: Some(format!("driver panicked: {msg}")),
            }
        }
    }
}

// ------------------------------------------------------------------------------------------------
// Search
// ------------------------------------------------------------------------------------------------

#[derive(Debug, Clone)]
pub struct FoundViolation {
    pub sig: String,
    pub msg: String,
    pub prefix: Vec<Choice>,
    pub trace: Vec<String>,
    pub count: u64,
}

#[derive(Debug, Default)]
pub struct ExploreStats {
    pub executions: u64,
    pub pruned: u64,
    pub transitions: u64,
    pub states: u64,
    pub max_depth: usize,
    pub outcomes: BTreeMap<String, u64>,
    pub flags: BTreeMap<String, u64>,
    pub violations: BTreeMap<String, FoundViolation>,
    pub machinery_errors: Vec<String>,
    pub capped: bool,
    pub samples: Vec<Vec<String>>,
    pub wall_s: f64,
    pub selftest_runs: u64,
}

pub struct ExploreConfig {
    pub bounds: Cost,
    pub use_cache: bool,
    pub workers: usize,
    pub wall_cap: Duration,
    pub max_steps: usize,
    pub selftest: usize,
    pub max_executions: u64,
}

impl Default for ExploreConfig {
    fn default() -> Self {
        Self {
            bounds: Cost::ZERO,
            use_cache: false,
            workers: default_workers(),
            wall_cap: Duration::from_secs(3000),
            max_steps: 400,
            selftest: 20,
            max_executions: u64::MAX,
        }
    }
}

pub fn default_workers() -> usize {
    std::env::var("VERIF_WORKERS")
        .ok()
        .and_then(|s| s.parse().ok())
        .unwrap_or_else(|| std::thread::available_parallelism().map(|n| n.get()).unwrap_or(4))
}

struct Shared {
    stack: Mutex<Vec<Vec<Choice>>>,
    inflight: AtomicU64,
    stats: Mutex<ExploreStats>,
    stop: AtomicBool,
}

/// Exhaustive exploration of `factory`'s scenario within `cfg.bounds`.
pub fn explore(factory: ScenarioFactory, cfg: &ExploreConfig) -> ExploreStats {
    // warm-up: one throw-away execution initialises process-global lazy state (hash seeds, metric
    // registries, ...) that the first execution of a process would otherwise observe differently
    let _ = run_once(&factory, &[], cfg.bounds, None, cfg.max_steps);
    let t0 = Instant::now();
    let visited: Option<Arc<dyn Visited>> = if cfg.use_cache { Some(Arc::new(VisitedMap::new())) } else { None };
    let shared = Arc::new(Shared {
        stack: Mutex::new(vec![Vec::new()]),
        inflight: AtomicU64::new(0),
        stats: Mutex::new(ExploreStats::default()),
        stop: AtomicBool::new(false),
    });
    let selftest_left = Arc::new(AtomicU64::new(cfg.selftest as u64));
    std::thread::scope(|s| {
        for _ in 0..cfg.workers.max(1) {
            let shared = shared.clone();
            let factory = factory.clone();
            let visited = visited.clone();
            let selftest_left = selftest_left.clone();
            let bounds = cfg.bounds;
            let wall_cap = cfg.wall_cap;
            let max_steps = cfg.max_steps;
            let max_exec = cfg.max_executions;
            s.spawn(move || loop {
                if shared.stop.load(Ordering::SeqCst) {
                    return;
                }
                let job = {
                    let mut st = shared.stack.lock().unwrap();
                    match st.pop() {
                        Some(j) => {
                            shared.inflight.fetch_add(1, Ordering::SeqCst);
                            Some(j)
                        }
                        None => None,
                    }
                };
                let Some(prefix) = job else {
                    if shared.inflight.load(Ordering::SeqCst) == 0 {
                        return;
                    }
                    std::thread::sleep(Duration::from_micros(200));
                    continue;
                };
                let res = run_once(&factory, &prefix, bounds, visited.clone(), max_steps);
                // determinism self-test on complete, unpruned executions
                let mut selftest_err = None;
                let mut did_selftest = false;
                if res.pruned_at.is_none() && res.machinery_error.is_none() {
                    let left = selftest_left.load(Ordering::SeqCst);
                    if left > 0 && selftest_left.compare_exchange(left, left - 1, Ordering::SeqCst, Ordering::SeqCst).is_ok() {
                        did_selftest = true;
                        let full: Vec<Choice> = res
                            .steps
                            .iter()
                            .map(|s| Choice { idx: s.chosen, enabled_hash: s.enabled_hash })
                            .collect();
                        let again = run_once(&factory, &full, bounds, None, max_steps);
                        if again.trace != res.trace || again.machinery_error.is_some() {
                            selftest_err = Some(format!(
                                "determinism self-test failed: replaying a complete execution gave a different trace\nfirst:  {:?}\nsecond: {:?}\nerr: {:?}",
                                res.trace, again.trace, again.machinery_error
                            ));
                        }
                    }
                }
                // children
                let cut = res.pruned_at.unwrap_or(res.steps.len());
                let mut children = Vec::new();
                if res.machinery_error.is_none() {
                    let mut cum = Cost::ZERO;
                    for (i, st) in res.steps.iter().enumerate() {
                        if i >= prefix.len() && i < cut {
                            for alt in 1..st.labels.len() {
                                let c = st.costs.get(alt).copied().unwrap_or(Cost::ZERO);
                                if cum.add(c).within(bounds) {
                                    let mut p: Vec<Choice> = res.steps[..i]
                                        .iter()
                                        .map(|s| Choice { idx: s.chosen, enabled_hash: s.enabled_hash })
                                        .collect();
                                    p.push(Choice { idx: alt as u32, enabled_hash: st.enabled_hash });
                                    children.push(p);
                                }
                            }
                        }
                        cum = cum.add(st.costs.get(st.chosen as usize).copied().unwrap_or(Cost::ZERO));
                    }
                }
                {
                    let mut stats = shared.stats.lock().unwrap();
                    stats.executions += 1;
                    if did_selftest {
                        stats.selftest_runs += 1;
                    }
                    if let Some(e) = selftest_err {
                        stats.machinery_errors.push(e);
                        shared.stop.store(true, Ordering::SeqCst);
                    }
                    if res.pruned_at.is_some() {
                        stats.pruned += 1;
                    }
                    let new_steps = res.steps.len() - prefix.len().saturating_sub(1).min(res.steps.len());
                    stats.transitions += new_steps as u64;
                    stats.states += res.steps.iter().skip(prefix.len()).take(cut.saturating_sub(prefix.len())).count() as u64;
                    stats.max_depth = stats.max_depth.max(res.steps.len());
                    if let Some(e) = &res.machinery_error {
                        stats.machinery_errors.push(format!("{e}\ntrace: {:?}", res.trace));
                        shared.stop.store(true, Ordering::SeqCst);
                    }
                    let full: Vec<Choice> = res
                        .steps
                        .iter()
                        .map(|s| Choice { idx: s.chosen, enabled_hash: s.enabled_hash })
                        .collect();
                    let mut vs = res.step_violations.clone();
                    if let Some(f) = &res.finish {
                        *stats.outcomes.entry(f.outcome.clone()).or_default() += 1;
                        for fl in &f.flags {
                            *stats.flags.entry(fl.clone()).or_default() += 1;
                        }
                        vs.extend(f.violations.clone());
                    }
                    for v in vs {
                        let e = stats.violations.entry(v.sig.clone()).or_insert_with(|| FoundViolation {
                            sig: v.sig.clone(),
                            msg: v.msg.clone(),
                            prefix: full.clone(),
                            trace: res.trace.clone(),
                            count: 0,
                        });
                        e.count += 1;
                        // keep the shortest witness
                        if full.len() < e.prefix.len() {
                            e.prefix = full.clone();
                            e.trace = res.trace.clone();
                            e.msg = v.msg.clone();
                        }
                    }
                    if stats.samples.len() < 3 && res.finish.is_some() {
                        stats.samples.push(res.trace.clone());
                    }
                    if t0.elapsed() > wall_cap || stats.executions >= max_exec {
                        stats.capped = true;
                        shared.stop.store(true, Ordering::SeqCst);
                    }
                }
                {
                    let mut st = shared.stack.lock().unwrap();
                    // push in reverse so that the lowest alternative is explored first
                    for c in children.into_iter().rev() {
                        st.push(c);
                    }
                }
                shared.inflight.fetch_sub(1, Ordering::SeqCst);
            });
        }
    });
    let mut stats = std::mem::take(&mut *shared.stats.lock().unwrap());
    if let Some(v) = &visited {
        stats.states = v.len() as u64;
    }
    stats.wall_s = t0.elapsed().as_secs_f64();
    stats
}

/// Re-run one recorded execution (no search).
pub fn replay(factory: &ScenarioFactory, prefix: &[Choice], bounds: Cost) -> RunResult {
    let _ = run_once(factory, &[], bounds, None, 2000); // warm-up, see explore()
    run_once(factory, prefix, bounds, None, 2000)
}

/// Explore many small scenarios: each exploration runs single-threaded, `default_workers()` of them at a
/// time (avoids the per-exploration thread start-up cost and oversubscription). Results in input order.
pub fn explore_many(jobs: Vec<ScenarioFactory>, cfg_of: &(dyn Fn(usize) -> ExploreConfig + Sync)) -> Vec<ExploreStats> {
    explore_many_until(jobs, cfg_of, None)
}

/// `explore_many` with an overall deadline: explorations not started by then are returned empty and marked capped
/// (the caller's evidence then says `exhaustive: false`).
pub fn explore_many_until(jobs: Vec<ScenarioFactory>, cfg_of: &(dyn Fn(usize) -> ExploreConfig + Sync), deadline: Option<Instant>) -> Vec<ExploreStats> {
    let n = jobs.len();
    let next = AtomicU64::new(0);
    let out: Mutex<Vec<Option<ExploreStats>>> = Mutex::new((0..n).map(|_| None).collect());
    let jobs = &jobs;
    std::thread::scope(|s| {
        for _ in 0..default_workers().max(1) {
            s.spawn(|| loop {
                let i = next.fetch_add(1, Ordering::SeqCst) as usize;
                if i >= n {
                    return;
                }
                if deadline.map(|d| Instant::now() > d).unwrap_or(false) {
                    out.lock().unwrap()[i] = Some(ExploreStats { capped: true, ..Default::default() });
                    continue;
                }
                let mut cfg = cfg_of(i);
                cfg.workers = 1;
                let st = explore(jobs[i].clone(), &cfg);
                out.lock().unwrap()[i] = Some(st);
            });
        }
    });
    out.into_inner().unwrap().into_iter().map(|o| o.expect("explored")).collect()
}

/// Debug facility: `VERIF_ONLY=<substring>` restricts a check to the scenarios whose name contains the substring
/// (the run is then partial and says so).
pub fn scenario_selected(name: &str) -> bool {
    match std::env::var("VERIF_ONLY") {
        Ok(f) if !f.is_empty() => {
            let sel = name.contains(&f);
            if sel {
                eprintln!("note: VERIF_ONLY={f}: partial run");
            }
            sel
        }
        _ => true,
    }
}
