//! `GatedMeta`: a `MetadataClient` wrapper whose every call is a scheduling point and may be failed
//! before or after taking effect. Used where the catalog under test is the in-memory client (whose
//! operations are not object-store requests).

use super::sched::{Ctl, Decision};
use async_trait::async_trait;
use cardinalsin::ingester::ChunkMetadata;
use cardinalsin::metadata::{
    ColumnPredicate, CompactionJob, CompactionLease, CompactionLeases, CompactionStatus, MetadataClient, SplitState,
    TimeIndexEntry, TimeRange,
};
use cardinalsin::sharding::{ShardMetadata, SplitPhase};
use cardinalsin::{Error, Result};
use std::sync::{Arc, Mutex};

#[derive(Debug, Clone)]
pub struct MetaLogEntry {
    pub node: String,
    pub actor: String,
    pub method: String,
    pub arg: String,
    pub ok: bool,
    pub injected: Option<Decision>,
    pub wall_ns: i64,
}

pub struct GatedMeta {
    pub inner: Arc<dyn MetadataClient>,
    pub node: String,
    pub ctl: Ctl,
    pub log: Arc<Mutex<Vec<MetaLogEntry>>>,
    /// method name -> is it a scheduling point?
    pub filter: Arc<dyn Fn(&str) -> bool + Send + Sync>,
    /// one-shot injected failures for sequential harnesses (no scheduler): the next call of `method` gets the decision
    pub inject: Mutex<Vec<(String, Decision)>>,
}

impl GatedMeta {
    pub fn new(inner: Arc<dyn MetadataClient>, node: &str, ctl: &Ctl) -> Arc<Self> {
        Arc::new(Self {
            inner,
            node: node.to_string(),
            ctl: ctl.clone(),
            log: Arc::new(Mutex::new(Vec::new())),
            filter: Arc::new(|_| true),
            inject: Mutex::new(Vec::new()),
        })
    }
    pub fn with_filter(
        inner: Arc<dyn MetadataClient>,
        node: &str,
        ctl: &Ctl,
        filter: impl Fn(&str) -> bool + Send + Sync + 'static,
    ) -> Arc<Self> {
        Arc::new(Self {
            inner,
            node: node.to_string(),
            ctl: ctl.clone(),
            log: Arc::new(Mutex::new(Vec::new())),
            filter: Arc::new(filter),
            inject: Mutex::new(Vec::new()),
        })
    }
    pub fn log_snapshot(&self) -> Vec<MetaLogEntry> {
        self.log.lock().unwrap().clone()
    }
    /// make the next call of `method` fail (before or after its effect)
    pub fn inject_failure(&self, method: &str, d: Decision) {
        self.inject.lock().unwrap().push((method.to_string(), d));
    }
    pub fn pending_injections(&self) -> usize {
        self.inject.lock().unwrap().len()
    }
    pub fn clear_injections(&self) {
        self.inject.lock().unwrap().clear();
    }
    async fn gate(&self, method: &str, arg: &str) -> Decision {
        {
            let mut inj = self.inject.lock().unwrap();
            if let Some(i) = inj.iter().position(|(m, _)| m == method) {
                return inj.remove(i).1;
            }
        }
        if (self.filter)(method) {
            self.ctl.gate(&self.node, "META", &format!("{method}({arg})"), None).await
        } else {
            Decision::Ok
        }
    }
    fn record(&self, method: &str, arg: &str, ok: bool, injected: Option<Decision>) {
        let actor = Ctl::current_actor_name()
            .map(|a| a.to_string())
            .unwrap_or_else(|| format!("{}/bg", self.node));
        self.log.lock().unwrap().push(MetaLogEntry {
            node: self.node.clone(),
            actor,
            method: method.to_string(),
            arg: arg.to_string(),
            ok,
            injected,
            wall_ns: self.ctl.env().wall(),
        });
    }
}

fn injected(method: &str, when: &str) -> Error {
    Error::Metadata(format!("injected failure {when} {method}"))
}

macro_rules! gated {
    ($self:ident, $method:expr, $arg:expr, $call:expr) => {{
        let arg: String = $arg;
        let d = $self.gate($method, &arg).await;
        match d {
            Decision::FailBefore => {
                $self.record($method, &arg, false, Some(d));
                Err(injected($method, "before"))
            }
            Decision::Ok => {
                let r = $call.await;
                $self.record($method, &arg, r.is_ok(), None);
                r
            }
            Decision::FailAfter => {
                let r = $call.await;
                $self.record($method, &arg, r.is_ok(), Some(d));
                match r {
                    Ok(_) => Err(injected($method, "after")),
                    Err(e) => Err(e),
                }
            }
        }
    }};
}

#[async_trait]
impl MetadataClient for GatedMeta {
    async fn register_chunk(&self, path: &str, metadata: &ChunkMetadata) -> Result<()> {
        gated!(self, "register_chunk", path.to_string(), self.inner.register_chunk(path, metadata))
    }
    async fn get_chunks(&self, range: TimeRange) -> Result<Vec<TimeIndexEntry>> {
        gated!(self, "get_chunks", format!("{},{}", range.start, range.end), self.inner.get_chunks(range))
    }
    async fn get_chunks_with_predicates(&self, range: TimeRange, predicates: &[ColumnPredicate]) -> Result<Vec<TimeIndexEntry>> {
        gated!(
            self,
            "get_chunks_with_predicates",
            format!("{},{}", range.start, range.end),
            self.inner.get_chunks_with_predicates(range, predicates)
        )
    }
    async fn get_chunk(&self, path: &str) -> Result<Option<ChunkMetadata>> {
        gated!(self, "get_chunk", path.to_string(), self.inner.get_chunk(path))
    }
    async fn delete_chunk(&self, path: &str) -> Result<()> {
        gated!(self, "delete_chunk", path.to_string(), self.inner.delete_chunk(path))
    }
    async fn list_chunks(&self) -> Result<Vec<TimeIndexEntry>> {
        gated!(self, "list_chunks", String::new(), self.inner.list_chunks())
    }
    async fn get_l0_candidates(&self, min_count: usize) -> Result<Vec<Vec<String>>> {
        gated!(self, "get_l0_candidates", min_count.to_string(), self.inner.get_l0_candidates(min_count))
    }
    async fn get_level_candidates(&self, level: usize, target_size: usize) -> Result<Vec<Vec<String>>> {
        gated!(self, "get_level_candidates", format!("{level}"), self.inner.get_level_candidates(level, target_size))
    }
    async fn create_compaction_job(&self, job: CompactionJob) -> Result<()> {
        gated!(self, "create_compaction_job", String::new(), self.inner.create_compaction_job(job.clone()))
    }
    async fn complete_compaction(&self, source_chunks: &[String], target_chunk: &str) -> Result<()> {
        gated!(
            self,
            "complete_compaction",
            format!("{}->{}", source_chunks.len(), target_chunk),
            self.inner.complete_compaction(source_chunks, target_chunk)
        )
    }
    async fn complete_compaction_with_target(&self, source_chunks: &[String], target: &ChunkMetadata) -> Result<()> {
        gated!(
            self,
            "complete_compaction_with_target",
            format!("{}->{}", source_chunks.join(","), target.path),
            self.inner.complete_compaction_with_target(source_chunks, target)
        )
    }
    async fn update_compaction_status(&self, job_id: &str, status: CompactionStatus) -> Result<()> {
        gated!(self, "update_compaction_status", format!("{status:?}"), self.inner.update_compaction_status(job_id, status))
    }
    async fn get_pending_compaction_jobs(&self) -> Result<Vec<CompactionJob>> {
        gated!(self, "get_pending_compaction_jobs", String::new(), self.inner.get_pending_compaction_jobs())
    }
    async fn cleanup_completed_jobs(&self, max_age_secs: i64) -> Result<usize> {
        gated!(self, "cleanup_completed_jobs", String::new(), self.inner.cleanup_completed_jobs(max_age_secs))
    }
    async fn start_split(&self, old_shard: &str, new_shards: Vec<String>, split_point: Vec<u8>) -> Result<()> {
        gated!(
            self,
            "start_split",
            old_shard.to_string(),
            self.inner.start_split(old_shard, new_shards.clone(), split_point.clone())
        )
    }
    async fn get_split_state(&self, shard_id: &str) -> Result<Option<SplitState>> {
        gated!(self, "get_split_state", shard_id.to_string(), self.inner.get_split_state(shard_id))
    }
    async fn update_split_progress(&self, shard_id: &str, progress: f64, phase: SplitPhase) -> Result<()> {
        gated!(
            self,
            "update_split_progress",
            format!("{shard_id},{phase:?}"),
            self.inner.update_split_progress(shard_id, progress, phase)
        )
    }
    async fn complete_split(&self, old_shard: &str) -> Result<()> {
        gated!(self, "complete_split", old_shard.to_string(), self.inner.complete_split(old_shard))
    }
    async fn get_chunks_for_shard(&self, shard_id: &str) -> Result<Vec<TimeIndexEntry>> {
        gated!(self, "get_chunks_for_shard", shard_id.to_string(), self.inner.get_chunks_for_shard(shard_id))
    }
    async fn get_shard_metadata(&self, shard_id: &str) -> Result<Option<ShardMetadata>> {
        gated!(self, "get_shard_metadata", shard_id.to_string(), self.inner.get_shard_metadata(shard_id))
    }
    async fn update_shard_metadata(&self, shard_id: &str, metadata: &ShardMetadata, expected_generation: u64) -> Result<()> {
        gated!(
            self,
            "update_shard_metadata",
            format!("{shard_id},{expected_generation}"),
            self.inner.update_shard_metadata(shard_id, metadata, expected_generation)
        )
    }
    async fn acquire_lease(&self, node_id: &str, chunks: &[String], level: u32) -> Result<CompactionLease> {
        gated!(self, "acquire_lease", format!("{node_id}|{level}|{}", chunks.join(",")), self.inner.acquire_lease(node_id, chunks, level))
    }
    async fn complete_lease(&self, lease_id: &str) -> Result<()> {
        gated!(self, "complete_lease", String::new(), self.inner.complete_lease(lease_id))
    }
    async fn fail_lease(&self, lease_id: &str) -> Result<()> {
        gated!(self, "fail_lease", String::new(), self.inner.fail_lease(lease_id))
    }
    async fn renew_lease(&self, lease_id: &str) -> Result<()> {
        gated!(self, "renew_lease", String::new(), self.inner.renew_lease(lease_id))
    }
    async fn load_leases(&self) -> Result<CompactionLeases> {
        gated!(self, "load_leases", String::new(), self.inner.load_leases())
    }
    async fn scavenge_leases(&self) -> Result<usize> {
        gated!(self, "scavenge_leases", String::new(), self.inner.scavenge_leases())
    }
    async fn has_active_split(&self) -> Result<bool> {
        gated!(self, "has_active_split", String::new(), self.inner.has_active_split())
    }
    async fn pending_split_targets(&self) -> Result<Vec<String>> {
        gated!(self, "pending_split_targets", String::new(), self.inner.pending_split_targets())
    }
}
