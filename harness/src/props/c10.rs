//! C10 — concurrent queries do not affect each other's results (engine A, single process).

use super::c03::storage_config;
use super::common::*;
use crate::engine::env::EPOCH_NS;
use crate::engine::meta::GatedMeta;
use crate::engine::report::Report;
use crate::engine::sched::*;
use arrow_array::Array as _;
use async_trait::async_trait;
use cardinalsin::metadata::{LocalMetadataClient, MetadataClient};
use cardinalsin::query::{QueryConfig, QueryNode, StreamingQueryExecutor};
use object_store::ObjectStore;
use serde_json::json;
use std::collections::{BTreeMap, BTreeSet};
use std::sync::{Arc, Mutex};
use std::time::Duration;

#[derive(Debug, Clone, serde::Serialize, serde::Deserialize)]
pub struct QuerySpec {
    pub name: String,
    pub sql: String,
    pub tenant: String,
    /// run through StreamingQueryExecutor::execute (historical phase) instead of QueryNode::query
    pub streaming: bool,
}

#[derive(Debug, Clone, serde::Serialize, serde::Deserialize)]
pub struct Params {
    pub name: String,
    pub queries: Vec<QuerySpec>,
    /// queries served one after the other (no scheduler involvement) before the concurrent ones start: they
    /// leave the node's `metrics` binding in a non-initial state
    #[serde(default)]
    pub warm: Vec<QuerySpec>,
    /// the node runs with adaptive indexing enabled (a different execution path after planning)
    #[serde(default)]
    pub adaptive: bool,
    /// the node's reads of chunk data (schema inference inside the registration, the scan) are scheduling points too,
    /// so a query can be parked while it holds the registration lock
    #[serde(default)]
    pub gate_data: bool,
    /// the chunk of hour 1 comes from a client with another label set: it carries `region` instead of `host`, so a
    /// statement naming `host` over hour 1 plans against the start-up placeholder but not against its own chunks
    /// (the unknown-column retry: list all chunks, learn their columns, bind the selected ones again)
    #[serde(default)]
    pub hetero: bool,
}

const SEC: i64 = 1_000_000_000;

fn window_sql(hours_ago: i64, select: &str) -> String {
    // the chunk of "hours_ago" holds rows at bucket start + 10 min; hours_ago = 10*a + b selects the hours a..=b ago
    let (first, last) = if hours_ago >= 10 { (hours_ago / 10, hours_ago % 10) } else { (hours_ago, hours_ago) };
    let lo = hour_bucket(EPOCH_NS) - first.max(last) * HOUR;
    let hi = hour_bucket(EPOCH_NS) - first.min(last) * HOUR + HOUR - 1;
    // Int64 timestamp column + integer literals: the form the time-range extraction understands (see C04)
    format!("SELECT {select} FROM metrics WHERE timestamp >= {lo} AND timestamp <= {hi}")
}

async fn build_world(hetero: bool) -> (Arc<dyn ObjectStore>, Arc<LocalMetadataClient>) {
    let mem = new_mem();
    let local = Arc::new(LocalMetadataClient::new());
    let mut id = 0;
    for h in 1..=3i64 {
        let base = hour_bucket(EPOCH_NS) - h * HOUR + 600 * SEC;
        let rows: Vec<Row> = (0..2)
            .map(|k| {
                id += 1;
                let mut r = row(base + k, id);
                r.host = Some(format!("h{h}"));
                r
            })
            .collect();
        if hetero && h == 1 {
            let p = format!("t/data/hour{h}.parquet");
            let bytes = encode_parquet(&rows_to_batch_label(&rows, true, "region"));
            let m = cardinalsin::ingester::ChunkMetadata { path: p.clone(), min_timestamp: rows[0].ts, max_timestamp: rows[rows.len() - 1].ts, row_count: rows.len() as u64, size_bytes: bytes.len() as u64 };
            mem.put(&object_store::path::Path::from(p.as_str()), bytes.into()).await.expect("put");
            local.register_chunk(&p, &m).await.expect("register");
            continue;
        }
        put_chunk(&mem, local.as_ref(), &format!("t/data/hour{h}.parquet"), &rows, hetero).await;
    }
    (mem, local)
}

async fn new_node_with(mem: &Arc<dyn ObjectStore>, meta: Arc<dyn MetadataClient>, adaptive: bool) -> QueryNode {
    let n = new_node(mem, meta).await;
    if !adaptive {
        return n;
    }
    let ctl = Arc::new(cardinalsin::adaptive_index::AdaptiveIndexController::new(cardinalsin::adaptive_index::AdaptiveIndexConfig::default()));
    for col in ["host", "timestamp"] {
        let _ = ctl.lifecycle_manager.create_invisible_index("default".to_string(), col.to_string(), cardinalsin::adaptive_index::IndexType::Inverted).await;
    }
    n.with_adaptive_indexing(ctl)
}

async fn new_node(mem: &Arc<dyn ObjectStore>, meta: Arc<dyn MetadataClient>) -> QueryNode {
    QueryNode::new(QueryConfig { l2_cache_dir: None, l1_cache_size: 1 << 20, ..QueryConfig::default() }, mem.clone(), meta, storage_config()).await.expect("query node")
}

fn result_ids(batches: &[arrow_array::RecordBatch]) -> Vec<String> {
    // canonical rendering of a result: sorted rows as strings
    let mut out = Vec::new();
    for b in batches {
        let cols: Vec<Vec<String>> = (0..b.num_columns())
            .map(|c| {
                let a = arrow::compute::cast(b.column(c), &arrow_schema::DataType::Utf8).expect("cast");
                let a = arrow_array::cast::AsArray::as_string::<i32>(&a).clone();
                (0..a.len()).map(|i| if arrow_array::Array::is_null(&a, i) { "NULL".to_string() } else { a.value(i).to_string() }).collect()
            })
            .collect();
        for r in 0..b.num_rows() {
            out.push(cols.iter().map(|c| c[r].clone()).collect::<Vec<_>>().join("|"));
        }
    }
    out.sort();
    out
}

async fn run_query(node: &QueryNode, meta: Arc<dyn MetadataClient>, q: &QuerySpec) -> Result<Vec<String>, String> {
    if q.streaming {
        let (_tx, rx) = tokio::sync::broadcast::channel::<arrow_array::RecordBatch>(8);
        let exec = StreamingQueryExecutor::new(node.engine.clone(), meta, rx);
        let mut out_rx = exec.execute(&q.sql).await.map_err(|e| e.to_string())?;
        // historical phase only: collect what is already there
        let mut batches = Vec::new();
        loop {
            match tokio::time::timeout(Duration::from_millis(50), out_rx.recv()).await {
                Ok(Some(Ok(b))) => batches.push(b),
                Ok(Some(Err(e))) => return Err(e.to_string()),
                Ok(None) | Err(_) => break,
            }
        }
        Ok(result_ids(&batches))
    } else {
        node.query_for_tenant(&q.sql, &q.tenant).await.map(|b| result_ids(&b)).map_err(|e| e.to_string())
    }
}

pub struct C10Scenario {
    p: Params,
    expected: Arc<BTreeMap<String, Result<Vec<String>, String>>>,
    results: Arc<Mutex<BTreeMap<String, Result<Vec<String>, String>>>>,
}

#[async_trait(?Send)]
impl Scenario for C10Scenario {
    async fn setup(&mut self, ctl: &Ctl) {
        let (mem, local) = build_world(self.p.hetero).await;
        let gating = Arc::new(std::sync::atomic::AtomicBool::new(false));
        let g2 = gating.clone();
        let gm: Arc<dyn MetadataClient> = GatedMeta::with_filter(local.clone(), "Q", ctl, move |_| g2.load(std::sync::atomic::Ordering::SeqCst));
        let g3 = gating.clone();
        let gate_data = self.p.gate_data;
        let node_store: Arc<dyn ObjectStore> = if gate_data {
            // only the first two data reads of every query are scheduling points (they fall into the schema inference of
            // its registration); gating all of them makes the schedule space explode without reaching anything new
            let seen: Arc<Mutex<BTreeMap<String, usize>>> = Arc::new(Mutex::new(BTreeMap::new()));
            crate::engine::store::GatedStore::with_filter(mem.clone(), "Q", ctl, &crate::engine::store::StoreLog::new(), move |kind, path| {
                if !(g3.load(std::sync::atomic::Ordering::SeqCst) && (kind == "GET" || kind == "HEAD") && path.ends_with(".parquet")) {
                    return false;
                }
                let actor = Ctl::current_actor_name().map(|a| a.to_string()).unwrap_or_default();
                let mut m = seen.lock().unwrap();
                let n = m.entry(actor).or_insert(0);
                *n += 1;
                *n <= 2
            })
        } else {
            mem.clone()
        };
        let node = Arc::new(new_node_with(&node_store, gm.clone(), self.p.adaptive).await);
        // The node has seen the stored files' schema before (as after any earlier query): on a node whose `metrics` is
        // still the start-up placeholder, Int64 time bounds cannot be coerced against the placeholder's Timestamp column,
        // every window is unbounded, every query selects every chunk and no two selections differ.
        let all_paths: Vec<String> = (1..=3).map(|h| format!("t/data/hour{h}.parquet")).collect();
        if !self.p.hetero {
            // (the mixed-label-set scenarios use Timestamp-typed chunks and literals, which the placeholder understands,
            // and start from the placeholder on purpose)
            node.engine.register_metrics_table_for_chunks(&all_paths).await.expect("schema warm-up");
        }
        for w in &self.p.warm {
            let r = run_query(&node, gm.clone(), w).await;
            self.results.lock().unwrap().insert(w.name.clone(), r);
        }
        gating.store(true, std::sync::atomic::Ordering::SeqCst);
        ctl.set_hook_filter(|l| l.starts_with("query:"));
        for q in self.p.queries.clone() {
            let node = node.clone();
            let gm = gm.clone();
            let results = self.results.clone();
            ctl.spawn("Q", &q.name.clone(), async move {
                let r = run_query(&node, gm, &q).await;
                results.lock().unwrap().insert(q.name.clone(), r);
            });
        }
    }

    async fn finish(&mut self, ctl: &Ctl) -> Finish {
        let mut f = Finish::default();
        for (a, m) in ctl.panics() {
            f.violations.push(Violation { sig: "C10:panic".into(), msg: format!("{a} panicked: {m}") });
        }
        let unfinished = ctl.unfinished_actors();
        if !unfinished.is_empty() {
            f.violations.push(Violation { sig: "C10:stuck".into(), msg: format!("queries never finished: {unfinished:?}") });
            return f;
        }
        let results = self.results.lock().unwrap().clone();
        let trace = ctl.trace();
        for q in self.p.warm.iter().chain(self.p.queries.iter()) {
            let got = results.get(&q.name);
            let want = self.expected.get(&q.name);
            if got != want {
                // does the wrong answer equal another query's chunk set seen through this query's WHERE clause (i.e. empty,
                // because the windows are disjoint), or another query's rows?
                let kind = match (got, want) {
                    (Some(Ok(g)), Some(Ok(w))) if g.is_empty() && !w.is_empty() => "evaluated-against-another-query's-chunk-set",
                    (Some(Ok(_)), Some(Ok(_))) => "wrong-rows",
                    (Some(Err(_)), _) => "query-fails-only-when-concurrent",
                    _ => "other",
                };
                let regs: Vec<&String> = trace.iter().filter(|l| l.contains("query:after_register") || l.contains("query:before_register")).collect();
                f.violations.push(Violation {
                    sig: format!("C10:{kind}:{}", if q.streaming { "streaming-historical-phase" } else { "query" }),
                    msg: format!("{} returned {:?} when run concurrently, but {:?} when run alone; registration order in this schedule: {regs:?}", q.name, got, want),
                });
            }
        }
        if trace.iter().any(|l| l.contains("get_chunks_with_predicates(-9223372036854775808")) {
            f.flags.push("unbounded_window".into());
        }
        if trace.iter().any(|l| l.contains("list_chunks(")) {
            f.flags.push("bootstrap_listing".into());
        }
        f.outcome = format!("{results:?}");
        f
    }
}

fn expected_for(p: &Params) -> BTreeMap<String, Result<Vec<String>, String>> {
    // each query alone on a fresh node over the same data (no scheduler: plain runtime on a fresh thread)
    let p = p.clone();
    std::thread::spawn(move || {
        let e = crate::engine::env::EnvState::new();
        crate::engine::env::install(&e);
        let rt = tokio::runtime::Builder::new_current_thread().enable_all().start_paused(true).build().unwrap();
        let out = rt.block_on(async {
            let mut m = BTreeMap::new();
            for q in p.warm.iter().chain(p.queries.iter()) {
                let (mem, local) = build_world(p.hetero).await;
                let meta: Arc<dyn MetadataClient> = local.clone();
                let node = new_node_with(&mem, meta.clone(), p.adaptive).await;
                m.insert(q.name.clone(), run_query(&node, meta, q).await);
            }
            m
        });
        drop(rt);
        crate::engine::env::uninstall();
        out
    })
    .join()
    .expect("expected results")
}

pub fn factory(p: Params) -> ScenarioFactory {
    let expected = Arc::new(expected_for(&p));
    Arc::new(move || Box::new(C10Scenario { p: p.clone(), expected: expected.clone(), results: Arc::new(Mutex::new(BTreeMap::new())) }) as Box<dyn Scenario>)
}

fn q(name: &str, hours_ago: i64, select: &str, tenant: &str, streaming: bool) -> QuerySpec {
    QuerySpec { name: name.into(), sql: window_sql(hours_ago, select), tenant: tenant.into(), streaming }
}

/// the same window with Timestamp literals (for the Timestamp-typed chunks of the mixed-label-set world)
fn qt(name: &str, hours_ago: i64, select: &str, streaming: bool) -> QuerySpec {
    let (first, last) = if hours_ago >= 10 { (hours_ago / 10, hours_ago % 10) } else { (hours_ago, hours_ago) };
    let lo = hour_bucket(EPOCH_NS) - first.max(last) * HOUR;
    let hi = hour_bucket(EPOCH_NS) - first.min(last) * HOUR + HOUR - 1;
    QuerySpec { name: name.into(), sql: format!("SELECT {select} FROM metrics WHERE timestamp >= to_timestamp_nanos({lo}) AND timestamp <= to_timestamp_nanos({hi})"), tenant: "default".into(), streaming }
}

pub fn plans(tier: &str) -> Vec<(Params, Cost)> {
    let all = Cost { preempt: 1000, ..Cost::ZERO };
    let sel = "value_f64, host";
    let p = |name: &str, warm: Vec<QuerySpec>, queries: Vec<QuerySpec>| Params { name: name.into(), queries, warm, adaptive: false, gate_data: false, hetero: false };
    let mut v = vec![
        (p("two queries, disjoint windows", vec![], vec![q("Q1", 1, sel, "default", false), q("Q2", 2, sel, "default", false)]), all),
        (p("query + aggregate, disjoint windows", vec![], vec![q("Q1", 1, "count(*), min(value_f64)", "default", false), q("Q2", 3, "value_f64", "default", false)]), all),
        (p("query vs streaming historical phase", vec![], vec![q("Q1", 1, sel, "default", false), q("S2", 2, sel, "default", true)]), all),
        // non-initial binding: the node has served A before; one of the racing queries selects the same chunk set again
        (p("warm node (A served), then B vs A again", vec![q("A1", 1, sel, "default", false)], vec![q("B", 2, sel, "default", false), q("A2", 1, "host, value_f64", "default", false)]), all),
        (p("warm node (A served), then B vs streaming A again", vec![q("A1", 1, sel, "default", false)], vec![q("B", 2, sel, "default", false), q("SA", 1, sel, "default", true)]), all),
        (p("overlapping chunk sets {1,2} vs {2,3}", vec![], vec![q("Q12", 21, sel, "default", false), q("Q23", 32, "count(*), max(value_f64)", "default", false)]), all),
        (p("subset chunk sets {1,2,3} vs {2}", vec![q("W2", 2, sel, "default", false)], vec![q("Q123", 31, "count(*)", "default", false), q("Q2", 2, sel, "default", false)]), all),
        (p("empty selection vs non-empty", vec![], vec![q("E", 7, "count(*)", "default", false), q("Q1", 1, sel, "default", false)]), all),
        (p("warm node (A served), then empty selection vs A again", vec![q("A1", 1, sel, "default", false)], vec![q("E", 7, "count(*)", "default", false), q("A2", 1, "host", "default", false)]), all),
        (p("three queries, the third repeats the first", vec![], vec![q("Q1", 1, sel, "default", false), q("Q2", 2, sel, "default", false), q("Q1b", 1, "host", "default", false)]), Cost { preempt: if tier == "thorough" { 4 } else { 3 }, ..Cost::ZERO }),
    ];
    // the same races on a node with adaptive indexing enabled (execution goes through execute_plan_with_indexes)
    v.push((Params { adaptive: true, ..p("adaptive indexing: two queries, disjoint windows", vec![], vec![q("Q1", 1, "count(*)", "default", false), q("Q2", 2, sel, "default", false)]) }, all));
    v.push((Params { adaptive: true, ..p("adaptive indexing: warm node (A served), then B vs A again, two tenants", vec![q("A1", 1, sel, "default", false)], vec![q("B", 2, sel, "tenant-b", false), q("A2", 1, "host, value_f64", "default", false)]) }, all));
    // chunk-data reads as scheduling points: a query can be parked inside its registration (holding the lock) while
    // the other one queues on the lock
    let pre = Cost { preempt: if tier == "thorough" { 3 } else { 2 }, ..Cost::ZERO };
    v.push((Params { gate_data: true, ..p("data reads gated: two queries, disjoint windows", vec![], vec![q("Q1", 1, "count(*)", "default", false), q("Q2", 2, sel, "default", false)]) }, pre));
    v.push((Params { gate_data: true, ..p("data reads gated: query vs streaming historical phase", vec![], vec![q("S1", 1, sel, "default", true), q("Q2", 2, "count(*)", "default", false)]) }, pre));
    // mixed label sets: the first statement of a fresh node takes the unknown-column retry while another query registers
    v.push((Params { hetero: true, ..p("mixed label sets: retrying query vs plain query", vec![], vec![qt("R1", 1, "value_f64, host", false), qt("Q2", 2, sel, false)]) }, all));
    v.push((Params { hetero: true, ..p("mixed label sets: retrying query vs streaming historical phase", vec![], vec![qt("R1", 1, "value_f64, host", false), qt("S2", 2, sel, true)]) }, all));
    v.push((Params { hetero: true, ..p("mixed label sets: retrying streaming phase vs query naming the other label", vec![], vec![qt("SR1", 1, "value_f64, host", true), qt("Q2", 21, "value_f64, region", false)]) }, all));
    if tier == "thorough" {
        v.push((p("three queries, two tenants", vec![], vec![q("Q1", 1, sel, "default", false), q("Q2", 2, sel, "default", false), q("Q3", 3, "value_f64", "tenant-b", false)]), Cost { preempt: 4, ..Cost::ZERO }));
        v.push((p("two streaming subscriptions", vec![], vec![q("S1", 1, sel, "default", true), q("S2", 2, sel, "default", true)]), all));
        v.push((
            p("warm node (A, B served), then three queries", vec![q("A1", 1, sel, "default", false), q("B1", 2, sel, "default", false)], vec![q("A2", 1, "host", "default", false), q("C", 3, sel, "default", false), q("B2", 2, "count(*)", "default", false)]),
            Cost { preempt: 3, ..Cost::ZERO },
        ));
    }
    v
}

pub fn run(tier: &str) -> i32 {
    let mut rep = Report::new("C10", tier, "model_checking");
    rep.assume("scheduling points: every catalog call of a query and the pause points before / after its metrics-table registration; DataFusion-internal waits resolve inside a step (single-threaded runtime), so the interleaving granularity is register / plan+execute, which is where the shared `metrics` binding is read and written");
    let mut outcomes = BTreeSet::new();
    for (p, bounds) in plans(tier) {
        let cfg = ExploreConfig { bounds, use_cache: false, wall_cap: Duration::from_secs(if tier == "thorough" { 900 } else { 40 }), max_steps: 300, ..Default::default() };
        let st = explore(factory(p.clone()), &cfg);
        for o in st.outcomes.keys() {
            outcomes.insert(o.clone());
        }
        if p.hetero && !st.flags.contains_key("bootstrap_listing") {
            rep.machinery(format!("vacuity guard: in `{}` no query took the bootstrap over all stored chunks (the unknown-column retry was not reached)", p.name));
        }
        if st.flags.contains_key("unbounded_window") {
            rep.machinery(format!("vacuity guard: in `{}` a query's time window was extracted as unbounded, so the queries' chunk selections do not differ", p.name));
        }
        println!(
            "  C10 {:<48} executions={:<7} transitions={:<8} depth={:<3} outcomes={:<3} violation-sigs={:<2} {:.1}s{}",
            p.name, st.executions, st.transitions, st.max_depth, st.outcomes.len(), st.violations.len(), st.wall_s, if st.capped { " CAPPED" } else { "" }
        );
        rep.absorb_explore(&p.name, &serde_json::to_value(&p).unwrap(), &st, bounds);
    }
    rep.set("rule", "an execution = one complete interleaving of 2-3 queries on one QueryNode, cold or after having served other queries (catalog calls and registration pause points as scheduling points); each result is compared with the same query run alone on a fresh node over the same data; states = quiescent points");
    let ex = rep.get_u64("executions");
    rep.set("distinct_nontrivial", ex.min(rep.get_u64("states").max(2)));
    rep.set("distinct_result_combinations", outcomes.len() as u64);
    // vacuity: every query, run alone, returns rows
    for (p, _) in plans(tier) {
        for (n, r) in expected_for(&p) {
            if !matches!(&r, Ok(v) if !v.is_empty()) {
                // (a count(*) over an empty selection still returns one row, so this holds for every query)
                rep.machinery(format!("vacuity guard: query {n} of `{}` returns {r:?} when run alone", p.name));
            }
        }
    }
    rep.finish()
}

pub fn replay(v: &serde_json::Value) -> i32 {
    let p: Params = serde_json::from_value(v["params"].clone()).expect("params");
    super::replay_schedule(factory(p), v)
}

#[allow(dead_code)]
fn _k() -> serde_json::Value {
    json!(null)
}
