//! C14 — a shard split can be resumed from any interruption and conserves data.
//! Engine F (a degenerate engine A with one task): every request of the split procedure x
//! {fail-before, fail-after, crash}, nested once in the thorough tier, followed by the documented recovery.

use super::common::*;
use crate::engine::meta::GatedMeta;
use crate::engine::report::Report;
use crate::engine::sched::*;
use crate::engine::store::{GatedStore, StoreLog};
use async_trait::async_trait;
use cardinalsin::metadata::{LocalMetadataClient, MetadataClient};
use cardinalsin::sharding::{ReplicaInfo, ShardMetadata, ShardSplitter, ShardState};
use object_store::ObjectStore;
use serde_json::json;
use std::collections::{BTreeMap, BTreeSet};
use std::sync::{Arc, Mutex};
use std::time::Duration;

const OLD: &str = "shard-old";
const SEC: i64 = 1_000_000_000;
const SPLIT_TS: i64 = 300 * SEC;

#[derive(Debug, Clone, serde::Serialize, serde::Deserialize)]
pub struct Params {
    pub name: String,
    pub backend: String,
    pub chunks: usize,
}

fn old_shard() -> ShardMetadata {
    ShardMetadata {
        shard_id: OLD.into(),
        generation: 0,
        key_range: (vec![0u8; 8], vec![255u8; 8]),
        replicas: vec![ReplicaInfo { replica_id: "r".into(), node_id: "n".into(), is_leader: true }],
        state: ShardState::Active,
        min_time: 0,
        max_time: 600 * SEC,
    }
}

fn dataset(n: usize) -> Vec<(String, Vec<Row>)> {
    let all = vec![
        (format!("{OLD}/chunk_0.parquet"), vec![row(100 * SEC, 1), row(SPLIT_TS, 2)]),
        (format!("{OLD}/chunk_1.parquet"), vec![row(SPLIT_TS - 1, 3), row(500 * SEC, 4)]),
        (format!("{OLD}/chunk_2.parquet"), vec![row(SPLIT_TS + 1, 5), row(599 * SEC, 6)]),
    ];
    all.into_iter().take(n).collect()
}

/// the second chunk comes from a client with another label set: its label column is `region`, not `host`
fn chunk_batch(path: &str, rows: &[Row]) -> arrow_array::RecordBatch {
    rows_to_batch_label(rows, false, if path.ends_with("chunk_1.parquet") { "region" } else { "host" })
}

#[derive(Default)]
struct Shared {
    attempts: Vec<String>,
    done: bool,
}

pub struct C14Scenario {
    p: Params,
    mem: Arc<dyn ObjectStore>,
    local: Arc<LocalMetadataClient>,
    log: Arc<StoreLog>,
    shared: Arc<Mutex<Shared>>,
    crashes: usize,
    metas: Vec<Arc<GatedMeta>>,
}

impl C14Scenario {
    pub fn new(p: Params) -> Self {
        Self { p, mem: new_mem(), local: Arc::new(LocalMetadataClient::new()), log: StoreLog::new(), shared: Arc::new(Mutex::new(Shared::default())), crashes: 0, metas: Vec::new() }
    }
    fn is_os(&self) -> bool {
        self.p.backend == "object-store"
    }
    fn fresh_meta(&self) -> Arc<dyn MetadataClient> {
        if self.is_os() {
            Arc::new(os_client(self.mem.clone()))
        } else {
            self.local.clone()
        }
    }

    /// start (or restart after a crash) the node that runs the split / the recovery
    fn start(&mut self, ctl: &Ctl, first: bool) {
        let gs = GatedStore::new(self.mem.clone(), "S", ctl, &self.log);
        let meta: Arc<dyn MetadataClient> = if self.is_os() {
            Arc::new(os_client(gs.clone() as Arc<dyn ObjectStore>))
        } else {
            let gm = GatedMeta::new(self.local.clone(), "S", ctl);
            self.metas.push(gm.clone());
            gm
        };
        let splitter = ShardSplitter::new(meta.clone(), gs as Arc<dyn ObjectStore>);
        let shared = self.shared.clone();
        let inc = self.crashes;
        ctl.spawn("S", &format!("S{inc}"), async move {
            let mut need_recovery = !first;
            if first {
                match splitter.execute_split_with_monitoring(&old_shard()).await {
                    Ok(()) => {
                        let mut s = shared.lock().unwrap();
                        s.attempts.push("split: Ok".into());
                        s.done = true;
                        return;
                    }
                    Err(e) => {
                        shared.lock().unwrap().attempts.push(format!("split: Err({e})"));
                        need_recovery = true;
                    }
                }
            }
            if need_recovery {
                for k in 0..4 {
                    match splitter.resume_split(OLD).await {
                        Ok(true) => {
                            let mut s = shared.lock().unwrap();
                            s.attempts.push(format!("resume#{k}: Ok(resumed)"));
                            s.done = true;
                            return;
                        }
                        Ok(false) => {
                            // nothing to resume: if no split is recorded either, the split never started: start it again
                            // (the driver's own reads go through the faulted client too: an operator whose read fails
                            // simply tries again, so a failed read is another round of the loop, not a verdict)
                            let recorded = match meta.get_split_state(OLD).await {
                                Ok(r) => r.is_some(),
                                Err(e) => {
                                    shared.lock().unwrap().attempts.push(format!("resume#{k}: nothing to resume; reading the split state failed: {e}"));
                                    continue;
                                }
                            };
                            let old_state = match meta.get_shard_metadata(OLD).await {
                                Ok(m) => m.map(|m| m.state),
                                Err(e) => {
                                    shared.lock().unwrap().attempts.push(format!("resume#{k}: nothing to resume; reading the old shard failed: {e}"));
                                    continue;
                                }
                            };
                            if !recorded && old_state == Some(ShardState::Active) {
                                match splitter.execute_split_with_monitoring(&old_shard()).await {
                                    Ok(()) => {
                                        let mut s = shared.lock().unwrap();
                                        s.attempts.push(format!("resume#{k}: nothing to resume; split again: Ok"));
                                        s.done = true;
                                        return;
                                    }
                                    Err(e) => shared.lock().unwrap().attempts.push(format!("resume#{k}: nothing to resume; split again: Err({e})")),
                                }
                            } else {
                                let mut s = shared.lock().unwrap();
                                s.attempts.push(format!("resume#{k}: Ok(nothing to resume) [split recorded: {recorded}, old shard: {old_state:?}]"));
                                s.done = true;
                                return;
                            }
                        }
                        Err(e) => shared.lock().unwrap().attempts.push(format!("resume#{k}: Err({e})")),
                    }
                }
            }
        });
    }
}

fn normalize(label: &str) -> String {
    // strip uuids and hex payloads so that a signature names the step, not the run
    let mut out = String::new();
    let mut tok = String::new();
    let flush = |tok: &mut String, out: &mut String| {
        let is_id = tok.len() >= 16 && tok.chars().all(|c| c.is_ascii_hexdigit() || c == '-');
        if is_id {
            out.push_str("<id>");
        } else {
            out.push_str(tok);
        }
        tok.clear();
    };
    for c in label.chars() {
        if c.is_ascii_alphanumeric() || c == '-' {
            tok.push(c);
        } else {
            flush(&mut tok, &mut out);
            out.push(c);
        }
    }
    flush(&mut tok, &mut out);
    out
}

#[async_trait(?Send)]
impl Scenario for C14Scenario {
    async fn setup(&mut self, ctl: &Ctl) {
        let meta = self.fresh_meta();
        meta.update_shard_metadata(OLD, &old_shard(), 0).await.expect("old shard");
        for (p, rows) in dataset(self.p.chunks) {
            let bytes = encode_parquet(&chunk_batch(&p, &rows));
            let m = cardinalsin::ingester::ChunkMetadata {
                path: p.clone(),
                min_timestamp: rows.iter().map(|r| r.ts).min().unwrap_or(0),
                max_timestamp: rows.iter().map(|r| r.ts).max().unwrap_or(0),
                row_count: rows.len() as u64,
                size_bytes: bytes.len() as u64,
            };
            self.mem.put(&object_store::path::Path::from(p.as_str()), bytes.into()).await.expect("put chunk");
            meta.register_chunk(&p, &m).await.expect("register chunk");
        }
        self.start(ctl, true);
    }

    fn fault_modes(&self, g: &GateInfo) -> Vec<Decision> {
        match g.kind.as_str() {
            "PUT" | "DELETE" | "META" => vec![Decision::FailBefore, Decision::FailAfter],
            "GET" | "LIST" | "HEAD" => vec![Decision::FailBefore],
            _ => vec![],
        }
    }

    fn extras(&self, _ctl: &Ctl) -> Vec<Extra> {
        if !self.shared.lock().unwrap().done {
            vec![Extra { label: "CRASH".into(), cost: Cost { crash: 1, ..Cost::ZERO } }]
        } else {
            vec![]
        }
    }

    async fn apply_extra(&mut self, ctl: &Ctl, _x: &Extra) {
        ctl.crash_node("S");
        ctl.settle().await;
        self.crashes += 1;
        ctl.revive_node("S");
        self.start(ctl, false);
    }

    async fn finish(&mut self, ctl: &Ctl) -> Finish {
        let mut f = Finish::default();
        let trace = ctl.trace();
        // which step was interrupted, and how (for the signature)
        let deviations: Vec<String> = {
            let mut v = Vec::new();
            for (i, l) in trace.iter().enumerate() {
                if l.contains(" !Fail") {
                    let step = l.splitn(2, ' ').nth(1).unwrap_or("").to_string();
                    let (lab, mode) = step.rsplit_once(" !").unwrap_or((&step, ""));
                    v.push(format!("{}@{}", if mode == "FailBefore" { "fail-before" } else { "fail-after" }, normalize(lab.splitn(2, ':').nth(1).unwrap_or(lab))));
                } else if l.contains("*CRASH") {
                    // the request the node was about to issue
                    let next = trace.get(i.wrapping_sub(1)).map(|p| p.splitn(2, ' ').nth(1).unwrap_or("").to_string()).unwrap_or_default();
                    v.push(format!("crash-after@{}", normalize(next.splitn(2, ':').nth(1).unwrap_or(&next))));
                }
            }
            v
        };
        let dev = if deviations.is_empty() { "none".to_string() } else { deviations.join("+") };
        for (a, m) in ctl.panics() {
            f.violations.push(Violation { sig: format!("C14:panic:{dev}"), msg: format!("{a} panicked: {m}") });
        }
        let attempts = self.shared.lock().unwrap().attempts.clone();
        let done = self.shared.lock().unwrap().done;
        if !done {
            let last = attempts.last().cloned().unwrap_or_default();
            let why = if last.contains("Stale generation") || last.contains("StaleGeneration") || last.to_lowercase().contains("stale") {
                "stale-generation-on-re-creating-a-shard"
            } else if last.contains("No split in progress") {
                "no-split-in-progress"
            } else if last.contains("Backfill only") {
                "backfill-incomplete"
            } else {
                "other-error"
            };
            f.violations.push(Violation {
                sig: format!("C14:resume-never-completes:{why}:{dev}"),
                msg: format!("after the interruption [{dev}] four resume attempts did not finish the split: {attempts:?}"),
            });
            f.outcome = format!("stuck:{why}");
            return f;
        }
        // final state == uninterrupted split (up to new-shard names)
        let meta = self.fresh_meta();
        // new shard ids: from the last progress object ever written
        let new_shards: Vec<String> = self
            .log
            .snapshot()
            .iter()
            .rev()
            .find(|e| e.kind == "PUT" && e.ok && e.path.contains("split-progress"))
            .and_then(|e| e.payload.as_ref().and_then(|p| serde_json::from_slice::<serde_json::Value>(p).ok()))
            .and_then(|v| v["new_shards"].as_array().map(|a| a.iter().filter_map(|x| x.as_str().map(|s| s.to_string())).collect()))
            .unwrap_or_default();
        let mut problems: Vec<(String, String)> = Vec::new();
        if new_shards.len() != 2 {
            problems.push(("no-new-shards-recorded".into(), format!("new shards {new_shards:?}")));
        } else {
            let split_bytes = SPLIT_TS.to_be_bytes().to_vec();
            let old = old_shard();
            for (i, id) in new_shards.iter().enumerate() {
                match meta.get_shard_metadata(id).await.ok().flatten() {
                    None => problems.push((format!("new-shard-{}-missing", ["a", "b"][i]), format!("{id} has no metadata"))),
                    Some(m) => {
                        if m.state != ShardState::Active {
                            problems.push((format!("new-shard-{}-not-active", ["a", "b"][i]), format!("{:?}", m.state)));
                        }
                        let want = if i == 0 { (old.key_range.0.clone(), split_bytes.clone()) } else { (split_bytes.clone(), old.key_range.1.clone()) };
                        if m.key_range != want {
                            problems.push((format!("new-shard-{}-wrong-range", ["a", "b"][i]), format!("{:?} != {:?}", m.key_range, want)));
                        }
                    }
                }
            }
            // rows: every old row in exactly one new shard, on its side of the split point, once
            let mut decoded = BTreeMap::new();
            let data = dataset(self.p.chunks);
            let want_a: Vec<i64> = { let mut v: Vec<i64> = data.iter().flat_map(|(_, r)| r.iter().filter(|x| x.ts < SPLIT_TS).map(|x| x.id)).collect(); v.sort(); v };
            let want_b: Vec<i64> = { let mut v: Vec<i64> = data.iter().flat_map(|(_, r)| r.iter().filter(|x| x.ts >= SPLIT_TS).map(|x| x.id)).collect(); v.sort(); v };
            for (i, want) in [(0usize, &want_a), (1usize, &want_b)] {
                let paths: Vec<String> = { let mut v: Vec<String> = meta.get_chunks_for_shard(&new_shards[i]).await.unwrap_or_default().into_iter().map(|e| e.chunk_path).collect(); v.sort(); v.dedup(); v };
                match reachable_ids(&self.mem, &paths, &mut decoded).await {
                    Ok(ids) if &ids == want => {}
                    Ok(ids) => {
                        let kind = if want.iter().any(|w| !ids.contains(w)) { "rows-missing" } else { "rows-duplicated-or-misplaced" };
                        problems.push((format!("new-shard-{}-{kind}", ["a", "b"][i]), format!("ids {ids:?}, expected {want:?} (chunks {paths:?})")));
                    }
                    Err(p) => problems.push((format!("new-shard-{}-chunk-missing", ["a", "b"][i]), p)),
                }
            }
            // whole rows (every non-null column value), not only their ids: old shard == new shard A + new shard B
            let mut want_rows: Vec<String> = data.iter().flat_map(|(p, r)| whole_rows(encode_parquet(&chunk_batch(p, r))).expect("own chunk decodes")).collect();
            want_rows.sort();
            let mut got_rows: Vec<String> = Vec::new();
            let mut readable = true;
            for id in &new_shards {
                let mut paths: Vec<String> = meta.get_chunks_for_shard(id).await.unwrap_or_default().into_iter().map(|e| e.chunk_path).collect();
                paths.sort();
                paths.dedup();
                for p in paths {
                    match crate::engine::store::raw_get(&self.mem, &p).await.map(whole_rows) {
                        Some(Ok(r)) => got_rows.extend(r),
                        _ => readable = false,
                    }
                }
            }
            got_rows.sort();
            if readable && got_rows != want_rows && problems.is_empty() {
                let lost: Vec<&String> = want_rows.iter().filter(|r| !got_rows.contains(r)).collect();
                let new: Vec<&String> = got_rows.iter().filter(|r| !want_rows.contains(r)).collect();
                problems.push(("row-content-changed".into(), format!("rows of the old shard that are in no new shard {lost:?}; rows that were not in the old shard {new:?}")));
            }
        }
        match meta.get_shard_metadata(OLD).await.ok().flatten().map(|m| m.state) {
            Some(ShardState::PendingDeletion { .. }) => {}
            other => problems.push(("old-shard-not-pending-deletion".into(), format!("{other:?}"))),
        }
        if meta.get_split_state(OLD).await.ok().flatten().is_some() {
            problems.push(("split-state-left-behind".into(), String::new()));
        }
        if crate::engine::store::raw_get(&self.mem, &format!("metadata/split-progress/{OLD}.json")).await.is_some() {
            problems.push(("progress-object-left-behind".into(), String::new()));
        }
        // no old-shard data removed before the cut-over completed
        let slog = self.log.snapshot();
        let cutover_done_at = slog
            .iter()
            .position(|e| self.is_os() && e.kind == "PUT" && e.ok && e.path.ends_with("split-states.json") && e.payload.as_ref().map(|p| !String::from_utf8_lossy(p).contains(OLD)).unwrap_or(false) && slog.iter().any(|x| x.seq < e.seq && x.path.ends_with(&format!("{OLD}.json")) && x.payload.as_ref().map(|p| String::from_utf8_lossy(p).contains("PendingDeletion")).unwrap_or(false)));
        if self.is_os() {
            for e in slog.iter().filter(|e| e.kind == "DELETE" && e.path.starts_with(OLD)) {
                if cutover_done_at.map(|c| e.seq < slog[c].seq).unwrap_or(true) {
                    problems.push(("old-shard-data-deleted-before-cutover-completed".into(), format!("DELETE {} (request #{})", e.path, e.seq)));
                }
            }
        } else {
            // in-memory backend: order the catalog calls
            let mlog: Vec<_> = self.metas.iter().flat_map(|m| m.log_snapshot()).collect();
            let _ = mlog;
            let first_delete = trace.iter().position(|l| l.contains(&format!("DELETE {OLD}/")) || l.contains(&format!("delete_chunk({OLD}/")));
            let complete = trace.iter().position(|l| l.contains("complete_split(") && !l.contains("!FailBefore"));
            if let Some(d) = first_delete {
                if complete.map(|c| d < c).unwrap_or(true) {
                    problems.push(("old-shard-data-deleted-before-cutover-completed".into(), trace[d].clone()));
                }
            }
        }
        for (kind, detail) in &problems {
            f.violations.push(Violation {
                sig: format!("C14:final-state:{kind}:{dev}"),
                msg: format!("after the interruption [{dev}] and recovery {attempts:?}: {kind} {detail}"),
            });
        }
        if !deviations.is_empty() {
            f.flags.push("recovered_after_interruption".into());
        }
        if attempts.iter().any(|a| a.contains("split again")) {
            f.flags.push("split_restarted_from_scratch".into());
        }
        f.outcome = format!("done problems={:?}", problems.iter().map(|p| p.0.clone()).collect::<Vec<_>>());
        f
    }
}

pub fn factory(p: Params) -> ScenarioFactory {
    Arc::new(move || Box::new(C14Scenario::new(p.clone())) as Box<dyn Scenario>)
}

pub fn run(tier: &str) -> i32 {
    let mut rep = Report::new("C14", tier, "fault_enumeration");
    rep.assume("an interruption is: an error returned before the request took effect, an error returned after it took effect (lost response), or a crash of the node between two requests (memory lost; crash-after-request-i is crash-before-request-i+1); recovery = resume_split up to 4 times on a fresh splitter, and a fresh execute_split when there is nothing to resume, no split is recorded and the old shard is still active");
    rep.assume("the splitter's sleeps (10 s, 300 s) run on virtual time");
    let t = tier == "thorough";
    let mut flags = BTreeSet::new();
    let mut baseline_requests = 0u64;
    for backend in ["object-store", "in-memory"] {
        let p = Params { name: format!("split/{backend}"), backend: backend.into(), chunks: if t { 3 } else { 2 } };
        for (label, bounds) in [
            ("single-fault", Cost { fault: 1, ..Cost::ZERO }),
            ("single-crash", Cost { crash: 1, ..Cost::ZERO }),
        ]
        .into_iter()
        // nested interruptions: a second one at every request of the recovery run (both tiers; the quick tier uses the
        // 2-chunk shard); thorough adds two injected errors and the 3-chunk shard
        .chain(vec![("fault+crash", Cost { fault: 1, crash: 1, ..Cost::ZERO }), ("two-crashes", Cost { crash: 2, ..Cost::ZERO })])
        .chain(if t {
            vec![
                ("two-faults", Cost { fault: 2, ..Cost::ZERO }),
                // a third interruption at every request of the second recovery run
                ("three-crashes", Cost { crash: 3, ..Cost::ZERO }),
                ("fault+two-crashes", Cost { fault: 1, crash: 2, ..Cost::ZERO }),
                ("two-faults+crash", Cost { fault: 2, crash: 1, ..Cost::ZERO }),
            ]
        } else {
            vec![]
        })
        {
            let cfg = ExploreConfig { bounds, use_cache: false, wall_cap: Duration::from_secs(if t { 900 } else { 50 }), max_steps: 1500, ..Default::default() };
            let st = explore(factory(p.clone()), &cfg);
            for k in st.flags.keys() {
                flags.insert(k.clone());
            }
            if label == "single-fault" {
                baseline_requests = baseline_requests.max(st.max_depth as u64);
            }
            println!(
                "  C14 {:<22} {:<14} executions={:<7} transitions={:<8} depth={:<4} outcomes={:<3} violation-sigs={:<3} {:.1}s{}",
                p.name, label, st.executions, st.transitions, st.max_depth, st.outcomes.len(), st.violations.len(), st.wall_s, if st.capped { " CAPPED" } else { "" }
            );
            rep.absorb_explore(&format!("{}:{label}", p.name), &serde_json::to_value(&p).unwrap(), &st, bounds);
        }
    }
    rep.set("rule", "one execution per (request index of the split procedure, interruption mode in {fail-before, fail-after, crash}) (plus a second interruption - crash after error, crash after crash; thorough: error after error - at every request of the recovery run; thorough: a third interruption - three crashes, error + two crashes, two errors + crash - at every request of the second recovery run), each followed by the recovery procedure and compared with the state an uninterrupted split reaches; non-trivial = distinct (interrupted step, mode) pairs");
    let ex = rep.get_u64("executions");
    rep.set("distinct_nontrivial", ex.saturating_sub(4));
    rep.set("requests_in_uninterrupted_split", baseline_requests);
    rep.set("vacuity", json!({"observed": flags}));
    if !flags.contains("recovered_after_interruption") {
        rep.machinery("vacuity guard: no interrupted split was ever recovered");
    }
    rep.finish()
}

pub fn replay(v: &serde_json::Value) -> i32 {
    let p: Params = serde_json::from_value(v["params"].clone()).expect("params");
    super::replay_schedule(factory(p), v)
}
