//! C06 — fault-free ingest stores each accepted row exactly once, with exact metadata.
//! Concurrency part: engine A over the C01 subject without deviations other than preemptions.
//! Input part: bounded-exhaustive batch shapes x thresholds, sequential.

use super::c01::{batch_ids, IngestScenario, Params};
use super::c03::storage_config;
use super::common::*;
use crate::engine::report::Report;
use crate::engine::sched::*;
use arrow_array::{Array, Float64Array, Int64Array, RecordBatch, StringArray, TimestampNanosecondArray};
use arrow_schema::{DataType, Field, Schema, TimeUnit};
use async_trait::async_trait;
use cardinalsin::ingester::{Ingester, IngesterConfig, WalConfig};
use cardinalsin::metadata::{LocalMetadataClient, MetadataClient};
use cardinalsin::schema::MetricSchema;
use object_store::ObjectStore;
use serde_json::json;
use std::collections::{BTreeMap, BTreeSet};
use std::sync::Arc;
use std::time::Duration;

pub struct C06Scenario {
    inner: IngestScenario,
}

fn row_key(r: &Row) -> (i64, String, Option<String>, i64, u64) {
    (r.ts, r.metric.clone(), r.host.clone(), r.id, r.value.to_bits())
}

#[async_trait(?Send)]
impl Scenario for C06Scenario {
    async fn setup(&mut self, ctl: &Ctl) {
        self.inner.setup(ctl).await
    }
    fn gate_enabled(&self, g: &GateInfo) -> bool {
        self.inner.gate_enabled(g)
    }
    fn on_grant(&mut self, g: &GateInfo, d: Decision) {
        self.inner.on_grant(g, d)
    }
    async fn finish(&mut self, ctl: &Ctl) -> Finish {
        let mut f = Finish::default();
        for (a, m) in ctl.panics() {
            f.violations.push(Violation { sig: "C06:panic".into(), msg: format!("{a} panicked: {m}") });
        }
        self.inner.final_flush(ctl).await;
        let (acked, rejected, legacy, topic) = {
            let s = self.inner.shared.lock().unwrap();
            (s.acked.clone(), s.rejected.clone(), s.legacy_deliveries.clone(), s.topic_deliveries.clone())
        };
        if !rejected.is_empty() {
            f.violations.push(Violation { sig: "C06:write-rejected-fault-free".into(), msg: format!("fault-free writes were rejected: {rejected:?}") });
        }
        let stored = match self.inner.stored().await {
            Ok(s) => s,
            Err(e) => {
                f.violations.push(Violation { sig: "C06:listed-chunk-unreadable".into(), msg: e });
                return f;
            }
        };
        // rows stored == rows accepted (multiset, values bit-equal)
        let mut want: Vec<_> = Vec::new();
        for w in &self.inner.p.writers {
            for (id, variant) in w {
                if acked.contains(id) {
                    let b = super::c01::one_row_batch(*id, *variant);
                    let rows = decode_rows(encode_parquet(&b)).unwrap();
                    want.extend(rows.iter().map(row_key));
                }
            }
        }
        want.sort();
        let mut have: Vec<_> = stored.values().flat_map(|rows| rows.iter().map(row_key)).collect();
        have.sort();
        if have != want {
            let missing: Vec<_> = want.iter().filter(|w| !have.contains(w)).map(|w| w.3).collect();
            let kind = if !missing.is_empty() {
                "accepted-row-missing"
            } else if have.len() > want.len() {
                "row-stored-twice"
            } else if have.len() < want.len() {
                "accepted-copy-of-identical-row-missing"
            } else {
                "row-value-changed"
            };
            f.violations.push(Violation { sig: format!("C06:{kind}"), msg: format!("stored rows {have:?} != accepted rows {want:?}") });
        }
        // catalog entries state the truth
        let listed = self.inner.local.list_chunks().await.unwrap_or_default();
        for e in &listed {
            if let Some(rows) = stored.get(&e.chunk_path) {
                let (mn, mx) = (rows.iter().map(|r| r.ts).min().unwrap_or(0), rows.iter().map(|r| r.ts).max().unwrap_or(0));
                if e.row_count != rows.len() as u64 {
                    f.violations.push(Violation { sig: "C06:row_count-wrong".into(), msg: format!("{}: catalog says {} rows, chunk holds {}", e.chunk_path, e.row_count, rows.len()) });
                }
                if e.min_timestamp != mn {
                    f.violations.push(Violation { sig: "C06:min_timestamp-wrong".into(), msg: format!("{}: catalog says min {}, true min {mn}", e.chunk_path, e.min_timestamp) });
                }
                if e.max_timestamp != mx {
                    f.violations.push(Violation { sig: "C06:max_timestamp-wrong".into(), msg: format!("{}: catalog says max {}, true max {mx}", e.chunk_path, e.max_timestamp) });
                }
            }
        }
        // every flushed chunk is announced to each live subscriber exactly once
        let mut chunk_idsets: Vec<Vec<i64>> = stored.values().map(|rows| { let mut v: Vec<i64> = rows.iter().map(|r| r.id).collect(); v.sort(); v }).collect();
        chunk_idsets.sort();
        for (name, d) in [("legacy", &legacy), ("topic", &topic)] {
            let mut got: Vec<Vec<i64>> = d.iter().map(|v| { let mut v = v.clone(); v.sort(); v }).collect();
            got.sort();
            if got != chunk_idsets {
                let kind = if got.len() > chunk_idsets.len() { "announced-more-than-once" } else if got.len() < chunk_idsets.len() { "chunk-not-announced" } else { "announcement-differs" };
                f.violations.push(Violation { sig: format!("C06:{name}-subscriber:{kind}"), msg: format!("{name} subscriber received {got:?}, flushed chunks hold {chunk_idsets:?}") });
            }
        }
        if stored.len() > 1 {
            f.flags.push("several_chunks".into());
        }
        if stored.values().any(|r| r.len() > 1) {
            f.flags.push("multi_row_chunk".into());
        }
        f.outcome = format!("{chunk_idsets:?}");
        f
    }
}

pub fn factory(p: Params) -> ScenarioFactory {
    Arc::new(move || Box::new(C06Scenario { inner: IngestScenario::new(p.clone()) }) as Box<dyn Scenario>)
}

// ------------------------------------------------------------------------------------------------
// input part
// ------------------------------------------------------------------------------------------------

#[derive(Debug, Clone, serde::Serialize, serde::Deserialize)]
pub struct InputCase {
    /// 0 = Int64, 1 = Timestamp(ns) without tz, 2 = Timestamp(ns, UTC)
    pub ts_kind: u8,
    pub timestamps: Vec<i64>,
    pub values: Vec<f64>,
    pub hosts: Vec<Option<String>>,
    pub flush_row_count: usize,
    pub byte_threshold: bool,
    pub tiny_buffer: bool,
    /// number of times the batch is written
    pub writes: usize,
}

fn input_batch(c: &InputCase, write_idx: usize) -> RecordBatch {
    let ts_field = match c.ts_kind {
        0 => Field::new("timestamp", DataType::Int64, false),
        1 => Field::new("timestamp", DataType::Timestamp(TimeUnit::Nanosecond, None), false),
        _ => Field::new("timestamp", DataType::Timestamp(TimeUnit::Nanosecond, Some("UTC".into())), false),
    };
    let schema = Arc::new(Schema::new(vec![
        ts_field,
        Field::new("metric_name", DataType::Utf8, false),
        Field::new("host", DataType::Utf8, true),
        Field::new("id", DataType::Int64, false),
        Field::new("value_f64", DataType::Float64, true),
    ]));
    let n = c.timestamps.len();
    let ts: Arc<dyn Array> = match c.ts_kind {
        0 => Arc::new(Int64Array::from(c.timestamps.clone())),
        1 => Arc::new(TimestampNanosecondArray::from(c.timestamps.clone())),
        _ => Arc::new(TimestampNanosecondArray::from(c.timestamps.clone()).with_timezone("UTC")),
    };
    RecordBatch::try_new(
        schema,
        vec![
            ts,
            Arc::new(StringArray::from(vec!["cpu"; n])),
            Arc::new(StringArray::from(c.hosts.clone())),
            Arc::new(Int64Array::from((0..n as i64).map(|i| (write_idx as i64) * 100 + i).collect::<Vec<_>>())),
            Arc::new(Float64Array::from(c.values.clone())),
        ],
    )
    .unwrap()
}

async fn run_input_case(c: &InputCase) -> Result<bool, (String, String)> {
    let mem = new_mem();
    let local = Arc::new(LocalMetadataClient::new());
    let cfg = IngesterConfig {
        flush_interval: Duration::from_secs(3600),
        flush_row_count: c.flush_row_count,
        flush_size_bytes: if c.byte_threshold { 1 } else { usize::MAX / 4 },
        max_buffer_size_bytes: if c.tiny_buffer { 64 } else { usize::MAX / 4 },
        wal: WalConfig { enabled: false, ..WalConfig::default() },
        ..IngesterConfig::default()
    };
    let ing = Arc::new(Ingester::new(cfg, mem.clone(), local.clone() as Arc<dyn MetadataClient>, storage_config(), MetricSchema::default_metrics()));
    let mut accepted: Vec<Row> = Vec::new();
    let mut rejected_any = false;
    for w in 0..c.writes {
        let b = input_batch(c, w);
        let r = match futures::FutureExt::catch_unwind(std::panic::AssertUnwindSafe(ing.write(b.clone()))).await {
            Ok(r) => r,
            Err(_) => return Err(("C06:input:write-panics".into(), "write() panicked".into())),
        };
        match r {
            Ok(()) => accepted.extend(decode_rows(encode_parquet(&b)).unwrap()),
            Err(e) => {
                rejected_any = true;
                let es = e.to_string();
                if !c.tiny_buffer {
                    return Err(("C06:input:write-rejected".into(), format!("write rejected: {es}")));
                }
            }
        }
    }
    // final flush through the shutdown path
    ing.shutdown_token().cancel();
    ing.run_flush_timer().await;
    let mut have = Vec::new();
    for e in local.list_chunks().await.unwrap_or_default() {
        let data = crate::engine::store::raw_get(&mem, &e.chunk_path).await.ok_or(("C06:input:listed-chunk-missing".to_string(), e.chunk_path.clone()))?;
        let rows = decode_rows(data).map_err(|m| ("C06:input:chunk-undecodable".to_string(), m))?;
        let (mn, mx) = (rows.iter().map(|r| r.ts).min().unwrap_or(0), rows.iter().map(|r| r.ts).max().unwrap_or(0));
        if e.row_count != rows.len() as u64 {
            return Err(("C06:row_count-wrong".into(), format!("catalog {} vs {}", e.row_count, rows.len())));
        }
        if e.min_timestamp != mn {
            return Err(("C06:min_timestamp-wrong".into(), format!("catalog min {} vs true {mn}", e.min_timestamp)));
        }
        if e.max_timestamp != mx {
            return Err(("C06:max_timestamp-wrong".into(), format!("catalog max {} vs true {mx}", e.max_timestamp)));
        }
        have.extend(rows);
    }
    let mut h: Vec<_> = have.iter().map(row_key).collect();
    let mut w: Vec<_> = accepted.iter().map(row_key).collect();
    h.sort();
    w.sort();
    if h != w {
        let kind = if w.iter().any(|x| !h.contains(x)) { "accepted-row-missing-or-changed" } else { "row-stored-twice-or-rejected-row-stored" };
        return Err((format!("C06:input:{kind}"), format!("stored {h:?} != accepted {w:?}")));
    }
    Ok(rejected_any)
}

fn input_cases(tier: &str) -> Vec<InputCase> {
    let now = crate::engine::env::EPOCH_NS;
    let ts_sets: Vec<Vec<i64>> = vec![
        vec![now],
        vec![now - 5, now],
        vec![now, now - 7, now - 3],
        vec![0],
        vec![-1, 1],
        vec![-3 * HOUR - 7, 0],
        vec![-HOUR - 1, -1],
        vec![HOUR - 1, HOUR],
    ];
    let val_sets: Vec<Vec<f64>> = vec![vec![1.5, -0.0, 2.0], vec![f64::INFINITY, f64::NEG_INFINITY, f64::NAN], vec![5e-324, f64::MAX, f64::MIN_POSITIVE]];
    let host_sets: Vec<Vec<Option<String>>> = vec![vec![Some("a".into()), None, Some("".into())], vec![None, None, None]];
    let mut v = Vec::new();
    if tier == "thorough" {
        // one extreme-span batch (the hour-bucket index makes this slow: ~2.5 million buckets)
        v.push(InputCase { ts_kind: 0, timestamps: vec![i64::MIN + 1, 0], values: vec![1.0, 2.0], hosts: vec![None, None], flush_row_count: 1, byte_threshold: false, tiny_buffer: false, writes: 1 });
    }
    for ts_kind in 0..3u8 {
        for ts in &ts_sets {
            for vals in &val_sets {
                for hosts in &host_sets {
                    for frc in [1usize, 2, usize::MAX / 4] {
                        for (bt, tb) in [(false, false), (true, false), (false, true)] {
                            for writes in [1usize, 3] {
                                if tier != "thorough" && writes == 3 && (bt || frc == 2) && ts.len() == 3 {
                                    continue;
                                }
                                let n = ts.len();
                                v.push(InputCase {
                                    ts_kind,
                                    timestamps: ts.clone(),
                                    values: vals[..n].to_vec(),
                                    hosts: hosts[..n].to_vec(),
                                    flush_row_count: frc,
                                    byte_threshold: bt,
                                    tiny_buffer: tb,
                                    writes,
                                });
                            }
                        }
                    }
                }
            }
        }
    }
    v
}

pub fn run(tier: &str) -> i32 {
    let mut rep = Report::new("C06", tier, "model_checking");
    rep.assume("no crashes, no storage errors, no shard splits; the subscribers keep up with the broadcast channel (capacity 1024)");
    let t = tier == "thorough";
    let hooks: Vec<String> = ["timer:tick", "write:after_wal_append", "flush:after_register", "timer:after_take", "append:before_lock", "flush:before_upload"].iter().map(|s| s.to_string()).collect();
    let base = Params {
        name: String::new(),
        writers: vec![vec![(1, 0), (3, 1)], vec![(2, 1), (4, 0)]],
        after_restart: vec![],
        max_crashes: 1,
        after_restart2: vec![],
        max_buffer_batches: 0,
        torn_append: false,
        flush_row_count: 2,
        max_segment_size: 64 << 20,
        ticks: 1,
        hooks,
        crash: false,
        faults: false,
        subscribers: true,
    };
    let mut plans = vec![
        (Params { name: "2 writers x 2 writes, alternating schemas, 1 tick".into(), ..base.clone() }, Cost { preempt: 2, ..Cost::ZERO }),
        (Params { name: "2 writers x 2 writes, one schema, threshold 3".into(), writers: vec![vec![(1, 0), (3, 0)], vec![(2, 0), (4, 0)]], flush_row_count: 3, ..base.clone() }, Cost { preempt: 2, ..Cost::ZERO }),
    ];
    // byte-identical rows written more than once (a client re-sending a sample, two agents reporting the same
    // heartbeat): every accepted copy must be stored
    plans.push((Params { name: "identical rows, every write flushes".into(), writers: vec![vec![(1, 0), (1, 0)], vec![(1, 0), (2, 0)]], flush_row_count: 1, ticks: 0, ..base.clone() }, Cost { preempt: 1, ..Cost::ZERO }));
    plans.push((Params { name: "identical rows, threshold 2, 1 tick".into(), writers: vec![vec![(1, 0), (1, 0), (1, 0)], vec![(1, 0)]], flush_row_count: 2, ticks: 1, ..base.clone() }, Cost { preempt: 1, ..Cost::ZERO }));
    if t {
        plans.push((Params { name: "3 writers, alternating schemas, 2 ticks".into(), writers: vec![vec![(1, 0), (4, 1)], vec![(2, 1), (5, 0)], vec![(3, 0)]], ticks: 2, ..base.clone() }, Cost { preempt: 3, ..Cost::ZERO }));
        plans.push((Params { name: "2 writers x 2 writes, alternating schemas, 3 preemptions".into(), ..base.clone() }, Cost { preempt: 3, ..Cost::ZERO }));
    }
    let mut seen = BTreeSet::new();
    for (p, bounds) in plans {
        let cfg = ExploreConfig { bounds, use_cache: false, wall_cap: Duration::from_secs(if t { 900 } else { 40 }), max_steps: 500, ..Default::default() };
        let st = explore(factory(p.clone()), &cfg);
        for k in st.flags.keys() {
            seen.insert(k.clone());
        }
        println!(
            "  C06 {:<64} executions={:<8} transitions={:<9} depth={:<3} outcomes={:<4} violation-sigs={:<2} {:.1}s{}",
            p.name, st.executions, st.transitions, st.max_depth, st.outcomes.len(), st.violations.len(), st.wall_s, if st.capped { " CAPPED" } else { "" }
        );
        rep.absorb_explore(&p.name, &serde_json::to_value(&p).unwrap(), &st, bounds);
    }
    // input part
    let cases = input_cases(tier);
    let mut fails: BTreeMap<String, (String, InputCase, u64)> = BTreeMap::new();
    let mut rejected_cases = 0u64;
    let mut multi_flush = 0u64;
    {
        let e = crate::engine::env::EnvState::new();
        crate::engine::env::install(&e);
        let rt = tokio::runtime::Builder::new_current_thread().enable_all().start_paused(true).build().unwrap();
        for c in &cases {
            match rt.block_on(run_input_case(c)) {
                Ok(rej) => {
                    if rej {
                        rejected_cases += 1;
                    }
                    if c.flush_row_count <= 2 || c.byte_threshold {
                        multi_flush += 1;
                    }
                }
                Err((sig, msg)) => {
                    let e = fails.entry(sig).or_insert((msg, c.clone(), 0));
                    e.2 += 1;
                }
            }
        }
        drop(rt);
        crate::engine::env::uninstall();
    }
    println!("  C06 input shapes: cases={} (threshold-triggered flush {}, back-pressure rejections {})", cases.len(), multi_flush, rejected_cases);
    rep.add_u64("evaluations", cases.len() as u64);
    rep.add_u64("input_cases", cases.len() as u64);
    rep.add_u64("traces_validated_against_impl", cases.len() as u64);
    rep.push_sample(json!(cases.get(7)));
    for (sig, (msg, c, n)) in fails {
        rep.violation_n(&sig, &format!("{c:?}: {msg}"), json!({"kind": "input", "case": c}), n);
    }
    rep.set("rule", "concurrency: every schedule within the preemption bound of 2-3 writers (alternating schemas) + flush timer + two subscribers at store-request / catalog-call / pause-point granularity, fault-free, followed by the shutdown flush; input: every combination of timestamp type {Int64, Timestamp(ns), Timestamp(ns,UTC)} x 8 timestamp sets (extremes, negatives, hour boundaries) x 3 value sets (-0.0, +-inf, NaN, subnormal, MAX) x nullable labels x flush thresholds {1, 2, none} x {byte threshold, tiny buffer (BufferFull)} x {1, 3 writes}");
    let d = rep.get_u64("distinct_outcomes") + multi_flush;
    rep.set("distinct_nontrivial", d);
    rep.set("vacuity", json!({"observed": seen, "backpressure_rejections": rejected_cases}));
    for need in ["several_chunks", "multi_row_chunk"] {
        if !seen.contains(need) {
            rep.machinery(format!("vacuity guard: no execution showed `{need}`"));
        }
    }
    if rejected_cases == 0 {
        rep.machinery("vacuity guard: BufferFull was never produced");
    }
    wide_space(&mut rep);
    rep.finish()
}

pub fn replay(v: &serde_json::Value) -> i32 {
    if v["kind"] == "wide-case" {
        let c: WideCase = serde_json::from_value(v["case"].clone()).expect("case");
        return match run_wide_blocking(&c) {
            Ok(n) => {
                println!("case {c:?}: {n} chunk(s), every accepted row stored as written; no violation");
                0
            }
            Err((sig, msg)) => {
                println!("violation [{sig}]: {msg}");
                1
            }
        };
    }
    if v["kind"] == "input" {
        let c: InputCase = serde_json::from_value(v["case"].clone()).expect("case");
        let e = crate::engine::env::EnvState::new();
        crate::engine::env::install(&e);
        let rt = tokio::runtime::Builder::new_current_thread().enable_all().start_paused(true).build().unwrap();
        let r = rt.block_on(run_input_case(&c));
        crate::engine::env::uninstall();
        return match r {
            Ok(_) => {
                println!("no violation for {c:?}");
                0
            }
            Err((sig, msg)) => {
                println!("violation [{sig}]: {msg}");
                1
            }
        };
    }
    let p: Params = serde_json::from_value(v["params"].clone()).expect("params");
    super::replay_schedule(factory(p), v)
}

#[allow(dead_code)]
fn _unused(_: &dyn ObjectStore, _: &RecordBatch) -> Vec<i64> {
    batch_ids(&super::c01::one_row_batch(1, 0))
}

// ---------------------------------------------------------------------------------------------------------------------
// wide schemas: the columns the ingest protocols really produce (three typed value columns, several labels, a
// dictionary-encoded label, an all-null label), written through the real Ingester; the stored objects are compared with
// the Arrow batches that were accepted, value by value, without going through the repository's Parquet writer on the
// reference side.
// ---------------------------------------------------------------------------------------------------------------------

#[derive(Debug, Clone, serde::Serialize, serde::Deserialize)]
pub struct WideCase {
    pub ts_kind: u8,
    pub flush_row_count: usize,
    /// label sets of the successive writes (index into `wide_label_sets()`); a change forces a schema-change flush
    pub writes: Vec<usize>,
}

fn wide_label_sets() -> Vec<Vec<&'static str>> {
    vec![vec!["host", "env"], vec!["region"], vec![], vec!["env", "host"]]
}

fn wide_batch(c: &WideCase, w: usize) -> RecordBatch {
    use arrow_array::{DictionaryArray, UInt64Array};
    let now = crate::engine::env::EPOCH_NS;
    let n = 4usize;
    let ts_vals: Vec<i64> = (0..n as i64).map(|k| now - 1000 + (w as i64) * 10 + k).collect();
    let ts_field = match c.ts_kind {
        0 => Field::new("timestamp", DataType::Int64, false),
        _ => Field::new("timestamp", DataType::Timestamp(TimeUnit::Nanosecond, Some("UTC".into())), false),
    };
    let ts: Arc<dyn Array> = match c.ts_kind {
        0 => Arc::new(Int64Array::from(ts_vals)),
        _ => Arc::new(TimestampNanosecondArray::from(ts_vals).with_timezone("UTC")),
    };
    let mut fields = vec![
        ts_field,
        Field::new("metric_name", DataType::Utf8, false),
        Field::new("value_f64", DataType::Float64, true),
        Field::new("value_i64", DataType::Int64, true),
        Field::new("value_u64", DataType::UInt64, true),
        Field::new("id", DataType::Int64, false),
    ];
    let mut cols: Vec<Arc<dyn Array>> = vec![
        ts,
        Arc::new(StringArray::from(vec!["cpu", "mem", "cpu", "disk.io"])),
        Arc::new(Float64Array::from(vec![Some(-0.0), None, Some(f64::NAN), Some(1e308)])),
        Arc::new(Int64Array::from(vec![None, Some(i64::MIN), Some(i64::MAX), None])),
        Arc::new(UInt64Array::from(vec![Some(u64::MAX), None, None, Some((1u64 << 53) + 1)])),
        Arc::new(Int64Array::from((0..n as i64).map(|k| (w as i64) * 100 + k).collect::<Vec<_>>())),
    ];
    for l in &wide_label_sets()[c.writes[w]] {
        if *l == "env" {
            // dictionary-encoded, with a null and a repeated value
            // every producer encodes against its own dictionary: same length, other entries / entry order per write
            let vals: Vec<Option<&str>> = match w % 3 {
                0 => vec![Some("prod"), None, Some("prod"), Some("Prod ")],
                1 => vec![Some("Prod "), None, Some("prod"), Some("prod")],
                _ => vec![Some("dev"), Some("qa"), None, Some("dev")],
            };
            let d: DictionaryArray<arrow_array::types::Int32Type> = vals.into_iter().collect();
            fields.push(Field::new("env", d.data_type().clone(), true));
            cols.push(Arc::new(d));
        } else {
            fields.push(Field::new(*l, DataType::Utf8, true));
            cols.push(Arc::new(StringArray::from(vec![Some(format!("{l}-a")), Some(String::new()), None, Some(format!("{l}-\u{e9}\"',"))])));
        }
    }
    // a label no row of this batch carries
    fields.push(Field::new("zone", DataType::Utf8, true));
    cols.push(Arc::new(StringArray::from(vec![None::<&str>; n])));
    RecordBatch::try_new(Arc::new(Schema::new(fields)), cols).expect("wide batch")
}

async fn run_wide_case(c: &WideCase) -> Result<usize, (String, String)> {
    let mem = new_mem();
    let local = Arc::new(LocalMetadataClient::new());
    let cfg = IngesterConfig {
        flush_interval: Duration::from_secs(3600),
        flush_row_count: c.flush_row_count,
        flush_size_bytes: usize::MAX / 4,
        max_buffer_size_bytes: usize::MAX / 4,
        wal: WalConfig { enabled: false, ..WalConfig::default() },
        ..IngesterConfig::default()
    };
    let ing = Arc::new(Ingester::new(cfg, mem.clone(), local.clone() as Arc<dyn MetadataClient>, storage_config(), MetricSchema::default_metrics()));
    let mut want: Vec<String> = Vec::new();
    for w in 0..c.writes.len() {
        let b = wide_batch(c, w);
        match futures::FutureExt::catch_unwind(std::panic::AssertUnwindSafe(ing.write(b.clone()))).await {
            Ok(Ok(())) => want.extend(whole_rows_of_batch(&b).map_err(|e| ("C06:machinery:render".to_string(), e))?),
            Ok(Err(e)) => return Err(("C06:wide:write-rejected-fault-free".into(), format!("write {w} rejected: {e}"))),
            Err(_) => return Err(("C06:wide:write-panics".into(), format!("write {w} panicked"))),
        }
    }
    ing.shutdown_token().cancel();
    ing.run_flush_timer().await;
    let mut got: Vec<String> = Vec::new();
    let listed = local.list_chunks().await.unwrap_or_default();
    for e in &listed {
        let data = crate::engine::store::raw_get(&mem, &e.chunk_path).await.ok_or(("C06:wide:listed-chunk-missing".to_string(), e.chunk_path.clone()))?;
        let rows = whole_rows(data).map_err(|m| ("C06:wide:chunk-undecodable".to_string(), m))?;
        if e.row_count != rows.len() as u64 {
            return Err(("C06:row_count-wrong".into(), format!("catalog {} vs {} rows in {}", e.row_count, rows.len(), e.chunk_path)));
        }
        got.extend(rows);
    }
    want.sort();
    got.sort();
    if want != got {
        let lost: Vec<&String> = want.iter().filter(|r| !got.contains(r)).collect();
        let new: Vec<&String> = got.iter().filter(|r| !want.contains(r)).collect();
        let kind = if got.len() != want.len() { "row-count-changed" } else { "row-content-changed" };
        return Err((format!("C06:wide:{kind}"), format!("accepted rows not stored as written {lost:?}; stored rows that were not written {new:?}")));
    }
    Ok(listed.len())
}

fn wide_cases() -> Vec<WideCase> {
    let n = wide_label_sets().len();
    let mut v = Vec::new();
    for ts_kind in [0u8, 2] {
        for frc in [1usize, 5, usize::MAX / 4] {
            for a in 0..n {
                v.push(WideCase { ts_kind, flush_row_count: frc, writes: vec![a] });
                for b in 0..n {
                    v.push(WideCase { ts_kind, flush_row_count: frc, writes: vec![a, b] });
                    v.push(WideCase { ts_kind, flush_row_count: frc, writes: vec![a, b, a] });
                }
            }
        }
    }
    v
}

fn run_wide_blocking(c: &WideCase) -> Result<usize, (String, String)> {
    let c = c.clone();
    std::thread::spawn(move || {
        let e = crate::engine::env::EnvState::new();
        crate::engine::env::install(&e);
        let rt = tokio::runtime::Builder::new_current_thread().enable_all().start_paused(true).build().unwrap();
        let r = rt.block_on(run_wide_case(&c));
        drop(rt);
        crate::engine::env::uninstall();
        r
    })
    .join()
    .unwrap_or_else(|_| Err(("C06:machinery:case-panicked".into(), "the case panicked".into())))
}

fn wide_space(rep: &mut Report) {
    let cs = wide_cases();
    let t0 = std::time::Instant::now();
    let (mut chunks, mut multi) = (0u64, 0u64);
    let mut viol: BTreeMap<String, (String, WideCase, u64)> = BTreeMap::new();
    for c in &cs {
        match run_wide_blocking(c) {
            Ok(n) => {
                chunks += n as u64;
                if n > 1 {
                    multi += 1;
                }
            }
            Err((sig, msg)) => {
                let e = viol.entry(sig).or_insert((msg, c.clone(), 0));
                e.2 += 1;
            }
        }
    }
    println!("  C06 wide schemas: cases={} chunks-written={} cases-with-several-chunks={} violation-sigs={} {:.1}s", cs.len(), chunks, multi, viol.len(), t0.elapsed().as_secs_f64());
    rep.add_u64("evaluations", cs.len() as u64);
    rep.add_u64("executions", cs.len() as u64);
    rep.set("wide_schemas", json!({"cases": cs.len(), "chunks_written": chunks, "cases_with_several_chunks": multi,
        "rule": "1-3 successive writes of 4-row batches with value_f64 / value_i64 / value_u64 (extremes, NaN, -0.0, nulls), 4 label sets (incl. a dictionary-encoded label whose dictionary differs from write to write, and an all-null label; a change of label set forces a schema-change flush) x {Int64, Timestamp(ns,UTC)} x flush thresholds {1, 5, none}; stored objects vs the accepted Arrow batches, every non-null value (floats by bit pattern)"}));
    if multi == 0 {
        rep.machinery("vacuity guard: no wide-schema case wrote more than one chunk");
    }
    for (sig, (msg, c, n)) in viol {
        if sig.contains("machinery") {
            rep.machinery(format!("{sig}: {msg}"));
        } else {
            rep.violation_n(&sig, &format!("{c:?}: {msg}"), json!({"kind": "wide-case", "case": c}), n);
        }
    }
}
