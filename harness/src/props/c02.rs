//! C02 — catalog mutations are atomic and never lost under concurrency (engine A, multi-node).

use super::common::*;
use crate::engine::report::Report;
use crate::engine::sched::*;
use crate::engine::store::{GatedStore, StoreLog};
use async_trait::async_trait;
use cardinalsin::metadata::MetadataClient;
use object_store::ObjectStore;
use serde_json::json;
use std::collections::BTreeMap;
use std::sync::atomic::{AtomicU64, Ordering};
use std::sync::{Arc, Mutex};
use std::time::Duration;

#[derive(Debug, Clone, serde::Serialize, serde::Deserialize, PartialEq, Eq, Hash)]
pub enum Op {
    /// register a new chunk `path` covering hours [h0, h1]
    Reg(String, i64, i64),
    Del(String),
    /// complete_compaction(sources, target)
    Compact(Vec<String>, String),
    /// complete_compaction_with_target(sources, target chunk covering hours [h0, h1]): what the compactor calls
    CompactWith(Vec<String>, String, i64, i64),
}

#[derive(Debug, Clone, serde::Serialize, serde::Deserialize)]
pub struct Program {
    pub name: String,
    /// chunks registered before the race starts: (path, h0, h1)
    pub initial: Vec<(String, i64, i64)>,
    pub clients: Vec<Vec<Op>>,
}

type Model = BTreeMap<String, (i64, i64, u32)>;

fn iv(h0: i64, h1: i64) -> (i64, i64) {
    (h0 * HOUR + 5, h1 * HOUR + 7)
}

/// Sequential reference semantics. Returns false when the op fails (and then has no effect).
fn apply(m: &mut Model, op: &Op) -> bool {
    match op {
        Op::Reg(p, h0, h1) => {
            let (a, b) = iv(*h0, *h1);
            m.insert(p.clone(), (a, b, 0));
            true
        }
        Op::Del(p) => {
            m.remove(p);
            true
        }
        Op::Compact(src, tgt) => {
            let lvl = src.iter().filter_map(|p| m.get(p).map(|e| e.2)).max().unwrap_or(0) + 1;
            let mut m2 = m.clone();
            for p in src {
                m2.remove(p);
            }
            match m2.get_mut(tgt) {
                Some(e) => {
                    e.2 = lvl;
                    *m = m2;
                    true
                }
                None => false,
            }
        }
        Op::CompactWith(src, tgt, h0, h1) => {
            // refuses (without effect) when a source is gone; otherwise swaps the sources for the new target
            if src.iter().any(|p| !m.contains_key(p)) {
                return false;
            }
            let lvl = src.iter().filter_map(|p| m.get(p).map(|e| e.2)).max().unwrap_or(0) + 1;
            for p in src {
                m.remove(p);
            }
            let (a, b) = iv(*h0, *h1);
            m.insert(tgt.clone(), (a, b, lvl));
            true
        }
    }
}

#[derive(Debug, Clone)]
struct OpRec {
    client: usize,
    idx: usize,
    op: Op,
    call: u64,
    ret: Option<u64>,
    ok: Option<bool>,
    err: Option<String>,
}

pub struct C02Scenario {
    prog: Program,
    mem: Arc<dyn ObjectStore>,
    log: Arc<StoreLog>,
    stores: Vec<Arc<GatedStore>>,
    recs: Arc<Mutex<Vec<OpRec>>>,
    clock: Arc<AtomicU64>,
    checked_versions: usize,
    ever_visible: std::collections::BTreeSet<String>,
}

impl C02Scenario {
    pub fn new(prog: Program) -> Self {
        Self {
            prog,
            mem: new_mem(),
            log: StoreLog::new(),
            stores: Vec::new(),
            recs: Arc::new(Mutex::new(Vec::new())),
            clock: Arc::new(AtomicU64::new(0)),
            checked_versions: 0,
            ever_visible: Default::default(),
        }
    }

    /// (a) every catalog version ever written is self-consistent; checked as soon as it is written
    fn check_new_versions(&mut self) -> Vec<Violation> {
        let mut out = Vec::new();
        let versions = self.log.versions(CATALOG);
        for v in versions.iter().skip(self.checked_versions) {
            match parse_catalog(v.payload.as_deref().unwrap_or_default()) {
                Err(e) => out.push(Violation { sig: "C02:version-unparsable".into(), msg: e }),
                Ok(c) => {
                    if let Err(e) = catalog_consistent(&c) {
                        out.push(Violation {
                            sig: "C02:version-inconsistent".into(),
                            msg: format!("catalog version #{} written by {}: {e}", v.seq, v.actor),
                        });
                    }
                    for p in c.chunks.keys() {
                        self.ever_visible.insert(p.clone());
                    }
                }
            }
        }
        self.checked_versions = versions.len();
        out
    }
}

#[async_trait(?Send)]
impl Scenario for C02Scenario {
    async fn setup(&mut self, ctl: &Ctl) {
        if !self.prog.initial.is_empty() {
            let c = os_client(self.mem.clone());
            for (p, h0, h1) in &self.prog.initial {
                let (a, b) = iv(*h0, *h1);
                c.register_chunk(p, &chunk_meta(p, a, b)).await.expect("initial register");
            }
        }
        for (ci, ops) in self.prog.clients.iter().enumerate() {
            let node = format!("N{ci}");
            let gs = GatedStore::new(self.mem.clone(), &node, ctl, &self.log);
            self.stores.push(gs.clone());
            let client = os_client(gs as Arc<dyn ObjectStore>);
            let ops = ops.clone();
            let recs = self.recs.clone();
            let clock = self.clock.clone();
            ctl.spawn(&node, &node, async move {
                for (idx, op) in ops.into_iter().enumerate() {
                    let call = clock.fetch_add(1, Ordering::SeqCst);
                    let slot = {
                        let mut r = recs.lock().unwrap();
                        r.push(OpRec { client: ci, idx, op: op.clone(), call, ret: None, ok: None, err: None });
                        r.len() - 1
                    };
                    let res = match &op {
                        Op::Reg(p, h0, h1) => {
                            let (a, b) = iv(*h0, *h1);
                            client.register_chunk(p, &chunk_meta(p, a, b)).await
                        }
                        Op::Del(p) => client.delete_chunk(p).await,
                        Op::Compact(s, t) => client.complete_compaction(s, t).await,
                        Op::CompactWith(s, t, h0, h1) => {
                            let (a, b) = iv(*h0, *h1);
                            client.complete_compaction_with_target(s, &chunk_meta(t, a, b)).await
                        }
                    };
                    let ret = clock.fetch_add(1, Ordering::SeqCst);
                    let mut r = recs.lock().unwrap();
                    r[slot].ret = Some(ret);
                    r[slot].ok = Some(res.is_ok());
                    r[slot].err = res.err().map(|e| e.to_string());
                }
            });
        }
    }

    async fn step_check(&mut self, _ctl: &Ctl) -> Vec<Violation> {
        self.check_new_versions()
    }

    fn fingerprint(&self, _ctl: &Ctl) -> Option<u64> {
        let img = now_or_never(store_image(&self.mem));
        let recs: Vec<(usize, usize, Option<bool>)> = self.recs.lock().unwrap().iter().map(|r| (r.client, r.idx, r.ok)).collect();
        // real-time order between completed operations matters to the oracle
        let order: Vec<(usize, usize, u64, Option<u64>)> =
            self.recs.lock().unwrap().iter().map(|r| (r.client, r.idx, r.call, r.ret)).collect();
        let order_rel: Vec<(usize, usize, usize, usize)> = {
            let mut v = Vec::new();
            for a in &order {
                for b in &order {
                    if let Some(ra) = a.3 {
                        if ra < b.2 {
                            v.push((a.0, a.1, b.0, b.1));
                        }
                    }
                }
            }
            v
        };
        let nodes: Vec<u64> = self.stores.iter().map(|s| s.resp()).collect();
        let versions: Vec<String> = self.ever_visible.iter().cloned().collect();
        Some(hash_of(&(img, recs, order_rel, nodes, versions)))
    }

    async fn finish(&mut self, ctl: &Ctl) -> Finish {
        let mut f = Finish::default();
        let recs = self.recs.lock().unwrap().clone();
        let unfinished = ctl.unfinished_actors();
        if !unfinished.is_empty() {
            f.violations.push(Violation {
                sig: "C02:stuck".into(),
                msg: format!("clients never finished: {unfinished:?}"),
            });
            return f;
        }
        for (a, m) in ctl.panics() {
            f.violations.push(Violation { sig: "C02:panic".into(), msg: format!("client {a} panicked: {m}") });
        }
        f.violations.extend(self.check_new_versions());
        let versions = self.log.versions(CATALOG);
        // (c) a registration that reported failure appears in no version
        for r in &recs {
            if r.ok == Some(false) {
                if let Op::Reg(p, _, _) | Op::CompactWith(_, p, _, _) = &r.op {
                    let unique = recs.iter().filter(|o| matches!(&o.op, Op::Reg(q, _, _) | Op::CompactWith(_, q, _, _) if q == p)).count() == 1
                        && !self.prog.initial.iter().any(|(q, _, _)| q == p);
                    if unique && self.ever_visible.contains(p) {
                        f.violations.push(Violation {
                            sig: "C02:failed-op-visible".into(),
                            msg: format!("{:?} returned Err({:?}) but a catalog version lists {p}", r.op, r.err),
                        });
                    }
                }
            }
        }
        // (b) final state = some one-at-a-time order of the Ok operations, consistent with real time
        let fresh = os_client(self.mem.clone());
        let listed: Vec<String> = {
            let mut l: Vec<String> = fresh.list_chunks().await.map(|v| v.into_iter().map(|e| e.chunk_path).collect()).unwrap_or_default();
            l.sort();
            l
        };
        let final_view: Model = match crate::engine::store::raw_get(&self.mem, CATALOG).await {
            Some(b) => parse_catalog(&b).map(|c| catalog_view(&c)).unwrap_or_default(),
            None => Model::new(),
        };
        if listed != final_view.keys().cloned().collect::<Vec<_>>() {
            f.violations.push(Violation {
                sig: "C02:list-vs-object".into(),
                msg: format!("fresh client lists {listed:?} but catalog.json holds {:?}", final_view.keys().collect::<Vec<_>>()),
            });
        }
        let mut init = Model::new();
        for (p, h0, h1) in &self.prog.initial {
            let (a, b) = iv(*h0, *h1);
            init.insert(p.clone(), (a, b, 0));
        }
        let oks: Vec<&OpRec> = recs.iter().filter(|r| r.ok == Some(true)).collect();
        let mut found = false;
        let mut orders = 0u64;
        let mut perm: Vec<usize> = Vec::new();
        let mut used = vec![false; oks.len()];
        fn rec(
            oks: &[&OpRec],
            used: &mut Vec<bool>,
            perm: &mut Vec<usize>,
            m: &Model,
            target: &Model,
            found: &mut bool,
            orders: &mut u64,
        ) {
            if *found {
                return;
            }
            if perm.len() == oks.len() {
                *orders += 1;
                if m == target {
                    *found = true;
                }
                return;
            }
            for i in 0..oks.len() {
                if used[i] {
                    continue;
                }
                // real-time order: every op that returned before oks[i] was called must already be placed
                let blocked = (0..oks.len()).any(|j| j != i && !used[j] && oks[j].ret.unwrap_or(u64::MAX) < oks[i].call);
                if blocked {
                    continue;
                }
                let mut m2 = m.clone();
                if !apply(&mut m2, &oks[i].op) {
                    continue; // an Ok operation must succeed at its linearisation point
                }
                used[i] = true;
                perm.push(i);
                rec(oks, used, perm, &m2, target, found, orders);
                perm.pop();
                used[i] = false;
            }
        }
        rec(&oks, &mut used, &mut perm, &init, &final_view, &mut found, &mut orders);
        if !found {
            let desc: Vec<String> = recs.iter().map(|r| format!("N{}.{} {:?} -> {}", r.client, r.idx, r.op, if r.ok == Some(true) { "Ok".to_string() } else { format!("Err({})", r.err.clone().unwrap_or_default()) })).collect();
            f.violations.push(Violation {
                sig: "C02:not-linearizable".into(),
                msg: format!(
                    "final catalog {:?} is not the result of any one-at-a-time order of the successful operations (initial {:?}); operations: {desc:?}",
                    final_view, init
                ),
            });
        }
        // outcome + flags
        let n_conflicts = self.log.snapshot().iter().filter(|e| e.kind == "PUT" && !e.ok && e.path.ends_with("catalog.json")).count();
        if n_conflicts > 0 {
            f.flags.push("cas_conflict_and_retry".into());
        }
        if recs.iter().any(|r| r.err.as_deref().map(|e| e.contains("Too many")).unwrap_or(false) || r.err.as_deref().map(|e| e.to_lowercase().contains("retries")).unwrap_or(false)) {
            f.flags.push("retry_exhausted".into());
        }
        if recs.iter().any(|r| r.ok == Some(false)) {
            f.flags.push("some_op_failed".into());
        }
        // which client's PUT landed first (linearisation order witness)
        let put_order: Vec<String> = versions.iter().map(|v| v.actor.clone()).collect();
        f.flags.push(format!("order:{}", put_order.join(">")));
        f.outcome = format!(
            "{:?}|{:?}",
            final_view,
            recs.iter().map(|r| (r.client, r.idx, r.ok)).collect::<Vec<_>>()
        );
        f
    }
}

fn s(x: &str) -> String {
    x.to_string()
}

pub fn programs(tier: &str) -> Vec<Program> {
    let pop = vec![(s("p0"), 1, 1), (s("p1"), 1, 1), (s("p2"), 1, 3)];
    let mut v = vec![
        Program { name: s("reg-reg/populated"), initial: pop.clone(), clients: vec![vec![Op::Reg(s("a"), 1, 1)], vec![Op::Reg(s("b"), 2, 4)]] },
        Program { name: s("reg-reg/empty-store"), initial: vec![], clients: vec![vec![Op::Reg(s("a"), 1, 1)], vec![Op::Reg(s("b"), 2, 4)]] },
        Program {
            name: s("regdel-compact"),
            initial: pop.clone(),
            clients: vec![vec![Op::Reg(s("a"), 1, 2), Op::Del(s("p0"))], vec![Op::Compact(vec![s("p0"), s("p1")], s("p2"))]],
        },
        Program { name: s("del-del-same"), initial: pop.clone(), clients: vec![vec![Op::Del(s("p0"))], vec![Op::Del(s("p0")), Op::Reg(s("b"), 0, 0)]] },
        Program {
            name: s("compact-compact-same-target"),
            initial: pop.clone(),
            clients: vec![vec![Op::Compact(vec![s("p0")], s("p2"))], vec![Op::Compact(vec![s("p1")], s("p2"))]],
        },
        Program {
            name: s("compact-unknown-target-vs-register"),
            initial: pop.clone(),
            clients: vec![vec![Op::Compact(vec![s("p0"), s("p1")], s("t"))], vec![Op::Reg(s("t"), 1, 1)]],
        },
        Program {
            name: s("reg-then-delete-own/empty-store"),
            initial: vec![],
            clients: vec![vec![Op::Reg(s("a"), 1, 1), Op::Del(s("a"))], vec![Op::Reg(s("b"), 1, 2)]],
        },
        Program {
            name: s("regreg-regdel"),
            initial: pop.clone(),
            clients: vec![vec![Op::Reg(s("a"), 1, 1), Op::Reg(s("c"), 2, 2)], vec![Op::Reg(s("b"), 1, 1), Op::Del(s("p1"))]],
        },
    ];
    v.push(Program {
        name: s("compactwith-overlapping-sources"),
        initial: pop.clone(),
        clients: vec![vec![Op::CompactWith(vec![s("p0"), s("p1")], s("t1"), 1, 1)], vec![Op::CompactWith(vec![s("p1"), s("p2")], s("t2"), 1, 3)]],
    });
    v.push(Program {
        name: s("compactwith-same-sources"),
        initial: pop.clone(),
        clients: vec![vec![Op::CompactWith(vec![s("p0"), s("p1")], s("t1"), 1, 1)], vec![Op::CompactWith(vec![s("p0"), s("p1")], s("t2"), 1, 1)]],
    });
    v.push(Program {
        name: s("compactwith-vs-delete-of-a-source"),
        initial: pop.clone(),
        clients: vec![vec![Op::CompactWith(vec![s("p0"), s("p1")], s("t"), 1, 1)], vec![Op::Del(s("p1")), Op::Reg(s("b"), 2, 2)]],
    });
    v.push(Program {
        name: s("compactwith-chain"),
        initial: pop.clone(),
        clients: vec![vec![Op::CompactWith(vec![s("p0"), s("p1")], s("t1"), 1, 1), Op::CompactWith(vec![s("t1"), s("p2")], s("t2"), 1, 3)], vec![Op::Reg(s("a"), 1, 1), Op::Compact(vec![s("p2")], s("a"))]],
    });
    if tier == "thorough" {
        v.push(Program {
            name: s("three-clients-compactwith"),
            initial: pop.clone(),
            clients: vec![
                vec![Op::CompactWith(vec![s("p0"), s("p1")], s("t1"), 1, 1)],
                vec![Op::CompactWith(vec![s("p1"), s("p2")], s("t2"), 1, 3)],
                vec![Op::CompactWith(vec![s("p0"), s("p2")], s("t3"), 1, 3)],
            ],
        });
        v.push(Program {
            name: s("three-clients-reg"),
            initial: vec![],
            clients: vec![vec![Op::Reg(s("a"), 1, 1)], vec![Op::Reg(s("b"), 1, 2)], vec![Op::Reg(s("c"), 3, 3)]],
        });
        v.push(Program {
            name: s("three-clients-mixed"),
            initial: pop.clone(),
            clients: vec![
                vec![Op::Reg(s("a"), 1, 1), Op::Compact(vec![s("p0"), s("p1")], s("a"))],
                vec![Op::Del(s("p1")), Op::Reg(s("b"), 0, 5)],
                vec![Op::Compact(vec![s("p2")], s("p0"))],
            ],
        });
        // conflict-retry exhaustion: the victim loses five CAS rounds against one adversary (2 clients: all interleavings)
        let adversary: Vec<Op> = (1..=6).map(|i| Op::Reg(format!("a{i}"), 1, 1)).collect();
        v.push(Program { name: s("retry-exhaustion/delete"), initial: pop.clone(), clients: vec![vec![Op::Del(s("p0"))], adversary.clone()] });
        v.push(Program { name: s("retry-exhaustion/compact"), initial: pop.clone(), clients: vec![vec![Op::Compact(vec![s("p0"), s("p1")], s("p2"))], adversary.clone()] });
        v.push(Program { name: s("retry-exhaustion/register"), initial: pop.clone(), clients: vec![vec![Op::Reg(s("v"), 2, 3)], adversary] });
    }
    v
}

/// Generated family: every unordered pair of client programs of 1..=max_len operations over the alphabet
/// below, on the populated catalog {p0, p1 (hour 1), p2 (hours 1-3)}. Both clients draw from the same
/// alphabet, so identical operations collide too.
pub fn generated_programs(max_len: usize) -> Vec<Program> {
    let pop = vec![(s("p0"), 1, 1), (s("p1"), 1, 1), (s("p2"), 1, 3)];
    let alphabet: Vec<Op> = vec![
        Op::Reg(s("a"), 1, 1),
        Op::Reg(s("p0"), 2, 4), // re-registration of a live path with another interval
        Op::Del(s("p0")),
        Op::Del(s("p1")),
        Op::Compact(vec![s("p0"), s("p1")], s("p2")),
        Op::Compact(vec![s("p1")], s("a")), // target known only if a registration came first
        Op::CompactWith(vec![s("p0"), s("p1")], s("t1"), 1, 1),
        Op::CompactWith(vec![s("p1"), s("p2")], s("t2"), 1, 3),
    ];
    let mut seqs: Vec<Vec<Op>> = Vec::new();
    for a in &alphabet {
        seqs.push(vec![a.clone()]);
    }
    if max_len >= 2 {
        for a in &alphabet {
            for b in &alphabet {
                seqs.push(vec![a.clone(), b.clone()]);
            }
        }
    }
    let mut v = Vec::new();
    for i in 0..seqs.len() {
        for j in i..seqs.len() {
            v.push(Program { name: format!("gen/{i}x{j}"), initial: pop.clone(), clients: vec![seqs[i].clone(), seqs[j].clone()] });
        }
    }
    v
}

/// The same on a store that holds no catalog yet (create-if-absent race, legacy-format fallback reads).
pub fn generated_programs_empty_store() -> Vec<Program> {
    let alphabet: Vec<Op> = vec![
        Op::Reg(s("a"), 1, 1),
        Op::Reg(s("b"), 2, 4),
        Op::Del(s("a")),
        Op::CompactWith(vec![s("a")], s("t1"), 1, 2),
        Op::Compact(vec![s("a")], s("b")),
    ];
    let mut seqs: Vec<Vec<Op>> = Vec::new();
    for a in &alphabet {
        seqs.push(vec![a.clone()]);
    }
    for a in &alphabet {
        for b in &alphabet {
            seqs.push(vec![a.clone(), b.clone()]);
        }
    }
    let mut v = Vec::new();
    for i in 0..seqs.len() {
        for j in i..seqs.len() {
            v.push(Program { name: format!("gen-empty/{i}x{j}"), initial: vec![], clients: vec![seqs[i].clone(), seqs[j].clone()] });
        }
    }
    v
}

pub fn factory(prog: Program) -> ScenarioFactory {
    Arc::new(move || Box::new(C02Scenario::new(prog.clone())) as Box<dyn Scenario>)
}

pub fn run(tier: &str) -> i32 {
    let mut rep = Report::new("C02", tier, "model_checking");
    rep.assume("interleavings are explored at object-store-request granularity (one request = one atomic step); the backing store is object_store::memory::InMemory, whose conditional PUT (create / update-if-ETag) is atomic");
    rep.assume("no injected faults: the property quantifies over schedules and histories");
    let mut conflict_seen = false;
    let mut orders_seen = std::collections::BTreeSet::new();
    let mut exhausted_seen = false;
    for prog in programs(tier) {
        let three = prog.clients.len() >= 3;
        let cfg = ExploreConfig {
            // 2 clients: all interleavings (no preemption bound); 3 clients: preemption bound
            bounds: Cost { preempt: if three { 4 } else { 1000 }, ..Cost::ZERO },
            use_cache: true,
            wall_cap: Duration::from_secs(if tier == "thorough" { 900 } else { 120 }),
            ..Default::default()
        };
        let st = explore(factory(prog.clone()), &cfg);
        if st.flags.contains_key("cas_conflict_and_retry") {
            conflict_seen = true;
        }
        if st.flags.contains_key("retry_exhausted") {
            exhausted_seen = true;
        }
        for k in st.flags.keys() {
            if let Some(o) = k.strip_prefix("order:") {
                orders_seen.insert(format!("{}:{o}", prog.name));
            }
        }
        println!(
            "  C02 {:<40} executions={:<7} states={:<7} pruned={:<7} depth={:<3} outcomes={:<3} {:.1}s{}",
            prog.name, st.executions, st.states, st.pruned, st.max_depth, st.outcomes.len(), st.wall_s, if st.capped { " CAPPED" } else { "" }
        );
        rep.absorb_explore(&prog.name, &serde_json::to_value(&prog).unwrap(), &st, cfg.bounds);
    }
    // generated family: every pair of client programs over the operation alphabet
    {
        let max_len = 2;
        let progs = generated_programs(max_len);
        let quick_subset = tier != "thorough";
        // quick: 1 op vs 1 op, 1 op vs 2 ops, and every 3rd 2-vs-2 pair; thorough: all pairs
        let mut progs: Vec<Program> = progs
            .into_iter()
            .enumerate()
            .filter(|(k, p)| !quick_subset || p.clients[0].len() == 1 || k % 3 == 0)
            .map(|(_, p)| p)
            .collect();
        // plus every pair over a 5-operation alphabet on an empty store (quick: every 2nd pair)
        progs.extend(generated_programs_empty_store().into_iter().enumerate().filter(|(k, _)| !quick_subset || k % 2 == 0).map(|(_, p)| p));
        let t0 = std::time::Instant::now();
        let bounds = Cost { preempt: 1000, ..Cost::ZERO };
        let stats = explore_many(progs.iter().map(|p| factory(p.clone())).collect(), &|_| ExploreConfig {
            bounds,
            use_cache: true,
            wall_cap: Duration::from_secs(600),
            selftest: 1,
            ..Default::default()
        });
        let (mut ex, mut stt, mut tr, mut outc, mut multi) = (0u64, 0u64, 0u64, 0u64, 0u64);
        for (p, st) in progs.iter().zip(stats.iter()) {
            ex += st.executions;
            stt += st.states;
            tr += st.transitions;
            outc += st.outcomes.len() as u64;
            if st.outcomes.len() > 1 {
                multi += 1;
            }
            if st.flags.contains_key("cas_conflict_and_retry") {
                conflict_seen = true;
            }
            rep.absorb_explore_compact(&p.name, &serde_json::to_value(p).unwrap(), st, bounds);
        }
        println!(
            "  C02 generated: {} programs (2 clients x 1..={} ops over 8 operations on a populated catalog and over 5 operations on an empty store, all interleavings) executions={} states={} outcomes={} programs-with-several-outcomes={} {:.1}s",
            progs.len(), max_len, ex, stt, outc, multi, t0.elapsed().as_secs_f64()
        );
        let scen = rep.coverage.entry("scenarios".to_string()).or_insert_with(|| json!([]));
        if let Some(a) = scen.as_array_mut() {
            a.push(json!({"scenario": "generated family", "programs": progs.len(), "clients": 2, "ops_per_client": format!("1..={max_len}"), "alphabet": 8,
                "bounds_completed": {"preemptions": "unbounded"}, "executions": ex, "states": stt, "transitions": tr, "distinct_outcomes_summed": outc, "programs_with_several_outcomes": multi}));
        }
        if multi == 0 {
            rep.machinery("vacuity guard: no generated program had more than one outcome");
        }
    }
    rep.set("rule", "an execution = one complete interleaving of the clients' object-store requests; distinct = distinct state fingerprints (store image + every node's response history + operation results)");
    let d = rep.get_u64("states");
    rep.set("distinct_nontrivial", d);
    rep.set("vacuity", json!({"cas_conflict_and_retry_seen": conflict_seen, "distinct_put_orders": orders_seen.len(), "retry_exhaustion_seen": exhausted_seen}));
    if !conflict_seen {
        rep.machinery("vacuity guard: no execution contained a CAS conflict and retry");
    }
    if orders_seen.len() < 2 {
        rep.machinery("vacuity guard: fewer than two distinct linearisation orders observed");
    }
    if tier == "thorough" && !exhausted_seen {
        rep.machinery("vacuity guard: the retry-exhaustion scenario never exhausted the retries");
    }
    rep.finish()
}

pub fn replay(v: &serde_json::Value) -> i32 {
    let prog: Program = serde_json::from_value(v["params"].clone()).expect("params");
    super::replay_schedule(factory(prog), v)
}
