//! C08 — compaction leases are exclusive while live and reclaimable once expired
//! (engine A multi-node + wall-clock jumps as transitions).

use super::common::*;
use crate::engine::meta::GatedMeta;
use crate::engine::report::Report;
use crate::engine::sched::*;
use crate::engine::store::{GatedStore, StoreLog};
use async_trait::async_trait;
use cardinalsin::metadata::{CompactionLeases, LeaseStatus, LocalMetadataClient, MetadataClient};
use object_store::ObjectStore;
use serde_json::json;
use std::collections::BTreeSet;
use std::sync::{Arc, Mutex};
use std::time::Duration;

#[derive(Debug, Clone, serde::Serialize, serde::Deserialize, PartialEq, Eq, Hash)]
pub enum Op {
    Acquire(Vec<String>),
    Renew,
    Complete,
    Fail,
    Scavenge,
}

#[derive(Debug, Clone, serde::Serialize, serde::Deserialize)]
pub struct Program {
    pub name: String,
    pub backend: String,
    /// start from a lease file that already holds a completed lease of somebody else
    pub preexisting: bool,
    pub clients: Vec<Vec<Op>>,
    /// wall-clock jumps offered as transitions (seconds)
    pub jumps: Vec<i64>,
}

#[derive(Debug, Clone, Hash)]
struct Belief {
    node: usize,
    lease_id: String,
    chunks: Vec<String>,
    /// wall ns until which the node may believe it holds the lease
    expiry_ns: i64,
    released: bool,
    /// another node's overlapping acquire succeeded after this lease was acquired
    reclaimed: bool,
}

#[derive(Debug, Clone, Hash)]
struct OpRec {
    client: usize,
    idx: usize,
    op: Op,
    ok: Option<bool>,
    err: Option<String>,
}

#[derive(Default)]
struct SharedState {
    recs: Vec<OpRec>,
    beliefs: Vec<Belief>,
    violations: Vec<Violation>,
}

pub struct C08Scenario {
    prog: Program,
    mem: Arc<dyn ObjectStore>,
    local: Arc<LocalMetadataClient>,
    log: Arc<StoreLog>,
    stores: Vec<Arc<GatedStore>>,
    shared: Arc<Mutex<SharedState>>,
    checked_versions: usize,
}

impl C08Scenario {
    pub fn new(prog: Program) -> Self {
        Self {
            prog,
            mem: new_mem(),
            local: Arc::new(LocalMetadataClient::new()),
            log: StoreLog::new(),
            stores: Vec::new(),
            shared: Arc::new(Mutex::new(SharedState::default())),
            checked_versions: 0,
        }
    }
    fn is_os(&self) -> bool {
        self.prog.backend == "object-store"
    }
}

fn overlap(a: &[String], b: &[String]) -> bool {
    a.iter().any(|x| b.contains(x))
}

/// (M): in one version of the lease set, evaluated at wall `now_ns`, no two active unexpired leases
/// share a chunk.
fn check_lease_set(l: &CompactionLeases, now_ns: i64, who: &str) -> Option<Violation> {
    let live: Vec<_> = l
        .leases
        .values()
        .filter(|x| x.status == LeaseStatus::Active && x.expires_at.timestamp_nanos_opt().unwrap_or(0) > now_ns)
        .collect();
    for i in 0..live.len() {
        for j in i + 1..live.len() {
            if overlap(&live[i].chunks, &live[j].chunks) {
                return Some(Violation {
                    sig: "C08:two-live-leases-share-a-chunk".into(),
                    msg: format!(
                        "{who}: leases of {} ({:?}, expires {}) and {} ({:?}, expires {}) are both active and unexpired at wall {} s",
                        live[i].holder_id,
                        live[i].chunks,
                        live[i].expires_at,
                        live[j].holder_id,
                        live[j].chunks,
                        live[j].expires_at,
                        (now_ns - crate::engine::env::EPOCH_NS) / 1_000_000_000
                    ),
                });
            }
        }
    }
    None
}

#[async_trait(?Send)]
impl Scenario for C08Scenario {
    async fn setup(&mut self, ctl: &Ctl) {
        let os = self.is_os();
        if self.prog.preexisting {
            let c: Arc<dyn MetadataClient> = if os { Arc::new(os_client(self.mem.clone())) } else { self.local.clone() };
            let l = c.acquire_lease("old-node", &["c9".to_string()], 0).await.expect("pre lease");
            c.complete_lease(&l.lease_id).await.expect("pre complete");
        }
        for (ci, ops) in self.prog.clients.iter().enumerate() {
            let node = format!("N{ci}");
            let client: Arc<dyn MetadataClient> = if os {
                let gs = GatedStore::new(self.mem.clone(), &node, ctl, &self.log);
                self.stores.push(gs.clone());
                Arc::new(os_client(gs as Arc<dyn ObjectStore>))
            } else {
                GatedMeta::with_filter(self.local.clone(), &node, ctl, |_| true)
            };
            let ops = ops.clone();
            let shared = self.shared.clone();
            let envs = ctl.env().clone();
            let node2 = node.clone();
            ctl.spawn(&node, &node, async move {
                let mut my_lease: Option<String> = None;
                for (idx, op) in ops.into_iter().enumerate() {
                    let slot = {
                        let mut s = shared.lock().unwrap();
                        s.recs.push(OpRec { client: ci, idx, op: op.clone(), ok: None, err: None });
                        s.recs.len() - 1
                    };
                    let wall_at_call = envs.wall();
                    let (ok, err) = match &op {
                        Op::Acquire(chunks) => match client.acquire_lease(&node2, chunks, 0).await {
                            Ok(l) => {
                                let mut s = shared.lock().unwrap();
                                // everybody else's overlapping lease has now been reclaimed
                                for b in s.beliefs.iter_mut() {
                                    if b.node != ci && overlap(&b.chunks, chunks) {
                                        b.reclaimed = true;
                                    }
                                }
                                s.beliefs.push(Belief {
                                    node: ci,
                                    lease_id: l.lease_id.clone(),
                                    chunks: l.chunks.clone(),
                                    expiry_ns: l.expires_at.timestamp_nanos_opt().unwrap_or(0),
                                    released: false,
                                    reclaimed: false,
                                });
                                my_lease = Some(l.lease_id);
                                (true, None)
                            }
                            Err(e) => (false, Some(format!("{e:?}"))),
                        },
                        Op::Renew => match &my_lease {
                            None => (true, Some("skipped: no lease".into())),
                            Some(id) => match client.renew_lease(id).await {
                                Ok(()) => {
                                    let mut s = shared.lock().unwrap();
                                    let mut vio = None;
                                    if let Some(b) = s.beliefs.iter_mut().find(|b| &b.lease_id == id) {
                                        if b.reclaimed {
                                            vio = Some(Violation {
                                                sig: "C08:reclaimed-holder-not-told".into(),
                                                msg: format!("{node2}: renew of lease over {:?} returned Ok although another node's overlapping acquire had succeeded after it expired", b.chunks),
                                            });
                                        }
                                        b.expiry_ns = b.expiry_ns.max(wall_at_call + 300_000_000_000);
                                    }
                                    if let Some(v) = vio {
                                        s.violations.push(v);
                                    }
                                    (true, None)
                                }
                                Err(e) => {
                                    // told: the node no longer believes it holds the lease
                                    let mut s = shared.lock().unwrap();
                                    if let Some(b) = s.beliefs.iter_mut().find(|b| &b.lease_id == id) {
                                        b.released = true;
                                    }
                                    (false, Some(format!("{e:?}")))
                                }
                            },
                        },
                        Op::Complete | Op::Fail => match &my_lease {
                            None => (true, Some("skipped: no lease".into())),
                            Some(id) => {
                                // the holder stops relying on the lease when it starts to give it up
                                {
                                    let mut s = shared.lock().unwrap();
                                    if let Some(b) = s.beliefs.iter_mut().find(|b| &b.lease_id == id) {
                                        b.released = true;
                                    }
                                }
                                let r = if op == Op::Complete { client.complete_lease(id).await } else { client.fail_lease(id).await };
                                match r {
                                    Ok(()) => (true, None),
                                    Err(e) => (false, Some(format!("{e:?}"))),
                                }
                            }
                        },
                        Op::Scavenge => match client.scavenge_leases().await {
                            Ok(_) => (true, None),
                            Err(e) => (false, Some(format!("{e:?}"))),
                        },
                    };
                    let mut s = shared.lock().unwrap();
                    s.recs[slot].ok = Some(ok);
                    s.recs[slot].err = err;
                }
            });
        }
    }

    fn extras(&self, _ctl: &Ctl) -> Vec<Extra> {
        self.prog
            .jumps
            .iter()
            .map(|j| Extra { label: format!("CLOCK+{j}s"), cost: Cost { clock: 1, ..Cost::ZERO } })
            .collect()
    }

    async fn apply_extra(&mut self, ctl: &Ctl, x: &Extra) {
        let secs: i64 = x.label.trim_start_matches("CLOCK+").trim_end_matches('s').parse().unwrap_or(0);
        ctl.env().advance_wall_secs(secs);
    }

    async fn step_check(&mut self, ctl: &Ctl) -> Vec<Violation> {
        let mut out = Vec::new();
        let now = ctl.env().wall();
        // (H) holder beliefs are pairwise disjoint at this instant
        {
            let mut s = self.shared.lock().unwrap();
            out.append(&mut s.violations);
            let holding: Vec<&Belief> = s.beliefs.iter().filter(|b| !b.released && now < b.expiry_ns).collect();
            for i in 0..holding.len() {
                for j in i + 1..holding.len() {
                    if holding[i].node != holding[j].node && overlap(&holding[i].chunks, &holding[j].chunks) {
                        out.push(Violation {
                            sig: "C08:two-holders".into(),
                            msg: format!(
                                "at wall +{} s nodes N{} ({:?}, believes until +{} s) and N{} ({:?}, believes until +{} s) both hold a lease on a shared chunk",
                                (now - crate::engine::env::EPOCH_NS) / 1_000_000_000,
                                holding[i].node,
                                holding[i].chunks,
                                (holding[i].expiry_ns - crate::engine::env::EPOCH_NS) / 1_000_000_000,
                                holding[j].node,
                                holding[j].chunks,
                                (holding[j].expiry_ns - crate::engine::env::EPOCH_NS) / 1_000_000_000
                            ),
                        });
                    }
                }
            }
        }
        // (M) every version of the lease set
        if self.is_os() {
            let versions = self.log.versions(LEASES);
            for v in versions.iter().skip(self.checked_versions) {
                match serde_json::from_slice::<CompactionLeases>(v.payload.as_deref().unwrap_or_default()) {
                    Ok(l) => {
                        if let Some(vio) = check_lease_set(&l, v.wall_ns, &format!("lease file version #{} written by {}", v.seq, v.actor)) {
                            out.push(vio);
                        }
                    }
                    Err(e) => out.push(Violation { sig: "C08:lease-file-unparsable".into(), msg: e.to_string() }),
                }
            }
            self.checked_versions = versions.len();
        } else if let Ok(l) = self.local.load_leases().await {
            if let Some(vio) = check_lease_set(&l, now, "in-memory lease set") {
                out.push(vio);
            }
        }
        out
    }

    fn fingerprint(&self, ctl: &Ctl) -> Option<u64> {
        if !self.is_os() {
            return None;
        }
        let img = now_or_never(store_image(&self.mem));
        let s = self.shared.lock().unwrap();
        let nodes: Vec<u64> = self.stores.iter().map(|s| s.resp()).collect();
        Some(hash_of(&(img, &s.recs, &s.beliefs, nodes, ctl.env().wall())))
    }

    async fn finish(&mut self, ctl: &Ctl) -> Finish {
        let mut f = Finish::default();
        let unfinished = ctl.unfinished_actors();
        if !unfinished.is_empty() {
            f.violations.push(Violation { sig: "C08:stuck".into(), msg: format!("nodes never finished: {unfinished:?}") });
            return f;
        }
        for (a, m) in ctl.panics() {
            f.violations.push(Violation { sig: "C08:panic".into(), msg: format!("node {a} panicked: {m}") });
        }
        let (recs, beliefs) = {
            let s = self.shared.lock().unwrap();
            (s.recs.clone(), s.beliefs.clone())
        };
        let desc: Vec<String> = recs
            .iter()
            .map(|r| format!("N{}.{} {:?} -> {}", r.client, r.idx, r.op, if r.ok == Some(true) { format!("Ok {}", r.err.clone().unwrap_or_default()) } else { r.err.clone().unwrap_or_default() }))
            .collect();
        // a failed acquire leaves no trace (TooManyRetries / ChunksAlreadyLeased): no lease of that node for those chunks
        let fresh: Arc<dyn MetadataClient> = if self.is_os() { Arc::new(os_client(self.mem.clone())) } else { self.local.clone() };
        let now_leases = fresh.load_leases().await.unwrap_or_default();
        let acquired: BTreeSet<String> = beliefs.iter().map(|b| b.lease_id.clone()).collect();
        for l in now_leases.leases.values() {
            if l.holder_id.starts_with('N') && !acquired.contains(&l.lease_id) {
                f.violations.push(Violation {
                    sig: "C08:phantom-lease".into(),
                    msg: format!("lease {:?} of {} is stored although no acquire of it reported success: {desc:?}", l.chunks, l.holder_id),
                });
            }
        }
        // (E) a lease whose holder stopped without completing becomes acquirable after its expiry
        // Move the clock past the expiry of everything stored or believed, then every abandoned lease
        // (holder finished without completing) must be acquirable by a solo acquire.
        let latest = now_leases
            .leases
            .values()
            .map(|l| l.expires_at.timestamp_nanos_opt().unwrap_or(0))
            .chain(beliefs.iter().map(|b| b.expiry_ns))
            .max()
            .unwrap_or(0);
        if latest > ctl.env().wall() {
            ctl.env().wall_ns.store(latest, std::sync::atomic::Ordering::SeqCst);
        }
        let abandoned: Vec<&Belief> = beliefs.iter().filter(|b| !b.released).collect();
        for b in abandoned {
            match fresh.acquire_lease("probe", &b.chunks, 0).await {
                Ok(l) => {
                    let _ = fresh.complete_lease(&l.lease_id).await;
                    f.flags.push("expired_lease_taken_over_in_epilogue".into());
                }
                Err(e) => f.violations.push(Violation {
                    sig: "C08:expired-lease-not-acquirable".into(),
                    msg: format!("lease of N{} over {:?} expired at +{} s and its holder stopped, but a solo acquire fails with {e:?}: {desc:?}", b.node, b.chunks, (b.expiry_ns - crate::engine::env::EPOCH_NS) / 1_000_000_000),
                }),
            }
        }
        if recs.iter().any(|r| r.err.as_deref().map(|e| e.contains("ChunksAlreadyLeased")).unwrap_or(false)) {
            f.flags.push("acquire_rejected".into());
        }
        if beliefs.iter().any(|b| b.reclaimed) {
            f.flags.push("takeover_after_expiry".into());
        }
        if recs.iter().any(|r| r.op == Op::Renew && r.ok == Some(false)) {
            f.flags.push("renew_refused".into());
        }
        if recs.iter().any(|r| r.err.as_deref().map(|e| e.contains("TooManyRetries")).unwrap_or(false)) {
            f.flags.push("retry_exhausted".into());
        }
        if self.log.snapshot().iter().any(|e| e.kind == "PUT" && !e.ok) {
            f.flags.push("cas_conflict".into());
        }
        f.outcome = format!("{desc:?}");
        f
    }
}

fn cs(v: &[&str]) -> Vec<String> {
    v.iter().map(|s| s.to_string()).collect()
}

pub fn programs(tier: &str) -> Vec<Program> {
    let mut v = Vec::new();
    let a = vec![Op::Acquire(cs(&["c1", "c2"])), Op::Renew, Op::Complete];
    let b = vec![Op::Acquire(cs(&["c2", "c3"])), Op::Renew];
    for backend in ["object-store", "in-memory"] {
        v.push(Program { name: format!("acq-renew-complete vs acq-renew/{backend}"), backend: backend.into(), preexisting: false, clients: vec![a.clone(), b.clone()], jumps: vec![150, 301] });
        v.push(Program { name: format!("preexisting-file/{backend}"), backend: backend.into(), preexisting: true, clients: vec![vec![Op::Acquire(cs(&["c1"])), Op::Renew], vec![Op::Acquire(cs(&["c1"])), Op::Complete]], jumps: vec![150, 301] });
        v.push(Program {
            name: format!("fail-reacquire vs scavenge-acquire/{backend}"),
            backend: backend.into(),
            preexisting: false,
            clients: vec![vec![Op::Acquire(cs(&["c1"])), Op::Fail, Op::Acquire(cs(&["c1"]))], vec![Op::Scavenge, Op::Acquire(cs(&["c1"])), Op::Renew]],
            jumps: vec![301],
        });
        // a lease with one second left is live: a scavenge by somebody else must not remove it, a renewal in time keeps it
        v.push(Program {
            name: format!("scavenge-acquire vs renew, one second before expiry/{backend}"),
            backend: backend.into(),
            preexisting: false,
            clients: vec![vec![Op::Acquire(cs(&["c1", "c2"])), Op::Renew], vec![Op::Scavenge, Op::Acquire(cs(&["c2"]))]],
            jumps: vec![299],
        });
    }
    if tier == "thorough" {
        let c = vec![Op::Scavenge, Op::Acquire(cs(&["c1"])), Op::Renew];
        for backend in ["object-store", "in-memory"] {
            v.push(Program { name: format!("three-nodes/{backend}"), backend: backend.into(), preexisting: false, clients: vec![a.clone(), b.clone(), c.clone()], jumps: vec![150, 301] });
            v.push(Program {
                name: format!("three-nodes-fail/{backend}"),
                backend: backend.into(),
                preexisting: true,
                clients: vec![vec![Op::Acquire(cs(&["c1", "c2"])), Op::Renew, Op::Fail], b.clone(), c.clone()],
                jumps: vec![150, 301],
            });
        }
        // conflict-retry exhaustion: one acquire against an adversary that performs six lease writes (2 nodes: all interleavings)
        v.push(Program {
            name: "retry-exhaustion/object-store".into(),
            backend: "object-store".into(),
            preexisting: true,
            clients: vec![
                vec![Op::Acquire(cs(&["v1"]))],
                vec![Op::Acquire(cs(&["a1"])), Op::Renew, Op::Complete, Op::Acquire(cs(&["a2"])), Op::Renew, Op::Fail],
            ],
            jumps: vec![],
        });
    }
    v
}

/// Generated family: every unordered pair of node programs of 1..=max_len lease operations; the first
/// operation is an acquire or a scavenge, later ones range over the whole alphabet.
pub fn generated_programs(max_len: usize, backend: &str, jumps: &[i64]) -> Vec<Program> {
    let first = vec![Op::Acquire(cs(&["c1", "c2"])), Op::Acquire(cs(&["c2"])), Op::Scavenge];
    let later = vec![Op::Renew, Op::Complete, Op::Fail, Op::Scavenge, Op::Acquire(cs(&["c2"]))];
    let mut all: Vec<Vec<Op>> = Vec::new();
    let mut cur: Vec<Vec<Op>> = first.iter().map(|o| vec![o.clone()]).collect();
    all.extend(cur.iter().cloned());
    for _ in 1..max_len {
        let mut next = Vec::new();
        for q in &cur {
            for o in &later {
                let mut n = q.clone();
                n.push(o.clone());
                next.push(n);
            }
        }
        all.extend(next.iter().cloned());
        cur = next;
    }
    let mut v = Vec::new();
    for i in 0..all.len() {
        for j in i..all.len() {
            v.push(Program { name: format!("gen/{backend}/{i}x{j}"), backend: backend.into(), preexisting: (i + j) % 2 == 1, clients: vec![all[i].clone(), all[j].clone()], jumps: jumps.to_vec() });
        }
    }
    v
}

pub fn factory(prog: Program) -> ScenarioFactory {
    Arc::new(move || Box::new(C08Scenario::new(prog.clone())) as Box<dyn Scenario>)
}

pub fn run(tier: &str) -> i32 {
    let mut rep = Report::new("C08", tier, "model_checking");
    rep.assume("all nodes read the same (interposed, frozen) wall clock; it only moves by explicit CLOCK transitions, which may be placed at any quiescent point");
    rep.assume("object-store client: request granularity; in-memory client: call granularity");
    let mut seen = BTreeSet::new();
    for prog in programs(tier) {
        let three = prog.clients.len() >= 3;
        let cfg = ExploreConfig {
            bounds: Cost {
                preempt: if three { 3 } else { 1000 },
                clock: if prog.jumps.is_empty() { 0 } else if tier == "thorough" { 3 } else { 2 },
                ..Cost::ZERO
            },
            use_cache: prog.backend == "object-store",
            wall_cap: Duration::from_secs(if tier == "thorough" { 900 } else { 100 }),
            ..Default::default()
        };
        let st = explore(factory(prog.clone()), &cfg);
        for k in st.flags.keys() {
            seen.insert(k.clone());
        }
        println!(
            "  C08 {:<52} executions={:<7} states={:<7} pruned={:<7} depth={:<3} outcomes={:<4} {:.1}s{}",
            prog.name, st.executions, st.states, st.pruned, st.max_depth, st.outcomes.len(), st.wall_s, if st.capped { " CAPPED" } else { "" }
        );
        rep.absorb_explore(&prog.name, &serde_json::to_value(&prog).unwrap(), &st, cfg.bounds);
    }
    // generated families
    {
        let thorough = tier == "thorough";
        let fams: Vec<(String, Vec<Program>, u32)> = if thorough {
            vec![
                ("2 nodes x 1..=2 lease operations, object-store, jumps {+150 s, +301 s} <= 2".into(), generated_programs(2, "object-store", &[150, 301]), 2),
                ("2 nodes x 1..=3 lease operations, object-store, one jump of +301 s".into(), generated_programs(3, "object-store", &[301]), 1),
                ("2 nodes x 1..=3 lease operations, in-memory, jumps {+150 s, +301 s} <= 2".into(), generated_programs(3, "in-memory", &[150, 301]), 2),
            ]
        } else {
            vec![
                ("2 nodes x 1..=2 lease operations (every 3rd pair), object-store, jumps {+150 s, +301 s} <= 2".into(), generated_programs(2, "object-store", &[150, 301]).into_iter().step_by(3).collect(), 2),
                ("2 nodes x 1..=2 lease operations, object-store, one jump of +301 s".into(), generated_programs(2, "object-store", &[301]), 1),
                ("2 nodes x 1..=2 lease operations, in-memory, jumps {+150 s, +301 s} <= 2".into(), generated_programs(2, "in-memory", &[150, 301]), 2),
            ]
        };
        for (name, progs, clock) in fams {
            let t0 = std::time::Instant::now();
            let bounds = Cost { preempt: 1000, clock, ..Cost::ZERO };
            let os = progs.first().map(|p| p.backend == "object-store").unwrap_or(true);
            // overall budget per family; programs not started by then are reported as not covered
            let deadline = std::time::Instant::now() + Duration::from_secs(if thorough { 1500 } else { 50 });
            let stats = explore_many_until(
                progs.iter().map(|p| factory(p.clone())).collect(),
                &|_| ExploreConfig { bounds, use_cache: os, wall_cap: Duration::from_secs(600), selftest: 1, ..Default::default() },
                Some(deadline),
            );
            let skipped = stats.iter().filter(|s| s.capped && s.executions == 0).count();
            if skipped > 0 {
                println!("  C08 generated: {name}: {skipped} of {} programs were not started within the time budget (reported as not exhaustive)", progs.len());
            }
            let (mut ex, mut stt, mut tr, mut outc) = (0u64, 0u64, 0u64, 0u64);
            for (p, st) in progs.iter().zip(stats.iter()) {
                ex += st.executions;
                stt += st.states;
                tr += st.transitions;
                outc += st.outcomes.len() as u64;
                for k in st.flags.keys() {
                    seen.insert(k.clone());
                }
                rep.absorb_explore_compact(&p.name, &serde_json::to_value(p).unwrap(), st, bounds);
            }
            println!("  C08 generated: {name}: {} programs executions={ex} states={stt} outcomes={outc} {:.1}s", progs.len(), t0.elapsed().as_secs_f64());
            let scen = rep.coverage.entry("scenarios".to_string()).or_insert_with(|| json!([]));
            if let Some(a) = scen.as_array_mut() {
                a.push(json!({"scenario": format!("generated family: {name}"), "programs": progs.len(),
                    "bounds_completed": {"preemptions": "unbounded", "clock_jumps": clock}, "executions": ex, "states": stt, "transitions": tr, "distinct_outcomes_summed": outc}));
            }
        }
    }
    rep.set("rule", "an execution = one complete interleaving of the nodes' requests with <= k wall-clock jumps placed anywhere; distinct = distinct state fingerprints (store image, clock, per-node response history, holder beliefs)");
    let d = rep.get_u64("states");
    rep.set("distinct_nontrivial", d);
    rep.set("vacuity", json!({"observed": seen}));
    for need in ["acquire_rejected", "takeover_after_expiry", "cas_conflict", "renew_refused", "expired_lease_taken_over_in_epilogue"] {
        if !seen.contains(need) {
            rep.machinery(format!("vacuity guard: no execution showed `{need}`"));
        }
    }
    if tier == "thorough" && !seen.contains("retry_exhausted") {
        rep.machinery("vacuity guard: the retry-exhaustion scenario never exhausted the retries");
    }
    rep.finish()
}

pub fn replay(v: &serde_json::Value) -> i32 {
    let prog: Program = serde_json::from_value(v["params"].clone()).expect("params");
    super::replay_schedule(factory(prog), v)
}
