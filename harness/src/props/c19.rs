//! C19 — write routing always terminates on a node that can accept writes (engine B, explicit-state).
//!
//! Breadth-first search over histories of cluster operations (register / drain / heartbeat / lost
//! heartbeats + one tick of the real health check / load change / removal / rebalance / route).
//! Every transition (state, op) is executed by building a fresh `NodeRegistry` + `ShardAssignment` +
//! `DistributedWriteRouter`, replaying the representative history of the state through the public API
//! and then applying the op, on a fresh OS thread (so `HashMap` layouts are reproducible) with the
//! interposed clock installed. States are deduplicated on a fingerprint that contains ALL implementation
//! state: every `NodeInfo` field, the assignment map, the consistent-hash ring (read through the
//! `verif-hooks` accessor `ShardAssignment::verif_ring_nodes`) and the insert/remove sequence of the
//! registry's `HashMap` (which determines its iteration order, i.e. tie-breaking in round-robin /
//! load-based selection). The search runs in a child process of `vcheck` because an unbounded
//! `route_write` recursion overflows the stack and aborts the process; the parent attributes an abort to
//! the case in progress by re-running the in-flight cases one by one.

use crate::engine::env;
use crate::engine::report::Report;
use cardinalsin::cluster::{
    AssignmentStrategy, DistributedWriteRouter, NodeInfo, NodeRegistry, NodeStatus, NodeType, ShardAssignment,
};
use serde_json::{json, Value};
use std::collections::{BTreeMap, BTreeSet, HashMap};
use std::future::Future;
use std::io::Write as _;
use std::os::unix::fs::FileExt;
use std::pin::Pin;
use std::sync::atomic::{AtomicBool, AtomicUsize, Ordering};
use std::sync::Arc;
use std::task::{Context, Poll};
use std::time::{Duration, Instant};

const NODE_NAMES: [&str; 3] = ["node-a", "node-b", "node-c"];
const TIMEOUT_SECS: u64 = 30;
const SLOT_BYTES: usize = 64;
/// "overloaded" is read as load >= 95 % (the threshold `can_accept_writes` uses at the pinned commit)
const OVERLOAD: u8 = 95;

// ------------------------------------------------------------------------------------------------
// operations
// ------------------------------------------------------------------------------------------------

#[derive(Clone, Copy, Debug, PartialEq, Eq, Hash, serde::Serialize, serde::Deserialize)]
pub enum Op {
    /// node index, type (0 Ingester, 1 Query, 2 Combined)
    Register(u8, u8),
    Drain(u8),
    Heartbeat(u8),
    /// heartbeats of every node are lost for this many seconds (monotonic clock jump), then the real
    /// `run_health_checks` task performs exactly one tick
    Lose(u8),
    SetLoad(u8, u8),
    Remove(u8),
    Rebalance,
    /// shard index
    Route(u8),
}

fn ty_of(t: u8) -> NodeType {
    match t {
        0 => NodeType::Ingester,
        1 => NodeType::Query,
        _ => NodeType::Combined,
    }
}

impl Op {
    fn name(&self, shards: &[String; 2]) -> String {
        match *self {
            Op::Register(n, t) => format!("register({},{:?})", NODE_NAMES[n as usize], ty_of(t)),
            Op::Drain(n) => format!("drain({})", NODE_NAMES[n as usize]),
            Op::Heartbeat(n) => format!("heartbeat({})", NODE_NAMES[n as usize]),
            Op::Lose(s) => format!("lose_heartbeats(+{s}s)+health_tick"),
            Op::SetLoad(n, l) => format!("set_load({},{l})", NODE_NAMES[n as usize]),
            Op::Remove(n) => format!("remove({})", NODE_NAMES[n as usize]),
            Op::Rebalance => "rebalance".into(),
            Op::Route(s) => format!("route({})", shards[s as usize]),
        }
    }
    fn kind(&self) -> &'static str {
        match self {
            Op::Register(..) => "register",
            Op::Drain(_) => "drain",
            Op::Heartbeat(_) => "heartbeat",
            Op::Lose(_) => "health-tick",
            Op::SetLoad(..) => "set_load",
            Op::Remove(_) => "remove",
            Op::Rebalance => "rebalance",
            Op::Route(_) => "route",
        }
    }
}

#[derive(Clone, Debug, serde::Serialize, serde::Deserialize)]
pub struct Space {
    pub name: String,
    /// 0 ConsistentHash, 1 RoundRobin, 2 LoadBased
    pub strategy: u8,
    pub alphabet: Vec<Op>,
    pub depth: usize,
    /// depth of the cross-check enumeration WITHOUT deduplication
    pub nodedup_depth: usize,
    pub shards: [String; 2],
    pub wall_cap_s: u64,
}

fn strategy_of(s: u8) -> AssignmentStrategy {
    match s {
        0 => AssignmentStrategy::ConsistentHash,
        1 => AssignmentStrategy::RoundRobin,
        _ => AssignmentStrategy::LoadBased,
    }
}
fn strategy_name(s: u8) -> &'static str {
    ["ConsistentHash", "RoundRobin", "LoadBased"][s.min(2) as usize]
}

/// alphabets, simplest first (so the first counter-example per signature is the shortest, simplest one)
fn alphabet(cluster: &str, loads: &[u8]) -> Vec<Op> {
    let mut v = Vec::new();
    match cluster {
        // node-a: Ingester (can be re-registered as Query = type flip), node-b: Combined, node-c: Query-only
        "2i+q" => {
            v.extend([Op::Register(0, 0), Op::Register(1, 2), Op::Route(0), Op::Route(1)]);
            v.extend([Op::Drain(0), Op::Drain(1)]);
            for n in 0..2 {
                for l in loads {
                    v.push(Op::SetLoad(n, *l));
                }
            }
            v.extend([Op::Lose(16), Op::Lose(31), Op::Heartbeat(0), Op::Heartbeat(1)]);
            v.extend([Op::Remove(0), Op::Remove(1), Op::Rebalance]);
            v.extend([Op::Register(2, 1), Op::Remove(2), Op::Register(0, 1)]);
        }
        // three ingesting nodes: node-a, node-b Ingester, node-c Combined
        _ => {
            v.extend([Op::Register(0, 0), Op::Register(1, 0), Op::Register(2, 2), Op::Route(0), Op::Route(1)]);
            v.extend([Op::Drain(0), Op::Drain(1), Op::Drain(2)]);
            for n in 0..3 {
                for l in loads {
                    v.push(Op::SetLoad(n, *l));
                }
            }
            v.extend([Op::Lose(16), Op::Lose(31), Op::Heartbeat(0), Op::Heartbeat(1), Op::Heartbeat(2)]);
            v.extend([Op::Remove(0), Op::Remove(1), Op::Remove(2), Op::Rebalance]);
        }
    }
    v
}

pub fn spaces(tier: &str, shards: &[String; 2]) -> Vec<Space> {
    let thorough = tier == "thorough";
    let envd = |k: &str, d: usize| std::env::var(k).ok().and_then(|s| s.parse().ok()).unwrap_or(d);
    let mut v = Vec::new();
    for cluster in ["2i+q", "3i"] {
        for strategy in 0..3u8 {
            let loads: &[u8] = if thorough { &[10, 94, 95] } else { &[10, 95] };
            let depth = match (thorough, cluster) {
                (false, "2i+q") => envd("VERIF_C19_DEPTH", 6),
                (false, _) => envd("VERIF_C19_DEPTH", 6),
                (true, "2i+q") => envd("VERIF_C19_DEPTH", 8),
                (true, _) => envd("VERIF_C19_DEPTH", 8),
            };
            v.push(Space {
                name: format!("{cluster}/{}", strategy_name(strategy)),
                strategy,
                alphabet: alphabet(cluster, loads),
                depth,
                nodedup_depth: envd("VERIF_C19_NODEDUP_DEPTH", if thorough { 4 } else { 3 }),
                shards: shards.clone(),
                wall_cap_s: if thorough { 900 } else { 50 },
            });
        }
    }
    v
}

// ------------------------------------------------------------------------------------------------
// poll-count watchdog
// ------------------------------------------------------------------------------------------------

struct Watchdog<F: Future> {
    inner: Pin<Box<F>>,
    polls: u32,
    limit: u32,
}
impl<F: Future> Future for Watchdog<F> {
    /// Ok((output, polls)) or Err(polls) when the limit was exceeded
    type Output = Result<(F::Output, u32), u32>;
    fn poll(mut self: Pin<&mut Self>, cx: &mut Context<'_>) -> Poll<Self::Output> {
        self.polls += 1;
        if self.polls > self.limit {
            return Poll::Ready(Err(self.polls));
        }
        let p = self.polls;
        match self.inner.as_mut().poll(cx) {
            Poll::Ready(o) => Poll::Ready(Ok((o, p))),
            Poll::Pending => Poll::Pending,
        }
    }
}

fn poll_limit() -> u32 {
    std::env::var("VERIF_C19_POLL_LIMIT").ok().and_then(|s| s.parse().ok()).unwrap_or(50)
}
fn stack_bytes() -> usize {
    std::env::var("VERIF_C19_STACK_MB").ok().and_then(|s| s.parse::<usize>().ok()).unwrap_or(64) << 20
}

// ------------------------------------------------------------------------------------------------
// snapshots of the real state
// ------------------------------------------------------------------------------------------------

#[derive(Clone, Debug, PartialEq, Eq, Hash)]
struct NodeView {
    id: String,
    ty: u8,
    status: u8,
    load: u8,
    /// seconds since the last heartbeat, quantised: 0 (< 15), 16 (15..=30), 31 (> 30)
    age: u8,
    shards: Vec<String>,
    capacity: u32,
    /// what the real `can_accept_writes()` says
    real_ok: bool,
}

impl NodeView {
    /// the statement's predicate: healthy, of an ingesting type, not overloaded
    fn ref_ok(&self) -> bool {
        self.status == 0 && (self.ty == 0 || self.ty == 2) && self.load < OVERLOAD
    }
    fn why_not(&self) -> &'static str {
        if self.status != 0 {
            ["healthy", "suspected", "failed", "draining"][self.status as usize]
        } else if !(self.ty == 0 || self.ty == 2) {
            "query-only-type"
        } else if self.load >= OVERLOAD {
            "overloaded"
        } else {
            "eligible"
        }
    }
}

#[derive(Clone, Debug, PartialEq, Eq, Hash, Default)]
struct Snap {
    /// sorted by id
    nodes: Vec<NodeView>,
    /// iteration order of the registry map as observed through get_all_nodes()
    order: Vec<String>,
    asg: BTreeMap<String, String>,
    ring: Vec<String>,
    ring_len: usize,
    /// effective inserts (+) and removes (-) on the registry map, in order
    layout: Vec<i8>,
}

impl Snap {
    fn node(&self, id: &str) -> Option<&NodeView> {
        self.nodes.iter().find(|n| n.id == id)
    }
    fn eligible(&self, id: &str) -> bool {
        self.node(id).map(|n| n.ref_ok()).unwrap_or(false)
    }
    fn fingerprint(&self) -> u128 {
        use std::hash::{Hash, Hasher};
        let mut a = std::collections::hash_map::DefaultHasher::new();
        0xA5u8.hash(&mut a);
        self.hash(&mut a);
        let mut b = std::collections::hash_map::DefaultHasher::new();
        0x5Au8.hash(&mut b);
        self.hash(&mut b);
        b.write_u64(a.finish());
        ((a.finish() as u128) << 64) | b.finish() as u128
    }
    fn describe(&self) -> String {
        let st = ["Healthy", "Suspected", "Failed", "Draining"];
        let ty = ["Ingester", "Query", "Combined"];
        let nodes: Vec<String> = self
            .nodes
            .iter()
            .map(|n| format!("{}:{}/{}/load{}/hb-age{}s/shards{:?}", n.id, ty[n.ty as usize], st[n.status as usize], n.load, n.age, n.shards))
            .collect();
        format!("nodes[{}] assignments{:?} ring{:?}", nodes.join(" "), self.asg, self.ring)
    }
}

fn status_code(s: NodeStatus) -> u8 {
    match s {
        NodeStatus::Healthy => 0,
        NodeStatus::Suspected => 1,
        NodeStatus::Failed => 2,
        NodeStatus::Draining => 3,
    }
}
fn type_code(t: NodeType) -> u8 {
    match t {
        NodeType::Ingester => 0,
        NodeType::Query => 1,
        NodeType::Combined => 2,
    }
}
fn view(n: &NodeInfo) -> NodeView {
    let secs = Instant::now().saturating_duration_since(n.last_heartbeat).as_secs();
    let mut shards = n.shards.clone();
    shards.sort();
    NodeView {
        id: n.id.clone(),
        ty: type_code(n.node_type),
        status: status_code(n.status),
        load: n.load_percent,
        age: if secs < 15 { 0 } else if secs <= 30 { 16 } else { 31 },
        shards,
        capacity: n.capacity,
        real_ok: n.can_accept_writes(),
    }
}

// ------------------------------------------------------------------------------------------------
// the world: freshly built real objects
// ------------------------------------------------------------------------------------------------

struct World {
    env: Arc<env::EnvState>,
    reg: Arc<NodeRegistry>,
    asg: Arc<ShardAssignment>,
    router: Arc<DistributedWriteRouter>,
    shards: [String; 2],
    layout: Vec<i8>,
    limit: u32,
}

#[derive(Debug, Clone)]
#[allow(dead_code)] // payloads are shown through Debug in replays and samples
enum RouteRes {
    Node(NodeView),
    NoneLocal,
    Err(String),
    /// more than `limit` polls
    Hang(u32),
    /// pending with nothing to wake it
    Blocked,
    Panic(String),
}

#[derive(Debug, Clone)]
enum Effect {
    Plain,
    Route(RouteRes, u32),
    Rebalance(Result<usize, String>),
    Stuck(&'static str),
}

impl World {
    fn new(env: Arc<env::EnvState>, strategy: u8, shards: [String; 2], limit: u32) -> Self {
        let reg = Arc::new(NodeRegistry::new(TIMEOUT_SECS));
        let asg = Arc::new(ShardAssignment::new(reg.clone(), strategy_of(strategy)));
        let router = Arc::new(DistributedWriteRouter::new(asg.clone(), reg.clone()));
        Self { env, reg, asg, router, shards, layout: Vec::new(), limit }
    }

    async fn start(&self) {
        let reg = self.reg.clone();
        tokio::spawn(async move { reg.run_health_checks().await });
        // let the task take its immediate first tick (empty registry) and park on the 5 s interval
        for _ in 0..2 {
            tokio::task::yield_now().await;
        }
    }

    async fn snap(&self) -> Snap {
        let all = self.reg.get_all_nodes().await;
        let order: Vec<String> = all.iter().map(|n| n.id.clone()).collect();
        let mut nodes: Vec<NodeView> = all.iter().map(view).collect();
        nodes.sort_by(|a, b| a.id.cmp(&b.id));
        let asg: BTreeMap<String, String> = self.asg.get_all_assignments().await.into_iter().collect();
        let (ring, ring_len) = self.asg.verif_ring_nodes().await;
        Snap { nodes, order, asg, ring, ring_len, layout: self.layout.clone() }
    }

    async fn apply(&mut self, op: Op) -> Effect {
        match op {
            Op::Register(n, t) => {
                let id = NODE_NAMES[n as usize];
                if self.reg.get_node(id).await.is_none() {
                    self.layout.push(n as i8 + 1);
                }
                let addr = format!("127.0.0.1:{}", 9000 + n as u16).parse().unwrap();
                self.reg.register_node(NodeInfo::new(id.to_string(), addr, ty_of(t))).await;
                Effect::Plain
            }
            Op::Drain(n) => {
                self.reg.drain_node(NODE_NAMES[n as usize]).await;
                Effect::Plain
            }
            Op::Heartbeat(n) => {
                let _ = self.reg.heartbeat(NODE_NAMES[n as usize]).await;
                Effect::Plain
            }
            Op::Lose(s) => {
                self.env.advance_mono_secs(s as i64);
                tokio::time::advance(Duration::from_secs(5)).await;
                for _ in 0..3 {
                    tokio::task::yield_now().await;
                }
                Effect::Plain
            }
            Op::SetLoad(n, l) => {
                self.reg.update_load(NODE_NAMES[n as usize], l).await;
                Effect::Plain
            }
            Op::Remove(n) => {
                let id = NODE_NAMES[n as usize];
                if self.reg.get_node(id).await.is_some() {
                    self.layout.push(-(n as i8 + 1));
                }
                self.reg.remove_node(id).await;
                Effect::Plain
            }
            Op::Rebalance => {
                let asg = self.asg.clone();
                let h = tokio::spawn(async move { asg.rebalance().await.map(|m| m.len()).map_err(|e| format!("{e:?}")) });
                match tokio::time::timeout(Duration::from_secs(2), h).await {
                    Ok(Ok(r)) => Effect::Rebalance(r),
                    Ok(Err(_)) => Effect::Stuck("rebalance-panicked"),
                    Err(_) => Effect::Stuck("rebalance-never-completes"),
                }
            }
            Op::Route(s) => self.route(self.shards[s as usize].clone()).await,
        }
    }

    /// One route_write as a runtime task under the poll-count watchdog, with a (virtual-time) timeout
    /// for a task that is pending with nothing to wake it.
    async fn route(&self, shard: String) -> Effect {
        let router = self.router.clone();
        let fut = async move { router.route_write(&shard).await };
        let h = tokio::spawn(Watchdog { inner: Box::pin(fut), polls: 0, limit: self.limit });
        let abort = h.abort_handle();
        match tokio::time::timeout(Duration::from_secs(2), h).await {
            Ok(Ok(Ok((Ok(Some(n)), p)))) => Effect::Route(RouteRes::Node(view(&n)), p),
            Ok(Ok(Ok((Ok(None), p)))) => Effect::Route(RouteRes::NoneLocal, p),
            Ok(Ok(Ok((Err(e), p)))) => Effect::Route(RouteRes::Err(format!("{e:?}")), p),
            Ok(Ok(Err(p))) => Effect::Route(RouteRes::Hang(p), p),
            Ok(Err(je)) => Effect::Route(RouteRes::Panic(format!("{je}")), 0),
            Err(_) => {
                abort.abort();
                Effect::Route(RouteRes::Blocked, 0)
            }
        }
    }
}

// coverage flags of one transition
const F_ROUTE_OK: u32 = 1 << 0;
const F_ROUTE_ERR: u32 = 1 << 1;
const F_ROUTE_STICKY: u32 = 1 << 2;
const F_ROUTE_REASSIGNED: u32 = 1 << 3;
const F_ROUTE_FIRST: u32 = 1 << 4;
const F_ERR_DESPITE_ELIGIBLE: u32 = 1 << 5;
const F_REBAL_MOVED: u32 = 1 << 6;
const F_TICK_SUSPECTED: u32 = 1 << 7;
const F_TICK_FAILED: u32 = 1 << 8;
const F_RECOVERED: u32 = 1 << 9;
const F_HANG: u32 = 1 << 10;
const F_STALE_SHARD_LISTS: u32 = 1 << 11;
const F_ROUTE_UNASSIGNED: u32 = 1 << 12;
const F_NONTRIVIAL: u32 = 1 << 13;
const F_ROUTE_FROM_DRAINING: u32 = 1 << 14;
const F_ROUTE_FROM_OVERLOAD: u32 = 1 << 15;
const F_ROUTE_FROM_UNHEALTHY: u32 = 1 << 16;
const F_ROUTE_FROM_GONE: u32 = 1 << 17;
const F_ROUTE_FROM_TYPE: u32 = 1 << 18;
const FLAG_NAMES: [&str; 19] = [
    "routes_returning_a_node",
    "routes_returning_an_error",
    "routes_reusing_an_eligible_assignment",
    "routes_moving_a_shard_off_an_ineligible_node",
    "routes_assigning_a_new_shard",
    "route_errors_while_some_node_is_eligible",
    "rebalances_that_moved_a_shard",
    "health_ticks_marking_a_node_suspected",
    "health_ticks_marking_a_node_failed",
    "heartbeats_recovering_a_suspected_node",
    "routes_exceeding_the_poll_limit",
    "states_with_a_shard_in_two_nodes_shard_lists",
    "routes_dropping_an_assignment_without_replacement",
    "nontrivial_transitions",
    "routes_with_assigned_node_draining",
    "routes_with_assigned_node_overloaded",
    "routes_with_assigned_node_suspected_or_failed",
    "routes_with_assigned_node_removed",
    "routes_with_assigned_node_retyped_query_only",
];

#[derive(Debug, Clone, Default)]
struct StepOut {
    pre: u128,
    post: u128,
    /// the step left the objects in a state that must not be explored further (hang, blocked)
    terminal: bool,
    flags: u32,
    polls: u32,
    violations: Vec<(String, String)>,
    machinery: Vec<String>,
    post_desc: String,
    effect_desc: String,
}

/// The oracle for one transition pre --op--> post.
fn judge(space: &Space, op: Op, pre: &Snap, post: &Snap, eff: &Effect, out: &mut StepOut) {
    let mut vs = Vec::new();
    judge_inner(space, op, pre, post, eff, out, &mut vs);
    out.violations = vs;
}

fn judge_inner(space: &Space, op: Op, pre: &Snap, post: &Snap, eff: &Effect, out: &mut StepOut, vs: &mut Vec<(String, String)>) {
    let mut vio = |sig: String, msg: String| vs.push((sig, msg));
    // eligibility predicate of the real code vs. the statement's wording, on every node seen
    for n in &post.nodes {
        if n.real_ok != n.ref_ok() {
            let part = if n.status != 0 { "status" } else if !(n.ty == 0 || n.ty == 2) { "type" } else { "load" };
            vio(
                format!("C19:can_accept_writes-disagrees-with-statement:{part}"),
                format!(
                    "NodeInfo::can_accept_writes() = {} for node {} (status code {}, type code {}, load {}), the statement's predicate (healthy, ingesting type, load < {OVERLOAD}) says {}",
                    n.real_ok, n.id, n.status, n.ty, n.load, n.ref_ok()
                ),
            );
        }
    }
    if post.ring_len != post.ring.len() * 100 {
        out.machinery.push(format!("hash ring has {} entries for {} nodes: virtual-node hash collision or changed virtual_nodes; the ring fingerprint is no longer the node set", post.ring_len, post.ring.len()));
    }
    // a shard listed by more than one node's `shards` (informational: the assignment map is the authority)
    for s in &space.shards {
        if post.nodes.iter().filter(|n| n.shards.contains(s)).count() > 1 {
            out.flags |= F_STALE_SHARD_LISTS;
        }
    }
    match (op, eff) {
        (Op::Route(si), Effect::Route(res, polls)) => {
            let shard = &space.shards[si as usize];
            out.polls = *polls;
            let old = pre.asg.get(shard).cloned();
            let old_ok = old.as_deref().map(|o| pre.eligible(o)).unwrap_or(false);
            let any_ok = pre.nodes.iter().any(|n| n.ref_ok());
            if let Some(o) = &old {
                if !old_ok {
                    out.flags |= match pre.node(o) {
                        None => F_ROUTE_FROM_GONE,
                        Some(n) if n.status == 3 => F_ROUTE_FROM_DRAINING,
                        Some(n) if n.status != 0 => F_ROUTE_FROM_UNHEALTHY,
                        Some(n) if n.ty == 1 => F_ROUTE_FROM_TYPE,
                        Some(_) => F_ROUTE_FROM_OVERLOAD,
                    };
                }
            }
            match res {
                RouteRes::Hang(p) => {
                    out.terminal = true;
                    out.flags |= F_HANG;
                    let stale: Vec<&String> = pre.ring.iter().filter(|r| !pre.eligible(r)).collect();
                    let cause = if space.strategy == 0 && !stale.is_empty() {
                        "consistent-hash-ring-keeps-ineligible-node".to_string()
                    } else {
                        format!("{}:cause-unclassified", strategy_name(space.strategy))
                    };
                    vio(
                        format!("C19:route-unbounded-retry:{cause}"),
                        format!(
                            "route_write({shard}) was still running after {p} polls (each poll = 128 lock acquisitions of tokio's cooperative budget): it retries assign -> ineligible -> unassign without bound (and would overflow the stack). Ring nodes that are not eligible: {stale:?}. State before the route: {}",
                            pre.describe()
                        ),
                    );
                    return;
                }
                RouteRes::Blocked => {
                    out.terminal = true;
                    vio("C19:route-blocked-forever".into(), format!("route_write({shard}) is pending with nothing left to wake it (deadlock). State before: {}", pre.describe()));
                    return;
                }
                RouteRes::Panic(m) => {
                    vio("C19:route-panicked".into(), format!("route_write({shard}) panicked: {m}. State before: {}", pre.describe()));
                }
                RouteRes::NoneLocal => {
                    vio("C19:route-returned-neither-node-nor-error".into(), format!("route_write({shard}) returned Ok(None). State before: {}", pre.describe()));
                }
                RouteRes::Err(_) => {
                    out.flags |= F_ROUTE_ERR;
                    if any_ok {
                        out.flags |= F_ERR_DESPITE_ELIGIBLE;
                    }
                }
                RouteRes::Node(ret) => {
                    out.flags |= F_ROUTE_OK | F_NONTRIVIAL;
                    // eligible NOW: judged on the registry's current entry and on the returned copy
                    match post.node(&ret.id) {
                        None => vio(
                            "C19:routed-to-ineligible-node:not-registered".into(),
                            format!("route_write({shard}) returned node {} which is not in the registry. State before: {}", ret.id, pre.describe()),
                        ),
                        Some(cur) => {
                            if !cur.ref_ok() || !ret.ref_ok() {
                                let why = if !cur.ref_ok() { cur.why_not() } else { ret.why_not() };
                                vio(
                                    format!("C19:routed-to-ineligible-node:{why}"),
                                    format!("route_write({shard}) returned node {} which is {why} (not healthy + ingesting + load < {OVERLOAD}). State before: {}", ret.id, pre.describe()),
                                );
                            }
                        }
                    }
                    if post.asg.get(shard) != Some(&ret.id) {
                        vio(
                            "C19:returned-node-is-not-the-assigned-node".into(),
                            format!("route_write({shard}) returned node {} but the assignment map says {:?}. State before: {}", ret.id, post.asg.get(shard), pre.describe()),
                        );
                    }
                }
            }
            // one node at a time, moving only when the old node is not eligible
            let new = post.asg.get(shard).cloned();
            if old_ok {
                if new != old {
                    vio(
                        "C19:assignment-moved-off-eligible-node".into(),
                        format!("route_write({shard}) changed the assignment {old:?} -> {new:?} although {old:?} was eligible and no rebalance happened. State before: {}", pre.describe()),
                    );
                } else if matches!(res, RouteRes::Node(_)) {
                    out.flags |= F_ROUTE_STICKY;
                }
            } else if new != old {
                out.flags |= F_NONTRIVIAL;
                match (&old, &new) {
                    (None, Some(_)) => out.flags |= F_ROUTE_FIRST,
                    (Some(_), Some(_)) => out.flags |= F_ROUTE_REASSIGNED,
                    (Some(_), None) => out.flags |= F_ROUTE_UNASSIGNED,
                    _ => {}
                }
            }
            // other shards: the statement lets a shard leave a node that is no longer eligible at any time,
            // so only a move off a node that is (still) eligible is judged
            for (s, n) in &pre.asg {
                if s != shard && post.asg.get(s) != Some(n) && pre.eligible(n) && post.eligible(n) {
                    vio(
                        "C19:route-moved-another-shard-off-an-eligible-node".into(),
                        format!("route_write({shard}) changed the assignment of {s}: {n:?} -> {:?} although {n} is eligible and no rebalance happened. State before: {}", post.asg.get(s), pre.describe()),
                    );
                }
            }
        }
        (Op::Rebalance, Effect::Rebalance(r)) => {
            if post.asg != pre.asg {
                out.flags |= F_REBAL_MOVED | F_NONTRIVIAL;
            }
            let _ = r; // the property is silent on what a rebalance returns or where it moves shards
        }
        (_, Effect::Stuck(what)) => {
            out.terminal = true;
            vio(format!("C19:history-op-never-completes:{what}"), format!("{} did not complete. State before: {}", op.kind(), pre.describe()));
        }
        _ => {
            // membership / health / load operations: a shard may leave a node that this very operation made
            // ineligible (the statement allows that); it must not leave a node that stays eligible
            for (s, n) in &pre.asg {
                if post.asg.get(s) != Some(n) && pre.eligible(n) && post.eligible(n) {
                    vio(
                        format!("C19:{}-moved-a-shard-off-an-eligible-node", op.kind()),
                        format!("{:?} changed the assignment of {s}: {n:?} -> {:?} although {n} is eligible before and after and no rebalance happened. State before: {}", op, post.asg.get(s), pre.describe()),
                    );
                }
            }
            if let Op::Lose(_) = op {
                for n in &post.nodes {
                    let before = pre.node(&n.id).map(|p| p.status);
                    if before == Some(0) && n.status == 1 {
                        out.flags |= F_TICK_SUSPECTED | F_NONTRIVIAL;
                    }
                    if before != Some(2) && n.status == 2 {
                        out.flags |= F_TICK_FAILED | F_NONTRIVIAL;
                    }
                }
            }
            if let Op::Heartbeat(n) = op {
                let id = NODE_NAMES[n as usize];
                if pre.node(id).map(|p| p.status) == Some(1) && post.node(id).map(|p| p.status) == Some(0) {
                    out.flags |= F_RECOVERED | F_NONTRIVIAL;
                }
            }
        }
    }
}

/// Build fresh objects, replay `hist`, judge its last step. Runs on the calling thread, which must be
/// fresh (hash-map seeds) and have a large stack.
fn run_history_here(space: &Space, hist: &[Op], limit: u32) -> StepOut {
    run_history_desc(space, hist, limit, false)
}

fn run_history_desc(space: &Space, hist: &[Op], limit: u32, describe: bool) -> StepOut {
    let e = env::EnvState::new();
    env::install(&e);
    let rt = tokio::runtime::Builder::new_current_thread().enable_time().start_paused(true).build().expect("runtime");
    let out = rt.block_on(async {
        let mut w = World::new(e.clone(), space.strategy, space.shards.clone(), limit);
        w.start().await;
        let mut out = StepOut::default();
        let n = hist.len();
        if n == 0 {
            let s = w.snap().await;
            out.pre = s.fingerprint();
            out.post = out.pre;
            if describe {
                out.post_desc = s.describe();
            }
            return out;
        }
        for op in &hist[..n - 1] {
            let _ = w.apply(*op).await;
        }
        let pre = w.snap().await;
        let eff = w.apply(hist[n - 1]).await;
        let post = w.snap().await;
        out.pre = pre.fingerprint();
        out.post = post.fingerprint();
        judge(space, hist[n - 1], &pre, &post, &eff, &mut out);
        if describe {
            out.post_desc = post.describe();
            out.effect_desc = match &eff {
                Effect::Route(RouteRes::Node(v), p) => format!("Ok({}) in {p} poll(s)", v.id),
                Effect::Route(r, p) => format!("{r:?} in {p} poll(s)"),
                e => format!("{e:?}"),
            };
        }
        out
    });
    drop(rt);
    env::uninstall();
    out
}


// ------------------------------------------------------------------------------------------------
// reproducible HashMap seeds without a fresh thread per replay
// ------------------------------------------------------------------------------------------------
//
// std seeds every `HashMap` from a per-thread pair (k0, k1) drawn once from getrandom and increments k0
// for each new map. The registry's map layout (hence round-robin / load-based tie-breaking) depends on
// those keys, so every replay must start from the same pair. A fresh OS thread per replay guarantees
// that but costs ~100 us here (5x the replay itself). Instead a worker thread locates the k0 counter in
// its own static TLS block (the one word that increments by exactly one per `RandomState::new()`),
// rewinds it before each replay, and VERIFIES by behaviour that two maps created after a rewind hash
// identically and equal to what a fresh thread produces. If anything does not check out the thread
// falls back to one fresh thread per replay.


/// Touch every lazily initialised per-thread facility (tokio context, timers, ...) once, so that the
/// number of `RandomState::new()` calls a replay makes does not depend on whether it is the first on
/// its thread. Used identically by both isolation modes before they pin the hash keys.
fn warm_up() {
    let sp = Space {
        name: "warm-up".into(),
        strategy: 0,
        alphabet: vec![],
        depth: 0,
        nodedup_depth: 0,
        shards: ["w1".into(), "w2".into()],
        wall_cap_s: 1,
    };
    for strategy in 0..3 {
        let sp = Space { strategy, ..sp.clone() };
        let _ = run_history_here(&sp, &[Op::Register(0, 0), Op::Route(0), Op::Lose(16), Op::Heartbeat(0), Op::Rebalance, Op::Remove(0), Op::Route(1)], 50);
    }
}

struct KeyRewind {
    ptr: *mut u64,
    value: u64,
}

fn tls_block() -> Option<(*mut u64, usize)> {
    unsafe extern "C" fn cb(info: *mut libc::dl_phdr_info, _sz: libc::size_t, data: *mut libc::c_void) -> libc::c_int {
        let info = &*info;
        let out = &mut *(data as *mut Option<(*mut u64, usize)>);
        // the executable itself is the first object reported
        for i in 0..info.dlpi_phnum as usize {
            let ph = &*info.dlpi_phdr.add(i);
            if ph.p_type == libc::PT_TLS && !info.dlpi_tls_data.is_null() {
                *out = Some((info.dlpi_tls_data as *mut u64, ph.p_memsz as usize / 8));
            }
        }
        1 // stop after the first object
    }
    let mut out: Option<(*mut u64, usize)> = None;
    unsafe { libc::dl_iterate_phdr(Some(cb), &mut out as *mut _ as *mut libc::c_void) };
    out
}

fn probe_hash() -> u64 {
    use std::hash::BuildHasher;
    std::collections::hash_map::RandomState::new().hash_one(0xC19u64)
}

/// What a FRESH thread (interposed entropy installed first, one map created) hashes the probe to.
fn fresh_thread_probe() -> u64 {
    std::thread::spawn(|| {
        let e = env::EnvState::new();
        env::install(&e);
        warm_up();
        env::install(&e);
        let _first = std::collections::hash_map::RandomState::new();
        let p = probe_hash();
        env::uninstall();
        p
    })
    .join()
    .unwrap_or(0)
}

impl KeyRewind {
    /// Must be called on a thread that has not created any HashMap yet.
    fn locate(expected_probe: u64) -> Option<KeyRewind> {
        if std::env::var("VERIF_C19_FRESH_THREADS").is_ok() {
            return None;
        }
        let e = env::EnvState::new();
        env::install(&e);
        warm_up();
        env::install(&e);
        let _first = std::collections::hash_map::RandomState::new();
        let r = (|| {
            let (base, words) = tls_block()?;
            if words == 0 || words > (1 << 20) {
                return None;
            }
            let snap = || -> Vec<u64> { (0..words).map(|i| unsafe { std::ptr::read_volatile(base.add(i)) }).collect() };
            let a = snap();
            let _ = std::collections::hash_map::RandomState::new();
            let b = snap();
            let _ = std::collections::hash_map::RandomState::new();
            let c = snap();
            let hits: Vec<usize> = (0..words).filter(|&i| b[i] == a[i].wrapping_add(1) && c[i] == b[i].wrapping_add(1)).collect();
            if hits.len() != 1 {
                return None;
            }
            let kr = KeyRewind { ptr: unsafe { base.add(hits[0]) }, value: a[hits[0]] };
            // behavioural verification
            kr.rewind();
            let x1 = probe_hash();
            kr.rewind();
            let x2 = probe_hash();
            let x3 = probe_hash();
            if x1 != x2 || x1 == x3 || x1 != expected_probe {
                return None;
            }
            kr.rewind();
            Some(kr)
        })();
        env::uninstall();
        r
    }
    fn rewind(&self) {
        unsafe { std::ptr::write_volatile(self.ptr, self.value) };
    }
}

/// A replay executor bound to one search thread.
struct Replayer {
    rewind: Option<KeyRewind>,
}
impl Replayer {
    fn new(expected_probe: u64) -> Self {
        Self { rewind: KeyRewind::locate(expected_probe) }
    }
    fn run(&self, space: &Space, hist: &[Op], limit: u32) -> StepOut {
        match &self.rewind {
            Some(k) => {
                k.rewind();
                let r = std::panic::catch_unwind(std::panic::AssertUnwindSafe(|| run_history_here(space, hist, limit)));
                match r {
                    Ok(o) => o,
                    Err(_) => {
                        env::uninstall();
                        let mut o = StepOut::default();
                        o.terminal = true;
                        o.machinery.push("replay panicked outside the code under test".into());
                        o
                    }
                }
            }
            None => run_history(space, hist, limit),
        }
    }
}

fn run_history(space: &Space, hist: &[Op], limit: u32) -> StepOut {
    let space = space.clone();
    let hist = hist.to_vec();
    let h = std::thread::Builder::new()
        .stack_size(stack_bytes())
        .spawn(move || {
            let e = env::EnvState::new();
            env::install(&e);
            warm_up();
            env::install(&e);
            let _first = std::collections::hash_map::RandomState::new();
            env::uninstall();
            run_history_desc(&space, &hist, limit, true)
        })
        .expect("spawn replay thread");
    match h.join() {
        Ok(o) => o,
        Err(p) => {
            let m = p.downcast_ref::<String>().cloned().or_else(|| p.downcast_ref::<&str>().map(|s| s.to_string())).unwrap_or_default();
            let mut o = StepOut::default();
            o.terminal = true;
            o.machinery.push(format!("replay thread panicked outside the code under test: {m}"));
            o
        }
    }
}

// ------------------------------------------------------------------------------------------------
// the search (runs in the worker process)
// ------------------------------------------------------------------------------------------------

#[derive(Debug, Default, Clone, serde::Serialize, serde::Deserialize)]
pub struct FoundViolation {
    pub sig: String,
    pub msg: String,
    pub history: Vec<Op>,
    pub count: u64,
}

#[derive(Debug, Default, Clone, serde::Serialize, serde::Deserialize)]
pub struct SearchResult {
    pub states: u64,
    pub transitions: u64,
    pub depth_completed: usize,
    pub capped: bool,
    pub new_states_per_depth: Vec<u64>,
    pub flags: BTreeMap<String, u64>,
    pub violations: Vec<FoundViolation>,
    pub machinery: Vec<String>,
    pub samples: Vec<Value>,
    pub max_polls_terminating: u32,
    pub determinism_checks: u64,
    pub replays_with_key_rewind: u64,
    pub fresh_thread_crosschecks: u64,
    pub wall_s: f64,
    /// fingerprints (hex) of the states reached within `nodedup_depth` (for the cross-check)
    pub shallow_states: BTreeSet<String>,
    pub shallow_sigs: BTreeSet<String>,
}

struct Slots {
    file: std::fs::File,
}
impl Slots {
    fn publish(&self, slot: usize, idxs: &[u8]) {
        let mut buf = [0u8; SLOT_BYTES];
        buf[0] = 1;
        buf[1] = idxs.len() as u8;
        buf[2..2 + idxs.len()].copy_from_slice(idxs);
        let _ = self.file.write_all_at(&buf, (slot * SLOT_BYTES) as u64);
    }
    fn clear(&self, slot: usize) {
        let _ = self.file.write_all_at(&[0u8], (slot * SLOT_BYTES) as u64);
    }
}

fn search(space: &Space, dedup: bool, depth: usize, threads: usize, slots: Option<&Slots>, skip: &BTreeSet<Vec<u8>>, t0: Instant) -> SearchResult {
    let limit = poll_limit();
    let nops = space.alphabet.len();
    let mut res = SearchResult::default();
    let expected_probe = fresh_thread_probe();
    let root = run_history(space, &[], limit);
    let mut visited: HashMap<u128, u8> = HashMap::new();
    visited.insert(root.pre, 0);
    res.new_states_per_depth.push(1);
    let mut frontier: Vec<(Vec<u8>, u128)> = vec![(Vec::new(), root.pre)];
    let mut flagc = [0u64; FLAG_NAMES.len()];
    let mut vmap: BTreeMap<String, FoundViolation> = BTreeMap::new();
    let mut sample_flags_seen = 0u32;
    let cap = Duration::from_secs(space.wall_cap_s);
    for d in 1..=depth {
        let items = frontier.len() * nops;
        if items == 0 {
            res.depth_completed = depth; // fixpoint: nothing left to expand
            break;
        }
        let capped = AtomicBool::new(false);
        let mut next: Vec<(Vec<u8>, u128)> = Vec::new();
        let mut new_states = 0u64;
        // a level is processed in batches of 2M transitions (bounded memory); results are merged in item
        // order, so the representative history of every state is the first in alphabet order
        const BATCH: usize = 2_000_000;
        let mut lo = 0usize;
        while lo < items {
        let hi = (lo + BATCH).min(items);
        let next_item = AtomicUsize::new(lo);
        let items = hi;
        let mut outs: Vec<(usize, StepOut)> = Vec::with_capacity(hi - lo);
        let rewound = AtomicUsize::new(0);
        let xcheck = AtomicUsize::new(0);
        let xbad: std::sync::Mutex<Vec<String>> = std::sync::Mutex::new(Vec::new());
        std::thread::scope(|sc| {
            let mut hs = Vec::new();
            for t in 0..threads {
                let frontier = &frontier;
                let next_item = &next_item;
                let capped = &capped;
                let rewound = &rewound;
                let xcheck = &xcheck;
                let xbad = &xbad;
                let work = move || {
                    let rp = Replayer::new(expected_probe);
                    let mut local: Vec<(usize, StepOut)> = Vec::new();
                    loop {
                        let it = next_item.fetch_add(1, Ordering::Relaxed);
                        if it >= items {
                            break;
                        }
                        if it % 256 == 0 && t0.elapsed() > cap {
                            capped.store(true, Ordering::Relaxed);
                        }
                        if capped.load(Ordering::Relaxed) {
                            break;
                        }
                        let (h, _) = &frontier[it / nops];
                        let mut idxs = h.clone();
                        idxs.push((it % nops) as u8);
                        if skip.contains(&idxs) {
                            continue;
                        }
                        if let Some(s) = slots {
                            s.publish(t, &idxs);
                        }
                        let ops: Vec<Op> = idxs.iter().map(|i| space.alphabet[*i as usize]).collect();
                        let o = rp.run(space, &ops, limit);
                        if rp.rewind.is_some() {
                            rewound.fetch_add(1, Ordering::Relaxed);
                            // cross-validate the key-rewind isolation against a genuinely fresh thread
                            if it % 211 == 0 {
                                let f = run_history(space, &ops, limit);
                                xcheck.fetch_add(1, Ordering::Relaxed);
                                if (f.pre, f.post, f.flags, &f.violations) != (o.pre, o.post, o.flags, &o.violations) {
                                    xbad.lock().unwrap().push(format!("{ops:?}"));
                                }
                            }
                        }
                        if let Some(s) = slots {
                            s.clear(t);
                        }
                        local.push((it, o));
                    }
                    local
                };
                hs.push(std::thread::Builder::new().stack_size(stack_bytes()).spawn_scoped(sc, work).expect("spawn search thread"));
            }
            for h in hs {
                outs.extend(h.join().expect("search thread"));
            }
        });
        res.replays_with_key_rewind += rewound.load(Ordering::Relaxed) as u64;
        res.fresh_thread_crosschecks += xcheck.load(Ordering::Relaxed) as u64;
        for b in xbad.into_inner().unwrap().into_iter().take(3) {
            res.machinery.push(format!("hash-key rewind isolation differs from a fresh thread for history {b}"));
        }
        if capped.load(Ordering::Relaxed) {
            break;
        }
        outs.sort_by_key(|(i, _)| *i);
        for (it, o) in outs {
            let (h, fp) = &frontier[it / nops];
            let mut idxs = h.clone();
            idxs.push((it % nops) as u8);
            let ops: Vec<Op> = idxs.iter().map(|i| space.alphabet[*i as usize]).collect();
            for m in &o.machinery {
                if res.machinery.len() < 20 {
                    res.machinery.push(format!("{m} [history {:?}]", ops));
                }
            }
            if !o.machinery.is_empty() && o.pre == 0 {
                continue;
            }
            res.transitions += 1;
            if o.pre != *fp {
                if res.machinery.len() < 20 {
                    res.machinery.push(format!("replay is not deterministic: the state before the last op of {:?} differs from the state recorded for that history", ops));
                }
                continue;
            }
            res.determinism_checks += 1;
            for (i, c) in flagc.iter_mut().enumerate() {
                if o.flags & (1 << i) != 0 {
                    *c += 1;
                }
            }
            if !o.terminal && matches!(ops.last(), Some(Op::Route(_))) {
                res.max_polls_terminating = res.max_polls_terminating.max(o.polls);
            }
            // samples: the first transition showing each interesting flag
            let interesting = o.flags & (F_ROUTE_REASSIGNED | F_ROUTE_STICKY | F_REBAL_MOVED | F_TICK_FAILED | F_ROUTE_UNASSIGNED | F_HANG) & !sample_flags_seen;
            if interesting != 0 && res.samples.len() < 6 {
                sample_flags_seen |= interesting;
                let o = run_history(space, &ops, limit);
                res.samples.push(json!({
                    "space": space.name,
                    "history": ops.iter().map(|o| o.name(&space.shards)).collect::<Vec<_>>(),
                    "last_step": o.effect_desc,
                    "state_after": o.post_desc,
                }));
            }
            for (sig, msg) in &o.violations {
                if d <= space.nodedup_depth {
                    res.shallow_sigs.insert(sig.clone());
                }
                let e = vmap.entry(sig.clone()).or_insert_with(|| FoundViolation { sig: sig.clone(), msg: msg.clone(), history: ops.clone(), count: 0 });
                e.count += 1;
            }
            if o.terminal {
                continue;
            }
            if dedup {
                if !visited.contains_key(&o.post) {
                    visited.insert(o.post, d as u8);
                    new_states += 1;
                    next.push((idxs, o.post));
                }
            } else {
                if !visited.contains_key(&o.post) {
                    visited.insert(o.post, d as u8);
                    new_states += 1;
                }
                next.push((idxs, o.post));
            }
        }
        lo = hi;
        }
        if capped.load(Ordering::Relaxed) {
            res.capped = true;
            break;
        }
        res.new_states_per_depth.push(new_states);
        res.depth_completed = d;
        frontier = next;
        if std::env::var("VERIF_C19_PROGRESS").is_ok() {
            eprintln!("    [{}] depth {d}: +{new_states} states, {} transitions so far, {:.1}s", space.name, res.transitions, t0.elapsed().as_secs_f64());
        }
    }
    res.states = visited.len() as u64;
    for (i, c) in flagc.iter().enumerate() {
        res.flags.insert(FLAG_NAMES[i].to_string(), *c);
    }
    res.violations = vmap.into_values().collect();
    for (fp, d) in &visited {
        if (*d as usize) <= space.nodedup_depth {
            res.shallow_states.insert(format!("{fp:032x}"));
        }
    }
    res.wall_s = t0.elapsed().as_secs_f64();
    res
}

#[derive(Debug, Default, Clone, serde::Serialize, serde::Deserialize)]
struct WorkerOut {
    main: SearchResult,
    nodedup: SearchResult,
}

fn worker_main() -> i32 {
    let space: Space = serde_json::from_str(&std::env::var("VERIF_C19_SPACE").expect("space")).expect("space json");
    let out_path = std::env::var("VERIF_C19_OUT").expect("out path");
    if let Ok(case) = std::env::var("VERIF_C19_CASE") {
        // single-case mode (abort attribution): run one history; exit 0 if the process survives
        let idxs: Vec<u8> = serde_json::from_str(&case).expect("case");
        let ops: Vec<Op> = idxs.iter().map(|i| space.alphabet[*i as usize]).collect();
        let o = run_history(&space, &ops, poll_limit());
        let _ = std::fs::write(&out_path, json!({"violations": o.violations, "effect": o.effect_desc}).to_string());
        return 0;
    }
    let skip: BTreeSet<Vec<u8>> = std::env::var("VERIF_C19_SKIP").ok().and_then(|s| serde_json::from_str(&s).ok()).unwrap_or_default();
    let threads: usize = std::env::var("VERIF_C19_THREADS").ok().and_then(|s| s.parse().ok()).unwrap_or(16);
    let slots = std::env::var("VERIF_C19_SLOTS").ok().map(|p| Slots { file: std::fs::OpenOptions::new().write(true).open(p).expect("slot file") });
    let t0 = Instant::now();
    let nodedup = search(&space, false, space.nodedup_depth.min(space.depth), threads, slots.as_ref(), &skip, t0);
    let t1 = Instant::now();
    let main = search(&space, true, space.depth, threads, slots.as_ref(), &skip, t1);
    let body = serde_json::to_string(&WorkerOut { main, nodedup }).expect("serialize");
    let mut f = std::fs::File::create(&out_path).expect("out file");
    f.write_all(body.as_bytes()).expect("write out");
    0
}

// ------------------------------------------------------------------------------------------------
// parent side
// ------------------------------------------------------------------------------------------------

fn scratch(name: &str) -> std::path::PathBuf {
    std::env::temp_dir().join(format!("c19-{}-{name}", std::process::id()))
}

fn spawn_worker(space: &Space, out: &std::path::Path, slots: Option<&std::path::Path>, skip: &BTreeSet<Vec<u8>>, case: Option<&[u8]>) -> std::io::Result<std::process::ExitStatus> {
    let exe = std::env::current_exe()?;
    let mut c = std::process::Command::new(exe);
    c.arg("C19").arg("quick");
    c.env("VERIF_C19_WORKER", "1");
    c.env("VERIF_C19_SPACE", serde_json::to_string(space).unwrap());
    c.env("VERIF_C19_OUT", out);
    c.env("VERIF_C19_SKIP", serde_json::to_string(skip).unwrap());
    if let Some(s) = slots {
        c.env("VERIF_C19_SLOTS", s);
    }
    if let Some(cs) = case {
        c.env("VERIF_C19_CASE", serde_json::to_string(cs).unwrap());
    }
    c.stderr(if std::env::var("VERIF_C19_PROGRESS").is_ok() { std::process::Stdio::inherit() } else { std::process::Stdio::null() });
    c.stdout(std::process::Stdio::null());
    // a worker that neither finishes nor dies (a replay spinning inside the code under test) is killed
    // and then treated exactly like one that died
    let limit = Duration::from_secs(if case.is_some() { 30 } else { space.wall_cap_s * 2 + 120 });
    let t0 = Instant::now();
    let mut child = c.spawn()?;
    loop {
        if let Some(st) = child.try_wait()? {
            return Ok(st);
        }
        if t0.elapsed() > limit {
            let _ = child.kill();
            return child.wait();
        }
        std::thread::sleep(Duration::from_millis(if case.is_some() { 5 } else { 25 }));
    }
}

fn in_flight(slots: &std::path::Path) -> Vec<Vec<u8>> {
    let mut v = Vec::new();
    if let Ok(b) = std::fs::read(slots) {
        for ch in b.chunks(SLOT_BYTES) {
            if ch.len() == SLOT_BYTES && ch[0] == 1 {
                let n = ch[1] as usize;
                v.push(ch[2..2 + n.min(SLOT_BYTES - 2)].to_vec());
            }
        }
    }
    v.sort();
    v.dedup();
    v
}

/// Run one sub-space in a worker process; a worker that dies is restarted with the culprit cases
/// (found by re-running the in-flight cases one by one) on its skip list.
fn run_space(space: &Space, rep: &mut Report) -> Option<WorkerOut> {
    let out = scratch(&format!("{}.out", space.name.replace('/', "_")));
    let slots = scratch(&format!("{}.slots", space.name.replace('/', "_")));
    let mut skip: BTreeSet<Vec<u8>> = BTreeSet::new();
    let mut result = None;
    for _attempt in 0..6 {
        let _ = std::fs::remove_file(&out);
        let _ = std::fs::write(&slots, vec![0u8; SLOT_BYTES * 64]);
        let st = match spawn_worker(space, &out, Some(&slots), &skip, None) {
            Ok(s) => s,
            Err(e) => {
                rep.machinery(format!("[{}] cannot start the worker process: {e}", space.name));
                break;
            }
        };
        if st.success() {
            match std::fs::read_to_string(&out).ok().and_then(|s| serde_json::from_str::<WorkerOut>(&s).ok()) {
                Some(w) => result = Some(w),
                None => rep.machinery(format!("[{}] worker exited normally without a readable result", space.name)),
            }
            break;
        }
        // the worker died: which of the in-flight cases kills a process on its own?
        let cands = in_flight(&slots);
        let mut culprits = 0;
        for c in &cands {
            let single = scratch("single.out");
            let s = spawn_worker(space, &single, None, &BTreeSet::new(), Some(c));
            let _ = std::fs::remove_file(&single);
            if !s.map(|s| s.success()).unwrap_or(false) {
                culprits += 1;
                skip.insert(c.clone());
                let ops: Vec<Op> = c.iter().map(|i| space.alphabet[*i as usize]).collect();
                let last = ops.last().map(|o| o.kind()).unwrap_or("?");
                rep.violation(
                    &format!("C19:process-abort-or-hang-during-{last}"),
                    &format!(
                        "the process running history {:?} in space {} died or had to be killed ({st}); with route_write this is the stack overflow of its unbounded boxed recursion",
                        ops.iter().map(|o| o.name(&space.shards)).collect::<Vec<_>>(),
                        space.name
                    ),
                    json!({"kind": "history", "space": space, "ops": ops}),
                );
            }
        }
        if culprits == 0 {
            rep.machinery(format!("[{}] worker died ({st}) and none of the {} in-flight cases reproduces the death on its own", space.name, cands.len()));
            break;
        }
    }
    if result.is_none() && rep.machinery_errors.is_empty() {
        rep.machinery(format!("[{}] the worker kept dying: {} aborting cases found, search not completed", space.name, skip.len()));
    }
    let _ = std::fs::remove_file(&out);
    let _ = std::fs::remove_file(&slots);
    result
}

/// Pick two shard ids that the real consistent-hash ring over {node-a, node-b} sends to different
/// nodes, by asking the real code (so both ring nodes are exercised).
fn pick_shards() -> Result<[String; 2], String> {
    let h = std::thread::Builder::new()
        .stack_size(stack_bytes())
        .spawn(|| {
            let e = env::EnvState::new();
            env::install(&e);
            let rt = tokio::runtime::Builder::new_current_thread().enable_time().start_paused(true).build().unwrap();
            let r = rt.block_on(async {
                let cands: Vec<String> = (1..=32).map(|i| format!("shard-{i}")).collect();
                let mut w = World::new(e.clone(), 0, [cands[0].clone(), cands[1].clone()], 50);
                w.start().await;
                w.apply(Op::Register(0, 0)).await;
                w.apply(Op::Register(1, 2)).await;
                let (mut a, mut b) = (None, None);
                for c in &cands {
                    match w.route(c.clone()).await {
                        Effect::Route(RouteRes::Node(n), _) if n.id == NODE_NAMES[0] && a.is_none() => a = Some(c.clone()),
                        Effect::Route(RouteRes::Node(n), _) if n.id == NODE_NAMES[1] && b.is_none() => b = Some(c.clone()),
                        _ => {}
                    }
                }
                match (a, b) {
                    (Some(a), Some(b)) => Ok([a, b]),
                    // a router that cannot even do this shows up as violations in the search itself
                    _ => Ok([cands[0].clone(), cands[1].clone()]),
                }
            });
            drop(rt);
            env::uninstall();
            r
        })
        .map_err(|e| e.to_string())?;
    h.join().map_err(|_| "shard calibration panicked".to_string())?
}

/// The clock machinery really drives the real health check: +16 s -> Suspected, heartbeat -> Healthy,
/// +31 s -> Failed, and a tick without lost heartbeats changes nothing.
fn selftest_health(shards: &[String; 2]) -> Result<(), String> {
    let sp = Space { name: "selftest".into(), strategy: 1, alphabet: vec![], depth: 0, nodedup_depth: 0, shards: shards.clone(), wall_cap_s: 10 };
    let status_after = |ops: &[Op]| -> String {
        let o = run_history(&sp, ops, 50);
        o.post_desc
    };
    let a = status_after(&[Op::Register(0, 0), Op::Lose(16)]);
    if !a.contains("Suspected") {
        return Err(format!("register, +16 s, health tick: expected Suspected, got {a}"));
    }
    let b = status_after(&[Op::Register(0, 0), Op::Lose(16), Op::Heartbeat(0)]);
    if !b.contains("Healthy") || !b.contains("hb-age0s") {
        return Err(format!("heartbeat after suspicion: expected Healthy with age 0, got {b}"));
    }
    let c = status_after(&[Op::Register(0, 0), Op::Lose(31)]);
    if !c.contains("Failed") {
        return Err(format!("register, +31 s, health tick: expected Failed, got {c}"));
    }
    let d = status_after(&[Op::Register(0, 0), Op::Lose(16), Op::Lose(16)]);
    if !d.contains("Failed") {
        return Err(format!("register, +16 s, +16 s: expected Failed, got {d}"));
    }
    let e = status_after(&[Op::Register(0, 0), Op::Lose(16), Op::Register(1, 0)]);
    if !(e.contains("node-a:Ingester/Suspected") && e.contains("node-b:Ingester/Healthy")) {
        return Err(format!("late registration: expected node-a Suspected and node-b Healthy, got {e}"));
    }
    Ok(())
}

pub fn run(tier: &str) -> i32 {
    if std::env::var("VERIF_C19_WORKER").is_ok() {
        return worker_main();
    }
    let mut rep = Report::new("C19", tier, "model_checking");
    rep.assume("eligible = status Healthy, type Ingester or Combined, load < 95 % ('not overloaded' is read as the threshold can_accept_writes uses at the pinned commit); the real can_accept_writes() is compared with this reading on every node of every state");
    rep.assume("histories are sequential: one operation at a time on a current-thread runtime; a concurrent membership change in the middle of one route_write is not explored");
    rep.assume("an Err result is always accepted (the statement allows 'or an error'), also when some node is eligible; such cases are only counted (route_errors_while_some_node_is_eligible)");
    rep.assume("any rebalance() call justifies any move of any shard; what rebalance returns is not judged");
    rep.assume("the assignment map of ShardAssignment is the authority for 'assigned to one node at a time'; stale NodeInfo.shards lists are only counted");
    rep.assume("state fingerprint = every NodeInfo field (heartbeat age quantised to <15 s / 15..30 s / >30 s, the only distinctions the 30 s timeout makes; shards list sorted: only len()/contains() are read), the assignment map, the node set of the hash ring (verif-hooks accessor; checked to have 100 entries per node), and the insert/remove sequence of the registry HashMap (same hasher keys in every replay: fresh thread + interposed getrandom). The layout of the assignments HashMap is not in the fingerprint: it only orders shard lists and move lists");
    rep.assume("lost heartbeats are modelled as a jump of std::time::Instant by 16 s or 31 s for all nodes at once, followed by exactly one tick of the real run_health_checks task (tokio clock advanced by its 5 s interval); registry timeout 30 s");
    rep.assume("a route_write still running after 50 polls of its task is judged non-terminating (tokio's cooperative budget turns every 128 lock acquisitions into one poll; terminating routes were measured at max_polls_terminating_route polls)");

    let shards = match pick_shards() {
        Ok(s) => s,
        Err(e) => {
            rep.machinery(format!("shard calibration: {e}"));
            return rep.finish();
        }
    };
    if let Err(e) = selftest_health(&shards) {
        rep.machinery(format!("health-check self test: {e}"));
        return rep.finish();
    }
    let mut totals: BTreeMap<String, u64> = BTreeMap::new();
    let mut max_polls = 0u32;
    let mut space_rows = Vec::new();
    // wall budget for the whole run, shared out over the sub-spaces still to do; a sub-space that runs out
    // of its share stops at the last completed depth and the evidence says exhaustive: false for it
    let budget = Duration::from_secs(std::env::var("VERIF_C19_BUDGET_S").ok().and_then(|s| s.parse().ok()).unwrap_or(if tier == "thorough" { 1320 } else { 50 }));
    let all_spaces = spaces(tier, &shards);
    let n_spaces = all_spaces.len();
    for (si, mut space) in all_spaces.into_iter().enumerate() {
        let t = Instant::now();
        let left = budget.saturating_sub(rep.t0.elapsed()).as_secs();
        space.wall_cap_s = (left / (n_spaces - si) as u64).max(20);
        let Some(w) = run_space(&space, &mut rep) else { continue };
        let m = &w.main;
        println!(
            "  C19 {:<22} depth={} ops={:<2} states={:<8} transitions={:<9} hangs={:<6} route: ok={} err={} sticky={} moved={} | no-dedup depth {}: {} histories, {} states {} | {:.1}s{}",
            space.name,
            m.depth_completed,
            space.alphabet.len(),
            m.states,
            m.transitions,
            m.flags.get(FLAG_NAMES[10]).copied().unwrap_or(0),
            m.flags.get(FLAG_NAMES[0]).copied().unwrap_or(0),
            m.flags.get(FLAG_NAMES[1]).copied().unwrap_or(0),
            m.flags.get(FLAG_NAMES[2]).copied().unwrap_or(0),
            m.flags.get(FLAG_NAMES[3]).copied().unwrap_or(0),
            w.nodedup.depth_completed,
            w.nodedup.transitions,
            w.nodedup.states,
            if w.nodedup.shallow_states == m.shallow_states && w.nodedup.shallow_sigs == m.shallow_sigs { "(= dedup search)" } else { "(DIFFERS)" },
            t.elapsed().as_secs_f64(),
            if m.capped { " CAPPED by the wall budget: last depth incomplete" } else { "" }
        );
        // cross-check: the deduplicating search reaches exactly the states / signatures of the plain enumeration
        if !w.nodedup.capped && m.depth_completed >= w.nodedup.depth_completed {
            if w.nodedup.shallow_states != m.shallow_states {
                rep.machinery(format!(
                    "[{}] deduplication cross-check: enumeration without deduplication reaches {} states within depth {}, the deduplicating search {}",
                    space.name,
                    w.nodedup.shallow_states.len(),
                    space.nodedup_depth,
                    m.shallow_states.len()
                ));
            }
            if w.nodedup.shallow_sigs != m.shallow_sigs {
                rep.machinery(format!("[{}] deduplication cross-check: violation signatures differ: {:?} vs {:?}", space.name, w.nodedup.shallow_sigs, m.shallow_sigs));
            }
        }
        for part in [&w.main, &w.nodedup] {
            for e in &part.machinery {
                rep.machinery(format!("[{}] {e}", space.name));
            }
            for v in &part.violations {
                rep.violation_n(
                    &v.sig,
                    &format!("[{}] after {:?}: {}", space.name, v.history.iter().map(|o| o.name(&space.shards)).collect::<Vec<_>>(), v.msg),
                    json!({"kind": "history", "space": space, "ops": v.history, "ops_readable": v.history.iter().map(|o| o.name(&space.shards)).collect::<Vec<_>>()}),
                    if std::ptr::eq(part, &w.main) { v.count } else { 0 },
                );
            }
        }
        if m.capped {
            rep.set("exhaustive", false);
        }
        for (k, v) in &m.flags {
            *totals.entry(k.clone()).or_default() += v;
        }
        max_polls = max_polls.max(m.max_polls_terminating);
        rep.add_u64("states", m.states);
        rep.add_u64("transitions", m.transitions);
        rep.add_u64("traces_validated_against_impl", m.determinism_checks);
        rep.add_u64("evaluations", m.transitions + w.nodedup.transitions);
        rep.add_u64("nodedup_crosscheck_histories", w.nodedup.transitions);
        rep.add_u64("replays_with_hash_key_rewind", m.replays_with_key_rewind + w.nodedup.replays_with_key_rewind);
        rep.add_u64("replays_crosschecked_on_a_fresh_thread", m.fresh_thread_crosschecks + w.nodedup.fresh_thread_crosschecks);
        // one sample per space, a different kind of step each time (six spaces, six sample slots)
        if !m.samples.is_empty() {
            let k = space_rows.len() % m.samples.len();
            rep.push_sample(m.samples[(m.samples.len() - 1).saturating_sub(k)].clone());
        }
        space_rows.push(json!({
            "space": space.name, "strategy": strategy_name(space.strategy), "alphabet": space.alphabet.iter().map(|o| o.name(&space.shards)).collect::<Vec<_>>(),
            "depth_requested": space.depth, "depth_completed": m.depth_completed, "capped": m.capped,
            "states": m.states, "transitions": m.transitions, "new_states_per_depth": m.new_states_per_depth,
            "nodedup_depth": w.nodedup.depth_completed, "nodedup_histories": w.nodedup.transitions, "nodedup_states": w.nodedup.states,
            "counts": m.flags, "wall_s": (t.elapsed().as_secs_f64() * 100.0).round() / 100.0,
        }));
    }
    rep.set("spaces", json!(space_rows));
    rep.set("shards", json!(shards));
    rep.set("counts", json!(totals));
    rep.set("max_polls_terminating_route", max_polls);
    rep.set("poll_limit", poll_limit());
    let nt = totals.get(FLAG_NAMES[13]).copied().unwrap_or(0);
    rep.set("distinct_nontrivial", nt);
    rep.set(
        "rule",
        "breadth-first search per (cluster, strategy): every operation of the alphabet applied to every distinct state up to the depth, each transition by replaying the state's first (shortest, simplest-first) history on freshly built real objects; states are distinct by full-state fingerprint. Non-trivial transition = a route that returned a node or changed an assignment, a rebalance that moved a shard, a health tick that marked a node suspected/failed, a heartbeat that recovered a node; each (state, op) pair is executed once, so the count is of distinct cases",
    );
    // vacuity guards
    let need = |rep: &mut Report, i: usize, what: &str| {
        if totals.get(FLAG_NAMES[i]).copied().unwrap_or(0) == 0 {
            rep.machinery(format!("vacuity guard: {what}"));
        }
    };
    if !space_rows.is_empty() {
        need(&mut rep, 0, "no route ever returned a node");
        need(&mut rep, 1, "no route ever returned an error");
        need(&mut rep, 2, "no route ever reused an existing eligible assignment");
        need(&mut rep, 4, "no route ever assigned a new shard");
        need(&mut rep, 6, "no rebalance ever moved a shard");
        need(&mut rep, 7, "no health tick ever marked a node suspected");
        need(&mut rep, 8, "no health tick ever marked a node failed");
        need(&mut rep, 9, "no heartbeat ever recovered a suspected node");
        let from_inel: u64 = (14..=18).map(|i| totals.get(FLAG_NAMES[i]).copied().unwrap_or(0)).sum();
        if from_inel == 0 {
            rep.machinery("vacuity guard: no route was ever issued for a shard whose assigned node had become ineligible");
        }
        for i in 14..=17 {
            need(&mut rep, i, &format!("never observed: {}", FLAG_NAMES[i]));
        }
        let moved = totals.get(FLAG_NAMES[3]).copied().unwrap_or(0) + totals.get(FLAG_NAMES[12]).copied().unwrap_or(0) + totals.get(FLAG_NAMES[10]).copied().unwrap_or(0);
        if moved == 0 {
            rep.machinery("vacuity guard: a route never had to leave an ineligible node (no reassignment, no unassignment, no retry loop)");
        }
    }
    rep.finish()
}

pub fn replay(v: &Value) -> i32 {
    let space: Space = match serde_json::from_value(v["space"].clone()) {
        Ok(s) => s,
        Err(e) => {
            println!("MACHINERY: replay file has no space: {e}");
            return 2;
        }
    };
    let ops: Vec<Op> = serde_json::from_value(v["ops"].clone()).unwrap_or_default();
    println!("space {} (strategy {}), poll limit {}", space.name, strategy_name(space.strategy), poll_limit());
    let mut failed = false;
    for n in 1..=ops.len() {
        let o = run_history(&space, &ops[..n], poll_limit());
        println!("{n:>2}. {:<40} -> {}", ops[n - 1].name(&space.shards), if o.effect_desc.is_empty() { "done".into() } else { o.effect_desc.clone() });
        println!("      {}", o.post_desc);
        for m in &o.machinery {
            println!("MACHINERY: {m}");
        }
        if n == ops.len() {
            for (sig, msg) in &o.violations {
                println!("violation [{sig}]: {msg}");
                failed = true;
            }
        }
    }
    if failed {
        1
    } else {
        println!("no violation on this history");
        0
    }
}
