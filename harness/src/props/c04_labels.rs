//! C04, sub-space "label sets": datasets whose chunks do not share one schema. The ingester starts a new chunk at every
//! schema change, so two clients with label sets {host} and {region} leave chunks with different columns side by side.
//! Every sequence of 2..3 chunk shapes x both catalog back ends x both timestamp column types; every query of a small
//! family (projections, label predicates, IS NULL, GROUP BY, count(label)) over windows that select all / the first / the
//! last chunk; each answer is compared with DataFusion's over one in-memory table holding every ingested row under the
//! union of the columns (a label a row does not carry is NULL).

use super::common::*;
use crate::engine::report::Report;
use arrow_array::{Array, Float64Array, Int64Array, RecordBatch, StringArray, TimestampNanosecondArray};
use arrow_schema::{DataType, Field, Schema, TimeUnit};
use cardinalsin::ingester::ChunkMetadata;
use cardinalsin::metadata::{LocalMetadataClient, MetadataClient};
use cardinalsin::query::{QueryConfig, QueryNode};
use serde_json::{json, Value};
use std::collections::BTreeMap;
use std::sync::{Arc, Mutex};

#[derive(Debug, Clone, serde::Serialize, serde::Deserialize)]
pub struct LCase {
    pub os: bool,
    pub ts_type: bool,
    /// one entry per chunk (in time order): index into `shapes()`
    pub chunks: Vec<usize>,
}

fn shapes() -> Vec<Vec<&'static str>> {
    vec![vec!["host"], vec!["region"], vec!["host", "region"], vec![], vec!["host"], vec!["region"]]
}

/// shapes 4 and 5 declare their label NOT NULL (and every row carries it), as clients that always send the label do
fn not_null(shape: usize) -> bool {
    shape >= 4
}

const SEC: i64 = 1_000_000_000;

fn base_ts() -> i64 {
    hour_bucket(crate::engine::env::EPOCH_NS) - HOUR + 60 * SEC
}

/// (id, ts, label -> value) of the two rows of chunk `i`
fn chunk_rows(i: usize, shape: usize) -> Vec<(i64, i64, BTreeMap<&'static str, String>)> {
    let labels = shapes()[shape].clone();
    (0..2)
        .map(|k| {
            let id = (i * 10 + k + 1) as i64;
            let ts = base_ts() + (i as i64) * 600 * SEC + k as i64 * SEC;
            let mut m = BTreeMap::new();
            for (j, l) in labels.iter().enumerate() {
                // the second row of a chunk has no value for the chunk's last label (unless the label is declared NOT NULL)
                if !(k == 1 && j + 1 == labels.len()) || not_null(shape) {
                    m.insert(*l, format!("{l}-{id}"));
                }
            }
            (id, ts, m)
        })
        .collect()
}

fn ts_field(ts_type: bool) -> Field {
    if ts_type {
        Field::new("timestamp", DataType::Timestamp(TimeUnit::Nanosecond, Some("UTC".into())), false)
    } else {
        Field::new("timestamp", DataType::Int64, false)
    }
}

fn batch_of(rows: &[(i64, i64, BTreeMap<&'static str, String>)], labels: &[&'static str], ts_type: bool) -> RecordBatch {
    batch_of_nn(rows, labels, ts_type, false)
}

fn batch_of_nn(rows: &[(i64, i64, BTreeMap<&'static str, String>)], labels: &[&'static str], ts_type: bool, labels_not_null: bool) -> RecordBatch {
    let mut fields = vec![ts_field(ts_type), Field::new("metric_name", DataType::Utf8, false), Field::new("value_f64", DataType::Float64, true), Field::new("id", DataType::Int64, false)];
    let ts: Vec<i64> = rows.iter().map(|r| r.1).collect();
    let mut cols: Vec<Arc<dyn Array>> = vec![
        if ts_type { Arc::new(TimestampNanosecondArray::from(ts).with_timezone("UTC")) } else { Arc::new(Int64Array::from(ts)) },
        Arc::new(StringArray::from(vec!["cpu"; rows.len()])),
        Arc::new(Float64Array::from(rows.iter().map(|r| r.0 as f64).collect::<Vec<_>>())),
        Arc::new(Int64Array::from(rows.iter().map(|r| r.0).collect::<Vec<_>>())),
    ];
    for l in labels {
        fields.push(Field::new(*l, DataType::Utf8, !labels_not_null));
        cols.push(Arc::new(StringArray::from(rows.iter().map(|r| r.2.get(l).cloned()).collect::<Vec<Option<String>>>())));
    }
    RecordBatch::try_new(Arc::new(Schema::new(fields)), cols).expect("label batch")
}

/// rows as sorted "column=value" lists; `drop_nulls`: a NULL value and a missing column are the same thing (SELECT *)
fn norm_by_name(batches: &[RecordBatch], drop_nulls: bool) -> Result<Vec<String>, String> {
    use arrow::util::display::{ArrayFormatter, FormatOptions};
    let opts = FormatOptions::default().with_null("NULL");
    let mut out = Vec::new();
    for b in batches {
        let schema = b.schema();
        let fm: Vec<ArrayFormatter> = b.columns().iter().map(|c| ArrayFormatter::try_new(c.as_ref(), &opts).map_err(|e| e.to_string())).collect::<Result<_, _>>()?;
        for i in 0..b.num_rows() {
            let mut kv: Vec<String> = Vec::new();
            for (c, f) in fm.iter().enumerate() {
                if drop_nulls && b.column(c).is_null(i) {
                    continue;
                }
                // timestamps of the two column types render differently; compare the instant
                let v = match schema.field(c).data_type() {
                    DataType::Timestamp(TimeUnit::Nanosecond, _) => {
                        use arrow_array::cast::AsArray;
                        b.column(c).as_primitive::<arrow_array::types::TimestampNanosecondType>().value(i).to_string()
                    }
                    _ => f.value(i).to_string(),
                };
                kv.push(format!("{}={}", schema.field(c).name(), v));
            }
            kv.sort();
            out.push(kv.join("|"));
        }
    }
    out.sort();
    Ok(out)
}

#[derive(Debug, Clone)]
struct LQ {
    sql: String,
    class: &'static str,
    star: bool,
    /// names a label that no chunk selected by the window carries (other chunks of the data set do)
    outside: bool,
}

fn window_sql(ts_type: bool, lo: i64, hi: i64) -> String {
    if ts_type {
        format!("timestamp >= to_timestamp_nanos({lo}) AND timestamp <= to_timestamp_nanos({hi})")
    } else {
        format!("timestamp >= {lo} AND timestamp <= {hi}")
    }
}

fn queries(c: &LCase) -> Vec<LQ> {
    let n = c.chunks.len();
    let all_labels: Vec<&'static str> = {
        let mut v = Vec::new();
        for s in &c.chunks {
            for l in &shapes()[*s] {
                if !v.contains(l) {
                    v.push(*l);
                }
            }
        }
        v
    };
    // windows: all chunks, only the first, only the last
    let span = |a: usize, b: usize| (base_ts() + a as i64 * 600 * SEC - SEC, base_ts() + b as i64 * 600 * SEC + 5 * SEC);
    let wins: Vec<(&str, usize, usize)> = vec![("all", 0, n - 1), ("first", 0, 0), ("last", n - 1, n - 1)];
    let mut out = Vec::new();
    for (_wn, a, b) in wins {
        let (lo, hi) = span(a, b);
        let w = window_sql(c.ts_type, lo, hi);
        let selected_labels: Vec<&str> = (a..=b).flat_map(|i| shapes()[c.chunks[i]].clone()).collect();
        let mut push = |sql: String, class: &'static str, star: bool, label: Option<&str>| {
            let outside = label.map(|l| !selected_labels.contains(&l)).unwrap_or(false);
            out.push(LQ { sql, class, star, outside });
        };
        push(format!("SELECT id FROM metrics WHERE {w}"), "plain", false, None);
        push(format!("SELECT * FROM metrics WHERE {w}"), "star", true, None);
        push(format!("SELECT count(*) AS n FROM metrics WHERE {w}"), "count", false, None);
        for l in &all_labels {
            push(format!("SELECT id, {l} FROM metrics WHERE {w}"), "project-label", false, Some(l));
            push(format!("SELECT id FROM metrics WHERE {w} AND {l} IS NULL"), "label-is-null", false, Some(l));
            push(format!("SELECT id FROM metrics WHERE {w} AND {l} IS NOT NULL"), "label-is-not-null", false, Some(l));
            push(format!("SELECT {l}, count(*) AS n FROM metrics WHERE {w} GROUP BY {l}"), "group-by-label", false, Some(l));
            push(format!("SELECT count({l}) AS n FROM metrics WHERE {w}"), "count-label", false, Some(l));
            for i in a..=b {
                let id = (i * 10 + 1) as i64;
                push(format!("SELECT id FROM metrics WHERE {w} AND {l} = '{l}-{id}'"), "label-equals", false, Some(l));
            }
            push(format!("SELECT id FROM metrics WHERE {w} AND {l} <> '{l}-1'"), "label-differs", false, Some(l));
        }
    }
    out
}

struct LOut {
    evaluations: u64,
    agree_rows: u64,
    both_reject: u64,
    outside_evals: u64,
    fails: Vec<(String, String, String)>,
}

async fn run_lcase(c: &LCase, only_sql: Option<&str>) -> Result<LOut, String> {
    let store = new_mem();
    let setup: Arc<dyn MetadataClient> = if c.os { Arc::new(os_client(store.clone())) } else { Arc::new(LocalMetadataClient::new()) };
    let mut all_rows = Vec::new();
    let mut union: Vec<&'static str> = Vec::new();
    for (i, s) in c.chunks.iter().enumerate() {
        let rows = chunk_rows(i, *s);
        let labels = shapes()[*s].clone();
        for l in &labels {
            if !union.contains(l) {
                union.push(*l);
            }
        }
        let bytes = encode_parquet(&batch_of_nn(&rows, &labels, c.ts_type, not_null(*s)));
        let p = format!("data/t/chunk_{i:03}.parquet");
        let m = ChunkMetadata { path: p.clone(), min_timestamp: rows[0].1, max_timestamp: rows[1].1, row_count: 2, size_bytes: bytes.len() as u64 };
        store.put(&object_store::path::Path::from(p.as_str()), bytes.into()).await.map_err(|e| e.to_string())?;
        setup.register_chunk(&p, &m).await.map_err(|e| e.to_string())?;
        all_rows.extend(rows);
    }
    let meta: Arc<dyn MetadataClient> = if c.os { Arc::new(os_client(store.clone())) } else { setup };
    // reference: one table, every row, union of the columns
    let ctx = datafusion::prelude::SessionContext::new_with_config(datafusion::prelude::SessionConfig::new().with_target_partitions(1));
    let rb = batch_of(&all_rows, &union, c.ts_type);
    let t = datafusion::datasource::MemTable::try_new(rb.schema(), vec![vec![rb]]).map_err(|e| e.to_string())?;
    ctx.register_table("metrics", Arc::new(t)).map_err(|e| e.to_string())?;
    let qc = QueryConfig { l1_cache_size: 8 * 1024 * 1024, l2_cache_size: 0, l2_cache_dir: None, ..QueryConfig::default() };
    let warm = QueryNode::new(qc.clone(), store.clone(), meta.clone(), super::c03::storage_config()).await.map_err(|e| format!("QueryNode::new: {e}"))?;
    let warm_s = QueryNode::new(qc.clone(), store.clone(), meta.clone(), super::c03::storage_config()).await.map_err(|e| format!("QueryNode::new: {e}"))?;
    let mut out = LOut { evaluations: 0, agree_rows: 0, both_reject: 0, outside_evals: 0, fails: Vec::new() };
    for q in queries(c) {
        if let Some(s) = only_sql {
            if s != q.sql {
                continue;
            }
        }
        let want = match ctx.sql(&q.sql).await {
            Ok(df) => df.collect().await.map_err(|e| e.to_string()).and_then(|b| norm_by_name(&b, q.star)),
            Err(e) => Err(e.to_string()),
        };
        // the same statement on a node that has served the previous statements, and on a fresh node
        let fresh = QueryNode::new(qc.clone(), store.clone(), meta.clone(), super::c03::storage_config()).await.map_err(|e| format!("QueryNode::new: {e}"))?;
        let fresh_s = QueryNode::new(qc.clone(), store.clone(), meta.clone(), super::c03::storage_config()).await.map_err(|e| format!("QueryNode::new: {e}"))?;
        for (which, node) in [("warm-node", &warm), ("fresh-node", &fresh), ("stream-historical-phase@warm-node", &warm_s), ("stream-historical-phase@fresh-node", &fresh_s)] {
            let got = if which.starts_with("stream") {
                // the historical phase of a streaming subscription (no live batches are ever sent)
                let (_tx, rx) = tokio::sync::broadcast::channel::<RecordBatch>(8);
                let exec = cardinalsin::query::StreamingQueryExecutor::new(node.engine.clone(), meta.clone(), rx);
                match exec.execute(&q.sql).await {
                    Err(e) => Err(e.to_string()),
                    Ok(mut out_rx) => {
                        let mut batches = Vec::new();
                        let mut err = None;
                        loop {
                            match tokio::time::timeout(std::time::Duration::from_millis(50), out_rx.recv()).await {
                                Ok(Some(Ok(b))) => batches.push(b),
                                Ok(Some(Err(e))) => {
                                    err = Some(e.to_string());
                                    break;
                                }
                                Ok(None) | Err(_) => break,
                            }
                        }
                        match err {
                            Some(e) => Err(e),
                            None => norm_by_name(&batches, q.star),
                        }
                    }
                }
            } else {
                match node.query(&q.sql).await {
                    Ok(b) => norm_by_name(&b, q.star),
                    Err(e) => Err(e.to_string()),
                }
            };
            out.evaluations += 1;
            if q.outside {
                out.outside_evals += 1;
            }
            let scope = if q.outside { "label-carried-only-by-unselected-chunks" } else { "label-carried-by-a-selected-chunk" };
            match (&want, &got) {
                (Ok(w), Ok(g)) if w == g => out.agree_rows += w.len() as u64,
                (Err(_), Err(_)) => out.both_reject += 1,
                (Ok(w), Ok(g)) => out.fails.push((format!("C04:labels:wrong-answer:{}:{scope}", q.class), format!("{which}: `{}` returns {g:?}, over all ingested rows it returns {w:?}", q.sql), q.sql.clone())),
                (Ok(w), Err(e)) => out.fails.push((format!("C04:labels:query-fails:{}:{scope}", q.class), format!("{which}: `{}` fails with `{}`, over all ingested rows it returns {w:?}", q.sql, e.chars().take(200).collect::<String>()), q.sql.clone())),
                (Err(e), Ok(g)) => out.fails.push((format!("C04:labels:answers-what-the-reference-rejects:{}", q.class), format!("{which}: `{}` returns {g:?}, the reference rejects it: {e}", q.sql), q.sql.clone())),
            }
        }
    }
    Ok(out)
}

fn run_blocking(c: &LCase, only_sql: Option<String>) -> Result<LOut, String> {
    let c = c.clone();
    std::thread::spawn(move || {
        let e = crate::engine::env::EnvState::new();
        crate::engine::env::install(&e);
        let rt = tokio::runtime::Builder::new_current_thread().enable_all().start_paused(true).build().unwrap();
        let r = rt.block_on(run_lcase(&c, only_sql.as_deref()));
        drop(rt);
        crate::engine::env::uninstall();
        r
    })
    .join()
    .unwrap_or_else(|_| Err("the case panicked".into()))
}

pub fn cases(tier: &str) -> Vec<LCase> {
    let n = shapes().len();
    let mut v = Vec::new();
    for os in [false, true] {
        for ts_type in [true, false] {
            for a in 0..n {
                for b in 0..n {
                    v.push(LCase { os, ts_type, chunks: vec![a, b] });
                    if tier == "thorough" || (!os && ts_type && a < 3 && b < 3) {
                        for c in 0..if tier == "thorough" { n } else { 3 } {
                            v.push(LCase { os, ts_type, chunks: vec![a, b, c] });
                        }
                    }
                }
            }
        }
    }
    v
}

pub fn label_space(rep: &mut Report, tier: &str) {
    let cs = cases(tier);
    let next = std::sync::atomic::AtomicUsize::new(0);
    let res: Mutex<Vec<(usize, Result<LOut, String>)>> = Mutex::new(Vec::new());
    let t0 = std::time::Instant::now();
    std::thread::scope(|s| {
        for _ in 0..crate::engine::sched::default_workers() {
            s.spawn(|| loop {
                let i = next.fetch_add(1, std::sync::atomic::Ordering::SeqCst);
                if i >= cs.len() {
                    return;
                }
                let r = run_blocking(&cs[i], None);
                res.lock().unwrap().push((i, r));
            });
        }
    });
    let mut res = res.into_inner().unwrap();
    res.sort_by_key(|x| x.0);
    let (mut evals, mut agree_rows, mut both_reject, mut outside) = (0u64, 0u64, 0u64, 0u64);
    let mut viol: BTreeMap<String, (String, LCase, String, u64)> = BTreeMap::new();
    for (i, r) in res {
        match r {
            Ok(o) => {
                evals += o.evaluations;
                agree_rows += o.agree_rows;
                both_reject += o.both_reject;
                outside += o.outside_evals;
                for (sig, msg, sql) in o.fails {
                    let e = viol.entry(sig).or_insert((msg, cs[i].clone(), sql, 0));
                    e.3 += 1;
                }
            }
            Err(e) => rep.machinery(format!("C04 label sets: case {:?}: {e}", cs[i])),
        }
    }
    println!(
        "  C04 label sets: cases={} evaluations={} (naming a label only unselected chunks carry: {}) rows-agreed={} both-reject={} violation-sigs={} {:.1}s",
        cs.len(),
        evals,
        outside,
        agree_rows,
        both_reject,
        viol.len(),
        t0.elapsed().as_secs_f64()
    );
    rep.add_u64("evaluations", evals);
    rep.set(
        "label_sets",
        json!({"cases": cs.len(), "evaluations": evals, "naming_a_label_of_unselected_chunks_only": outside, "rows_agreed": agree_rows, "both_reject": both_reject,
        "rule": "every sequence of 2 (3: in-memory + Timestamp column in quick, everywhere in thorough) chunk shapes out of 6 (label columns [host] / [region] / [host,region] / none, nullable; [host] / [region] declared NOT NULL; quick: triples over the first 3) x both catalog back ends x both timestamp column types; windows selecting all / the first / the last chunk; plain, *, count(*), and per label: projection, IS [NOT] NULL, =, <>, GROUP BY, count(label); each statement through QueryNode::query and through the historical phase of a streaming subscription, each on a node that served the previous statements and on a fresh node; reference = DataFusion over one MemTable of all rows under the union of the columns"}),
    );
    rep.push_sample(json!({"label_set_case": cs.get(cs.len() / 3), "queries": queries(&cs[cs.len() / 3]).iter().take(4).map(|q| q.sql.clone()).collect::<Vec<_>>()}));
    if agree_rows == 0 {
        rep.machinery("vacuity guard: the label-set space never compared a non-empty answer");
    }
    for (sig, (msg, c, sql, n)) in viol {
        rep.violation_n(&sig, &format!("{c:?} (shapes {:?}): {msg}", c.chunks.iter().map(|s| shapes()[*s].clone()).collect::<Vec<_>>()), json!({"kind": "label-set-case", "case": c, "sql": sql}), n);
    }
}

pub fn replay_case(v: &Value) -> i32 {
    let c: LCase = serde_json::from_value(v["case"].clone()).expect("case");
    let sql = v["sql"].as_str().map(|s| s.to_string());
    match run_blocking(&c, sql) {
        Ok(o) if o.fails.is_empty() => {
            println!("case {c:?}: {} evaluations agree with the reference; no violation", o.evaluations);
            0
        }
        Ok(o) => {
            for (sig, msg, _) in o.fails.iter().take(5) {
                println!("violation [{sig}]: {msg}");
            }
            1
        }
        Err(e) => {
            eprintln!("MACHINERY: {e}");
            2
        }
    }
}
