//! C11 — the query interfaces cannot modify stored data.
//!
//! Engine B, explicit-state search.  A *world* is a fresh in-memory object store holding two registered
//! Parquet chunks and the object-store catalog, two query nodes over it (A: plain, B: adaptive indexing
//! on), the Flight SQL gRPC service over A and the HTTP `ApiState`s.  A *transition* submits one
//! statement (or one hostile Prometheus request) to one real entry point.  A *state* is the full
//! observable image of the world after a sequence of transitions:
//!   object listing (path, size, ETag, content hash) read from the raw store, canonical catalog object and
//!   `list_chunks()`, per-node session image (every catalog/schema/table with kind and schema, every
//!   configuration option, function-name sets, a prepared-statement probe), files in a private local
//!   directory, and the results of fixed probe queries on A, B and on a node built afterwards.
//! Breadth-first search from two initial states (cold nodes; nodes that have served a query): every
//! sequence is re-executed from a freshly built world (the implementation is the transition relation, so
//! every explored trace is an implementation trace).  Invariant, judged per transition against the
//! state the transition started from: nothing in the image changes, no mutating request reaches the store
//! handles of the nodes, and every write-like statement submitted to an executing entry point is `Err`.

use super::common::*;
use crate::engine::env;
use crate::engine::report::Report;
use arrow_array::RecordBatch;
use arrow_flight::sql::server::FlightSqlService;
use arrow_flight::sql::{
    ActionCreatePreparedStatementRequest, CommandPreparedStatementQuery, CommandStatementQuery, TicketStatementQuery,
};
use async_trait::async_trait;
use bytes::Bytes;
use cardinalsin::adaptive_index::{AdaptiveIndexConfig, AdaptiveIndexController};
use cardinalsin::api::grpc::FlightSqlGrpcService;
use cardinalsin::api::query::{prometheus_api as prom, sql_http};
use cardinalsin::api::ApiState;
use cardinalsin::compactor::ChunkPinRegistry;
use cardinalsin::ingester::{ChunkMetadata, Ingester, IngesterConfig, TopicFilter};
use cardinalsin::metadata::MetadataClient;
use cardinalsin::query::{QueryConfig, QueryNode};
use cardinalsin::schema::MetricSchema;
use datafusion::datasource::empty::EmptyTable;
use datafusion::datasource::listing::ListingTable;
use datafusion::datasource::{MemTable, ViewTable};
use futures::stream::BoxStream;
use futures::{FutureExt, TryStreamExt};
use object_store::path::Path as OsPath;
use object_store::{
    GetOptions, GetResult, ListResult, MultipartUpload, ObjectMeta, ObjectStore, PutMultipartOpts, PutOptions, PutPayload,
    PutResult, Result as OsResult,
};
use serde_json::{json, Value};
use std::collections::{BTreeMap, BTreeSet, HashMap};
use std::panic::AssertUnwindSafe;
use std::path::PathBuf;
use std::sync::atomic::{AtomicUsize, Ordering};
use std::sync::{Arc, Mutex, OnceLock};

// ------------------------------------------------------------------------------------------------
// fixtures
// ------------------------------------------------------------------------------------------------

const BUCKET_URL: &str = "memory://b";
const CHUNK1: &str = "data/t/chunk_0001.parquet";
const CHUNK2: &str = "data/t/chunk_0002.parquet";
const MIN: i64 = 60_000_000_000;

fn lo() -> i64 {
    env::EPOCH_NS - 40 * MIN
}
fn hi() -> i64 {
    env::EPOCH_NS
}

fn fixture_rows(k: usize) -> Vec<Row> {
    let base = env::EPOCH_NS - if k == 0 { 30 * MIN } else { 10 * MIN };
    (0..3)
        .map(|i| {
            let id = (k * 3 + i + 1) as i64;
            Row { ts: base + i as i64 * 1_000_000_000, metric: "cpu".into(), host: Some(if i % 2 == 0 { "a" } else { "b" }.into()), id, value: id as f64 }
        })
        .collect()
}

/// Same layout as the batches the Prometheus remote-write ingestion produces (a subset of the default
/// metrics schema: a cold node plans the first statement against its empty default-schema table);
/// `value_i64` carries the unique row id.
fn fixture_batch(rows: &[Row]) -> RecordBatch {
    use arrow_array::{Float64Array, Int64Array, StringArray, TimestampNanosecondArray, UInt64Array};
    use arrow_schema::{DataType, Field, Schema, TimeUnit};
    let schema = Arc::new(Schema::new(vec![
        Field::new("timestamp", DataType::Timestamp(TimeUnit::Nanosecond, Some("UTC".into())), false),
        Field::new("metric_name", DataType::Utf8, false),
        Field::new("value_f64", DataType::Float64, true),
        Field::new("value_i64", DataType::Int64, true),
        Field::new("value_u64", DataType::UInt64, true),
        Field::new("host", DataType::Utf8, true),
    ]));
    RecordBatch::try_new(
        schema,
        vec![
            Arc::new(TimestampNanosecondArray::from(rows.iter().map(|r| r.ts).collect::<Vec<_>>()).with_timezone("UTC")),
            Arc::new(StringArray::from(rows.iter().map(|r| r.metric.clone()).collect::<Vec<_>>())),
            Arc::new(Float64Array::from(rows.iter().map(|r| r.value).collect::<Vec<_>>())),
            Arc::new(Int64Array::from(rows.iter().map(|r| r.id).collect::<Vec<_>>())),
            Arc::new(UInt64Array::from(rows.iter().map(|_| None::<u64>).collect::<Vec<_>>())),
            Arc::new(StringArray::from(rows.iter().map(|r| r.host.clone()).collect::<Vec<_>>())),
        ],
    )
    .expect("fixture batch")
}

/// (path, parquet bytes, chunk metadata), encoded once per process
fn fixtures() -> &'static Vec<(String, Bytes, ChunkMetadata)> {
    static F: OnceLock<Vec<(String, Bytes, ChunkMetadata)>> = OnceLock::new();
    F.get_or_init(|| {
        [CHUNK1, CHUNK2]
            .iter()
            .enumerate()
            .map(|(k, p)| {
                let rows = fixture_rows(k);
                let bytes = encode_parquet(&fixture_batch(&rows));
                let m = ChunkMetadata {
                    path: p.to_string(),
                    min_timestamp: rows.iter().map(|r| r.ts).min().unwrap(),
                    max_timestamp: rows.iter().map(|r| r.ts).max().unwrap(),
                    row_count: rows.len() as u64,
                    size_bytes: bytes.len() as u64,
                };
                (p.to_string(), bytes, m)
            })
            .collect()
    })
}

// ------------------------------------------------------------------------------------------------
// store handle given to the nodes: forwards everything, logs every mutating request
// ------------------------------------------------------------------------------------------------

struct RecStore {
    inner: Arc<dyn ObjectStore>,
    who: &'static str,
    log: Arc<Mutex<Vec<String>>>,
}

impl RecStore {
    fn rec(&self, kind: &str, path: &str) {
        self.log.lock().unwrap().push(format!("{}:{kind} {path}", self.who));
    }
}
impl std::fmt::Debug for RecStore {
    fn fmt(&self, f: &mut std::fmt::Formatter<'_>) -> std::fmt::Result {
        write!(f, "RecStore({})", self.who)
    }
}
impl std::fmt::Display for RecStore {
    fn fmt(&self, f: &mut std::fmt::Formatter<'_>) -> std::fmt::Result {
        write!(f, "RecStore({})", self.who)
    }
}

#[async_trait]
impl ObjectStore for RecStore {
    async fn put_opts(&self, location: &OsPath, payload: PutPayload, opts: PutOptions) -> OsResult<PutResult> {
        self.rec("PUT", location.as_ref());
        self.inner.put_opts(location, payload, opts).await
    }
    async fn put_multipart_opts(&self, location: &OsPath, opts: PutMultipartOpts) -> OsResult<Box<dyn MultipartUpload>> {
        self.rec("MULTIPART-PUT", location.as_ref());
        self.inner.put_multipart_opts(location, opts).await
    }
    async fn get_opts(&self, location: &OsPath, options: GetOptions) -> OsResult<GetResult> {
        self.inner.get_opts(location, options).await
    }
    async fn get_range(&self, location: &OsPath, range: std::ops::Range<usize>) -> OsResult<Bytes> {
        self.inner.get_range(location, range).await
    }
    async fn head(&self, location: &OsPath) -> OsResult<ObjectMeta> {
        self.inner.head(location).await
    }
    async fn delete(&self, location: &OsPath) -> OsResult<()> {
        self.rec("DELETE", location.as_ref());
        self.inner.delete(location).await
    }
    fn list(&self, prefix: Option<&OsPath>) -> BoxStream<'_, OsResult<ObjectMeta>> {
        self.inner.list(prefix)
    }
    async fn list_with_delimiter(&self, prefix: Option<&OsPath>) -> OsResult<ListResult> {
        self.inner.list_with_delimiter(prefix).await
    }
    async fn copy(&self, from: &OsPath, to: &OsPath) -> OsResult<()> {
        self.rec("COPY", &format!("{from} -> {to}"));
        self.inner.copy(from, to).await
    }
    async fn rename(&self, from: &OsPath, to: &OsPath) -> OsResult<()> {
        self.rec("RENAME", &format!("{from} -> {to}"));
        self.inner.rename(from, to).await
    }
    async fn copy_if_not_exists(&self, from: &OsPath, to: &OsPath) -> OsResult<()> {
        self.rec("COPY", &format!("{from} -> {to}"));
        self.inner.copy_if_not_exists(from, to).await
    }
}

// ------------------------------------------------------------------------------------------------
// the world
// ------------------------------------------------------------------------------------------------

struct World {
    mem: Arc<dyn ObjectStore>,
    log: Arc<Mutex<Vec<String>>>,
    node_a: Arc<QueryNode>,
    node_b: Arc<QueryNode>,
    ingester: Arc<Ingester>,
    flight: FlightSqlGrpcService,
    controller: Arc<AdaptiveIndexController>,
    tmp: PathBuf,
    _btx: tokio::sync::broadcast::Sender<RecordBatch>,
}

fn node_config() -> QueryConfig {
    QueryConfig { l1_cache_size: 16 << 20, l2_cache_size: 0, l2_cache_dir: None, ..QueryConfig::default() }
}

async fn build_world(tmp: PathBuf) -> Result<World, String> {
    let mem = new_mem();
    let setup = os_client(mem.clone());
    for (p, bytes, m) in fixtures() {
        mem.put(&OsPath::from(p.as_str()), bytes.clone().into()).await.map_err(|e| format!("put fixture: {e}"))?;
        setup.register_chunk(p, m).await.map_err(|e| format!("register fixture: {e}"))?;
    }
    let log = Arc::new(Mutex::new(Vec::new()));
    let rec = |who: &'static str| -> Arc<dyn ObjectStore> { Arc::new(RecStore { inner: mem.clone(), who, log: log.clone() }) };
    let metadata: Arc<dyn MetadataClient> = Arc::new(os_client(rec("metadata-client")));
    let sc = super::c03::storage_config();
    let ingester = Arc::new(Ingester::new(IngesterConfig::default(), rec("ingester"), metadata.clone(), sc.clone(), MetricSchema::default_metrics()));
    let (btx, brx) = tokio::sync::broadcast::channel::<RecordBatch>(16);
    let frx = ingester.topic_broadcast().subscribe(TopicFilter::All).await;
    let mut a = QueryNode::new(node_config(), rec("node-A"), metadata.clone(), sc.clone()).await.map_err(|e| format!("node A: {e}"))?;
    a.connect_broadcast(brx);
    let a = Arc::new(a.with_topic_filter(frx).with_pin_registry(ChunkPinRegistry::new()));
    let controller = Arc::new(AdaptiveIndexController::new(AdaptiveIndexConfig::default()));
    let b = QueryNode::new(node_config(), rec("node-B"), metadata.clone(), sc.clone())
        .await
        .map_err(|e| format!("node B: {e}"))?
        .with_adaptive_indexing(controller.clone());
    let b = Arc::new(b);
    let flight = FlightSqlGrpcService::new(a.clone());
    let _ = std::fs::remove_dir_all(&tmp);
    std::fs::create_dir_all(&tmp).map_err(|e| format!("tmp dir: {e}"))?;
    Ok(World { mem, log, node_a: a, node_b: b, ingester, flight, controller, tmp, _btx: btx })
}

// ------------------------------------------------------------------------------------------------
// the alphabet: entry points x statements, plus hostile Prometheus requests
// ------------------------------------------------------------------------------------------------

#[derive(Debug, Clone, Copy, PartialEq, Eq, Hash)]
enum Entry {
    HttpSql,
    HttpSqlGet,
    HttpSqlAdaptive,
    FlightInfo,
    FlightDoGet,
    FlightPrepared,
    FlightExecuteBatches,
    StreamBroadcast,
    StreamFiltered,
    EngExecute,
    EngExecuteWithIndexes,
    EngExecuteStream,
    EngExtractTimeRange,
    EngExtractColumnPredicates,
    EngAnalyze,
    EngPrepare,
    PromInstant,
    PromRange,
    PromLabelValues,
    PromSeries,
    PromLabels,
}

const SQL_ENTRIES: &[Entry] = &[
    Entry::HttpSql,
    Entry::HttpSqlGet,
    Entry::HttpSqlAdaptive,
    Entry::FlightInfo,
    Entry::FlightDoGet,
    Entry::FlightPrepared,
    Entry::FlightExecuteBatches,
    Entry::StreamBroadcast,
    Entry::StreamFiltered,
    Entry::EngExecute,
    Entry::EngExecuteWithIndexes,
    Entry::EngExecuteStream,
    Entry::EngExtractTimeRange,
    Entry::EngExtractColumnPredicates,
    Entry::EngAnalyze,
    Entry::EngPrepare,
];

impl Entry {
    fn name(self) -> &'static str {
        match self {
            Entry::HttpSql => "http.sql-post",
            Entry::HttpSqlGet => "http.sql-get",
            Entry::HttpSqlAdaptive => "http.sql-post@adaptive-node",
            Entry::FlightInfo => "flight.get_flight_info_statement",
            Entry::FlightDoGet => "flight.do_get_statement",
            Entry::FlightPrepared => "flight.prepared-statement",
            Entry::FlightExecuteBatches => "flight.execute_batches",
            Entry::StreamBroadcast => "stream.query_stream",
            Entry::StreamFiltered => "stream.query_stream_filtered",
            Entry::EngExecute => "engine.execute",
            Entry::EngExecuteWithIndexes => "engine.execute_with_indexes",
            Entry::EngExecuteStream => "engine.execute_stream",
            Entry::EngExtractTimeRange => "engine.extract_time_range",
            Entry::EngExtractColumnPredicates => "engine.extract_column_predicates",
            Entry::EngAnalyze => "engine.analyze",
            Entry::EngPrepare => "engine.prepare",
            Entry::PromInstant => "prom.query",
            Entry::PromRange => "prom.query_range",
            Entry::PromLabelValues => "prom.label_values",
            Entry::PromSeries => "prom.series",
            Entry::PromLabels => "prom.labels",
        }
    }
    /// does a successful call through this entry run the statement (as opposed to only planning it)?
    fn executes(self) -> bool {
        !matches!(self, Entry::FlightInfo | Entry::EngExtractTimeRange | Entry::EngExtractColumnPredicates | Entry::EngAnalyze | Entry::EngPrepare)
    }
    /// goes through `QueryNode::query` / the streaming executor (chunk selection + `metrics` binding)
    fn composite(self) -> bool {
        matches!(
            self,
            Entry::HttpSql | Entry::HttpSqlGet | Entry::HttpSqlAdaptive | Entry::FlightDoGet | Entry::FlightPrepared | Entry::FlightExecuteBatches | Entry::StreamBroadcast | Entry::StreamFiltered
        )
    }
    fn is_prom(self) -> bool {
        matches!(self, Entry::PromInstant | Entry::PromRange | Entry::PromLabelValues | Entry::PromSeries | Entry::PromLabels)
    }
}

/// One statement (or one Prometheus request payload) of the alphabet.
#[derive(Debug, Clone)]
struct Stmt {
    id: &'static str,
    /// coarse class = the `SQLOptions` category the statement falls in: query | dml | ddl | statement | multi
    class: &'static str,
    /// template; {B} bucket URL, {CHUNK} URL of an existing chunk, {CAT} URL of the catalog object,
    /// {TMP} private local directory, {LO}/{HI} time bounds of the fixture rows
    sql: String,
    /// write-like: must be answered with an error by every executing entry point
    must_err: bool,
    /// the oracle self-test requires that this statement changes the world image when it is handed to
    /// DataFusion with no restriction (otherwise the fixture no longer exercises what it is meant to)
    must_be_potent: bool,
    /// a read-only control: must succeed (vacuity guard); rows expected through composite entries
    control_rows: Option<usize>,
    /// extra argument for Prometheus requests (label name / matcher list)
    aux: Vec<String>,
}

fn st(id: &'static str, class: &'static str, sql: &str, must_err: bool, potent: bool) -> Stmt {
    Stmt { id, class, sql: sql.to_string(), must_err, must_be_potent: potent, control_rows: None, aux: vec![] }
}

fn sql_statements() -> Vec<Stmt> {
    let mut v = Vec::new();
    // ---- read-only controls
    let mut c = st("ctl-select-range", "query", "SELECT value_i64 FROM metrics WHERE timestamp >= to_timestamp_nanos({LO}) AND timestamp <= to_timestamp_nanos({HI}) ORDER BY value_i64", false, false);
    c.control_rows = Some(6);
    v.push(c);
    let mut c = st("ctl-count-default-range", "query", "SELECT count(*) AS n FROM metrics", false, false);
    c.control_rows = Some(1);
    v.push(c);
    let mut c = st("ctl-filter", "query", "SELECT value_i64, value_f64 FROM metrics WHERE host = 'a' AND timestamp >= to_timestamp_nanos({LO}) AND timestamp <= to_timestamp_nanos({HI})", false, false);
    c.control_rows = Some(4);
    v.push(c);
    for (id, sql) in [
        ("ro-show-tables", "SHOW TABLES"),
        ("ro-show-columns", "SHOW COLUMNS FROM metrics"),
        ("ro-describe", "DESCRIBE metrics"),
        ("ro-explain-select", "EXPLAIN SELECT value_i64 FROM metrics"),
        ("ro-explain-analyze-select", "EXPLAIN ANALYZE SELECT value_i64 FROM metrics"),
        ("ro-show-all", "SHOW ALL"),
        ("ro-information-schema", "SELECT table_name FROM information_schema.tables ORDER BY table_name"),
        // EXPLAIN without ANALYZE does not run the COPY: only state invariance is demanded
        ("ro-explain-copy", "EXPLAIN COPY (SELECT 1 AS a) TO '{B}/out/explained.parquet' STORED AS PARQUET"),
    ] {
        v.push(st(id, "query", sql, false, false));
    }
    // ---- COPY ... TO (DML): fresh path, existing chunk, catalog object, directory, other scheme
    for (id, sql) in [
        ("copy-fresh-parquet", "COPY (SELECT 1 AS a) TO '{B}/out/new.parquet' STORED AS PARQUET"),
        ("copy-metrics-csv", "COPY (SELECT * FROM metrics) TO '{B}/out/dump.csv' STORED AS CSV"),
        ("copy-table-json", "COPY metrics TO '{B}/out/dump.json' STORED AS JSON"),
        ("copy-over-chunk", "COPY (SELECT 1 AS a) TO '{CHUNK}' STORED AS PARQUET"),
        ("copy-over-chunk-inferred-format", "COPY (SELECT 1 AS a) TO '{CHUNK}'"),
        ("copy-over-catalog", "COPY (SELECT 'x' AS chunks) TO '{CAT}' STORED AS JSON"),
        ("copy-into-chunk-directory", "COPY (SELECT 1 AS a) TO '{B}/data/t/' STORED AS PARQUET"),
        ("copy-partitioned-directory", "COPY (SELECT 1 AS a, 'x' AS p) TO '{B}/out/part/' STORED AS PARQUET PARTITIONED BY (p)"),
        ("copy-local-file-url", "COPY (SELECT 1 AS a) TO 'file://{TMP}/evil.parquet' STORED AS PARQUET"),
        ("copy-local-bare-path", "COPY (SELECT 1 AS a) TO '{TMP}/evil.csv' STORED AS CSV"),
        ("copy-obfuscated", "/* q */ cOpY (SELECT 1 AS a)\n tO '{B}/out/obf.parquet' STORED AS PARQUET"),
        ("explain-analyze-copy-fresh", "EXPLAIN ANALYZE COPY (SELECT 1 AS a) TO '{B}/out/xa.parquet' STORED AS PARQUET"),
        ("explain-analyze-copy-over-chunk", "EXPLAIN ANALYZE COPY (SELECT 1 AS a) TO '{CHUNK}' STORED AS PARQUET"),
        ("explain-analyze-verbose-copy", "EXPLAIN ANALYZE VERBOSE COPY (SELECT 1 AS a) TO '{B}/out/xav.csv' STORED AS CSV"),
    ] {
        v.push(st(id, "dml", sql, true, true));
    }
    // unregistered scheme: refused by DataFusion itself (no such store), still write-like
    v.push(st("copy-unregistered-scheme", "dml", "COPY (SELECT 1 AS a) TO 's3://elsewhere/x.parquet' STORED AS PARQUET", true, false));
    // ---- INSERT / UPDATE / DELETE (DML)
    for (id, sql) in [
        ("insert-select-metrics", "INSERT INTO metrics SELECT * FROM metrics"),
        ("insert-overwrite-metrics", "INSERT OVERWRITE metrics SELECT * FROM metrics"),
        ("insert-values-ext-dir", "INSERT INTO ext_dir VALUES (1)"),
        ("insert-values-ext-local", "INSERT INTO ext_local VALUES (1)"),
        ("insert-values-t-new", "INSERT INTO t_new VALUES (2)"),
        ("update-metrics", "UPDATE metrics SET value_f64 = 0"),
        ("delete-metrics", "DELETE FROM metrics WHERE value_i64 = 1"),
    ] {
        v.push(st(id, "dml", sql, true, false));
    }
    // ---- DDL that takes effect when unprotected
    for (id, sql) in [
        ("create-external-table-over-chunk", "CREATE EXTERNAL TABLE ext STORED AS PARQUET LOCATION '{CHUNK}'"),
        ("create-external-table-new-dir", "CREATE EXTERNAL TABLE ext_dir (a INT) STORED AS CSV LOCATION '{B}/ext/'"),
        ("create-external-table-local-dir", "CREATE EXTERNAL TABLE ext_local (a INT) STORED AS CSV LOCATION '{TMP}/ext/'"),
        ("create-external-table-chunk-dir", "CREATE EXTERNAL TABLE ext_data STORED AS PARQUET LOCATION '{B}/data/t/'"),
        ("create-table-as-select", "CREATE TABLE t_new AS SELECT 1 AS a"),
        ("create-table-columns", "CREATE TABLE t_cols (a INT, b VARCHAR)"),
        ("create-table-from-metrics", "CREATE TABLE t_copy AS SELECT * FROM metrics"),
        ("create-or-replace-table-metrics", "CREATE OR REPLACE TABLE metrics AS SELECT 1 AS a"),
        ("select-into", "SELECT 1 AS a INTO t_into"),
        ("select-into-from-metrics", "SELECT value_i64 INTO t_into2 FROM metrics"),
        ("cte-select-into", "WITH x AS (SELECT 1 AS a) SELECT a INTO t_into3 FROM x"),
        ("create-view", "CREATE VIEW v_new AS SELECT 1 AS a"),
        ("create-or-replace-view-metrics", "CREATE OR REPLACE VIEW metrics AS SELECT 1 AS a"),
        ("drop-table-metrics", "DROP TABLE metrics"),
        ("drop-table-if-exists-metrics", "DROP TABLE IF EXISTS metrics"),
        ("drop-schema-public-cascade", "DROP SCHEMA public CASCADE"),
        ("create-schema", "CREATE SCHEMA s_new"),
        ("create-database", "CREATE DATABASE d_new"),
        ("drop-function-count", "DROP FUNCTION count"),
        ("drop-function-abs", "DROP FUNCTION abs"),
    ] {
        v.push(st(id, "ddl", sql, true, true));
    }
    // ---- DDL that needs an earlier statement or is not executable in this engine
    for (id, sql) in [
        ("drop-table-t-new", "DROP TABLE t_new"),
        ("drop-view-v-new", "DROP VIEW v_new"),
        ("drop-view-metrics", "DROP VIEW metrics"),
        ("create-function", "CREATE FUNCTION f_new(DOUBLE) RETURNS DOUBLE RETURN $1 + 1"),
        ("create-index", "CREATE INDEX idx_new ON metrics (value_i64)"),
        ("explain-analyze-create-table", "EXPLAIN ANALYZE CREATE TABLE t_xa AS SELECT 1 AS a"),
    ] {
        v.push(st(id, "ddl", sql, true, false));
    }
    // ---- session statements: the property demands that later queries are unaffected; whether the
    //      statement is answered with an error or silently ignored is left open (must_err = false)
    for (id, sql, potent) in [
        ("set-batch-size", "SET datafusion.execution.batch_size = 1", true),
        ("set-default-schema", "SET datafusion.catalog.default_schema = 'nosuch'", true),
        ("set-ident-normalization", "SET datafusion.sql_parser.enable_ident_normalization = false", true),
        ("set-information-schema-off", "SET datafusion.catalog.information_schema = false", true),
        ("set-time-zone", "SET TIME ZONE = '+08:00'", true),
        ("prepare", "PREPARE p1 AS SELECT 1 AS a", true),
        ("execute-prepared", "EXECUTE p1", false),
        ("deallocate", "DEALLOCATE p1", false),
        ("begin", "BEGIN", false),
        ("start-transaction-read-write", "START TRANSACTION READ WRITE", false),
        ("commit", "COMMIT", false),
        ("rollback", "ROLLBACK", false),
    ] {
        v.push(st(id, "statement", sql, false, potent));
    }
    // ---- several statements in one string
    for (id, sql) in [
        ("multi-select-then-drop", "SELECT 1; DROP TABLE metrics"),
        ("multi-drop-then-select", "DROP TABLE metrics; SELECT 1"),
        ("multi-select-then-copy", "SELECT 1; COPY (SELECT 1 AS a) TO '{B}/out/multi.parquet' STORED AS PARQUET"),
        ("multi-create-then-insert", "CREATE EXTERNAL TABLE ext_m (a INT) STORED AS CSV LOCATION '{B}/extm/'; INSERT INTO ext_m VALUES (1)"),
    ] {
        v.push(st(id, "multi", sql, true, false));
    }
    v
}

/// Hostile and benign Prometheus requests: (entry, statement). `sql` holds the PromQL text / label name.
fn prom_requests() -> Vec<(Entry, Stmt)> {
    let inj_into = "sum by (timestamp\" INTO evil FROM metrics --) (cpu)";
    let inj_multi = "sum by (host\" FROM metrics; DROP TABLE metrics --) (cpu)";
    let inj_value = "cpu{host=\"a'; DROP TABLE metrics; --\"}";
    let inj_name = "cpu'; DROP TABLE metrics; --";
    let inj_copy = "x'; COPY (SELECT 1 AS a) TO 'memory://b/out/prom.parquet' STORED AS PARQUET; --";
    let mut out = Vec::new();
    let mut p = |e: Entry, id: &'static str, class: &'static str, q: &str, aux: Vec<&str>, ctl: Option<usize>| {
        let mut s = st(id, class, q, false, false);
        s.aux = aux.into_iter().map(|x| x.to_string()).collect();
        s.control_rows = ctl;
        out.push((e, s));
    };
    for e in [Entry::PromInstant, Entry::PromRange] {
        // range queries cannot be answered for timestamp-typed chunks (`timestamp / step` does not type-check):
        // they are still transitions, but not controls
        p(e, "promql-plain", "query", "cpu", vec![], if e == Entry::PromInstant { Some(1) } else { None });
        p(e, "promql-aggregate", "query", "sum by (host) (cpu)", vec![], if e == Entry::PromInstant { Some(2) } else { None });
        p(e, "promql-rate", "query", "sum by (host) (rate(cpu[5m]))", vec![], None);
        p(e, "promql-groupby-quote-select-into", "ddl", inj_into, vec![], None);
        p(e, "promql-groupby-quote-second-statement", "multi", inj_multi, vec![], None);
        p(e, "promql-label-value-quote", "multi", inj_value, vec![], None);
        p(e, "promql-metric-name-quote", "multi", inj_name, vec![], None);
        p(e, "promql-metric-name-copy", "multi", inj_copy, vec![], None);
    }
    // no expectation on the answer: the handler drops Utf8View values (what DataFusion 44 reads string
    // columns of Parquet files as), so label values of stored data always come back empty
    p(Entry::PromLabelValues, "label-plain", "query", "host", vec![], None);
    p(Entry::PromLabelValues, "label-name", "query", "__name__", vec!["cpu{host=\"a\"}"], None);
    p(Entry::PromLabelValues, "label-quote-second-statement", "multi", "host\" FROM metrics; DROP TABLE metrics; --", vec![], None);
    p(Entry::PromLabelValues, "label-quote-select-into", "ddl", "host\" INTO evil2 FROM metrics --", vec![], None);
    p(Entry::PromLabelValues, "label-matcher-quote", "multi", "host", vec![inj_value], None);
    p(Entry::PromLabelValues, "label-matcher-name-quote", "multi", "host", vec![inj_name], None);
    for e in [Entry::PromSeries, Entry::PromLabels] {
        p(e, "match-plain", "query", "", vec!["cpu"], if e == Entry::PromSeries { Some(2) } else { Some(1) });
        p(e, "match-value-quote", "multi", "", vec![inj_value], None);
        p(e, "match-name-quote", "multi", "", vec![inj_name], None);
        p(e, "match-name-copy", "multi", "", vec![inj_copy], None);
        p(e, "match-groupby-select-into", "ddl", "", vec![inj_into], None);
    }
    out
}

#[derive(Clone)]
struct Transition {
    entry: Entry,
    stmt: Stmt,
}

fn alphabet() -> Vec<Transition> {
    let mut a = Vec::new();
    // simplest first: the interface-level entries over every statement, then the engine-level ones
    for e in SQL_ENTRIES {
        for s in sql_statements() {
            a.push(Transition { entry: *e, stmt: s });
        }
    }
    for (e, s) in prom_requests() {
        a.push(Transition { entry: e, stmt: s });
    }
    a
}

/// statement text for messages and replay files: everything but the per-execution directory resolved
fn show(sql: &str) -> String {
    sql.replace("{B}", BUCKET_URL)
        .replace("{CHUNK}", &format!("{BUCKET_URL}/{CHUNK1}"))
        .replace("{CAT}", &format!("{BUCKET_URL}/{}", CATALOG.replace('%', "%25")))
        .replace("{LO}", &lo().to_string())
        .replace("{HI}", &hi().to_string())
        .replace('\n', " ")
}

fn render(sql: &str, w: &World) -> String {
    sql.replace("{B}", BUCKET_URL)
        .replace("{CHUNK}", &format!("{BUCKET_URL}/{CHUNK1}"))
        .replace("{CAT}", &format!("{BUCKET_URL}/{}", CATALOG.replace('%', "%25")))
        .replace("{TMP}", &w.tmp.display().to_string())
        .replace("{LO}", &lo().to_string())
        .replace("{HI}", &hi().to_string())
}

// ------------------------------------------------------------------------------------------------
// running one transition
// ------------------------------------------------------------------------------------------------

#[derive(Debug, Clone, PartialEq)]
enum Outcome {
    /// rows (or results) returned
    Ok(usize),
    Err(String),
    Panic(String),
}

impl Outcome {
    fn short(&self) -> String {
        match self {
            Outcome::Ok(n) => format!("Ok({n} rows)"),
            Outcome::Err(e) => format!("Err({})", e.lines().next().unwrap_or("").chars().take(160).collect::<String>()),
            Outcome::Panic(p) => format!("PANIC({p})"),
        }
    }
}

fn rows(b: &[RecordBatch]) -> usize {
    b.iter().map(|x| x.num_rows()).sum()
}

async fn http_outcome(resp: axum::response::Response) -> Outcome {
    use http_body_util::BodyExt;
    let status = resp.status();
    let body = resp.into_body().collect().await.map(|c| c.to_bytes()).unwrap_or_default();
    if status.is_success() {
        let n = serde_json::from_slice::<Value>(&body).ok().and_then(|v| v["data"].as_array().map(|a| a.len())).unwrap_or(0);
        Outcome::Ok(n)
    } else {
        Outcome::Err(format!("HTTP {}: {}", status.as_u16(), String::from_utf8_lossy(&body)))
    }
}

async fn run_sql_entry(w: &World, e: Entry, sql: &str) -> Outcome {
    use axum::extract::{Query, State};
    use tonic::Request;
    let err = |e: cardinalsin::Error| Outcome::Err(e.to_string());
    let st_err = |s: tonic::Status| Outcome::Err(format!("{:?}: {}", s.code(), s.message()));
    match e {
        Entry::HttpSql | Entry::HttpSqlAdaptive => {
            let node = if e == Entry::HttpSql { w.node_a.clone() } else { w.node_b.clone() };
            let state = ApiState { ingester: w.ingester.clone(), query_node: node };
            let resp = sql_http::execute_sql(State(state), axum::Json(sql_http::SqlRequest { query: sql.to_string(), format: None })).await;
            http_outcome(resp).await
        }
        Entry::HttpSqlGet => {
            let state = ApiState { ingester: w.ingester.clone(), query_node: w.node_a.clone() };
            let resp = sql_http::execute_sql_get(State(state), Query(sql_http::SqlRequest { query: sql.to_string(), format: Some("csv".into()) })).await;
            let o = http_outcome(resp).await;
            match o {
                Outcome::Ok(_) => Outcome::Ok(usize::MAX), // CSV body: row count not decoded
                o => o,
            }
        }
        Entry::FlightInfo => {
            let cmd = CommandStatementQuery { query: sql.to_string(), transaction_id: None };
            match w.flight.get_flight_info_statement(cmd, Request::new(arrow_flight::FlightDescriptor::new_cmd(Vec::<u8>::new()))).await {
                Ok(_) => Outcome::Ok(0),
                Err(s) => st_err(s),
            }
        }
        Entry::FlightDoGet => {
            let t = TicketStatementQuery { statement_handle: Bytes::from(sql.to_string()) };
            match w.flight.do_get_statement(t, Request::new(arrow_flight::Ticket::new(Vec::<u8>::new()))).await {
                Ok(resp) => {
                    // first message = schema; the batches are not decoded, only their presence is reported
                    let msgs: Vec<_> = futures::StreamExt::collect::<Vec<_>>(resp.into_inner()).await;
                    Outcome::Ok(if msgs.len() > 1 { usize::MAX } else { 0 })
                }
                Err(s) => st_err(s),
            }
        }
        Entry::FlightPrepared => {
            let req = ActionCreatePreparedStatementRequest { query: sql.to_string(), transaction_id: None };
            let created = match w.flight.do_action_create_prepared_statement(req, Request::new(arrow_flight::Action::new("CreatePreparedStatement", Vec::<u8>::new()))).await {
                Ok(c) => c,
                Err(s) => return st_err(s),
            };
            let cmd = CommandPreparedStatementQuery { prepared_statement_handle: created.prepared_statement_handle.clone() };
            if let Err(s) = w.flight.get_flight_info_prepared_statement(cmd.clone(), Request::new(arrow_flight::FlightDescriptor::new_cmd(Vec::<u8>::new()))).await {
                return st_err(s);
            }
            match w.flight.do_get_prepared_statement(cmd, Request::new(arrow_flight::Ticket::new(Vec::<u8>::new()))).await {
                Ok(resp) => {
                    // first message = schema; the batches are not decoded, only their presence is reported
                    let msgs: Vec<_> = futures::StreamExt::collect::<Vec<_>>(resp.into_inner()).await;
                    Outcome::Ok(if msgs.len() > 1 { usize::MAX } else { 0 })
                }
                Err(s) => st_err(s),
            }
        }
        Entry::FlightExecuteBatches => {
            // body of do_put_statement_update / do_put_prepared_statement_update
            let svc = cardinalsin::api::query::flight_sql::FlightSqlQueryService::new(w.node_a.clone());
            match svc.execute_batches(sql).await {
                Ok(b) => Outcome::Ok(rows(&b)),
                Err(e) => err(e),
            }
        }
        Entry::StreamBroadcast | Entry::StreamFiltered => {
            let r = if e == Entry::StreamBroadcast { w.node_a.query_stream(sql).await } else { w.node_a.query_stream_filtered(sql).await };
            match r {
                Ok(mut rx) => {
                    // the historical part was executed before the receiver was returned; take what is queued
                    let mut n = 0;
                    tokio::task::yield_now().await;
                    while let Ok(item) = rx.try_recv() {
                        match item {
                            Ok(b) => n += b.num_rows(),
                            Err(e) => return err(e),
                        }
                        tokio::task::yield_now().await;
                    }
                    Outcome::Ok(n)
                }
                Err(e) => err(e),
            }
        }
        Entry::EngExecute => match w.node_a.engine.execute(sql).await {
            Ok(b) => Outcome::Ok(rows(&b)),
            Err(e) => err(e),
        },
        Entry::EngExecuteWithIndexes => match w.node_a.engine.execute_with_indexes(sql, "default", w.controller.clone()).await {
            Ok(b) => Outcome::Ok(rows(&b)),
            Err(e) => err(e),
        },
        Entry::EngExecuteStream => match w.node_a.engine.execute_stream(sql).await {
            Ok(s) => match s.try_collect::<Vec<_>>().await {
                Ok(b) => Outcome::Ok(rows(&b)),
                Err(e) => Outcome::Err(e.to_string()),
            },
            Err(e) => err(e),
        },
        Entry::EngExtractTimeRange => match w.node_a.engine.extract_time_range(sql).await {
            Ok(_) => Outcome::Ok(0),
            Err(e) => err(e),
        },
        Entry::EngExtractColumnPredicates => match w.node_a.engine.extract_column_predicates(sql).await {
            Ok(p) => Outcome::Ok(p.len()),
            Err(e) => err(e),
        },
        Entry::EngAnalyze => match w.node_a.engine.analyze(sql).await {
            Ok(_) => Outcome::Ok(0),
            Err(e) => err(e),
        },
        Entry::EngPrepare => match w.node_a.engine.prepare(sql).await {
            Ok(_) => Outcome::Ok(0),
            Err(e) => err(e),
        },
        _ => Outcome::Err("not an SQL entry".into()),
    }
}

async fn run_prom_entry(w: &World, e: Entry, s: &Stmt) -> Outcome {
    use axum::extract::{Path, Query, State};
    let state = ApiState { ingester: w.ingester.clone(), query_node: w.node_a.clone() };
    let t_end = hi() as f64 / 1e9;
    let t_start = lo() as f64 / 1e9;
    let prom_outcome = |r: prom::PrometheusResponse| {
        if r.status == "success" {
            Outcome::Ok(r.data.result.len())
        } else {
            Outcome::Err(r.warnings.unwrap_or_default().join("; "))
        }
    };
    match e {
        Entry::PromInstant => {
            let r = prom::instant_query(State(state), Query(prom::InstantQueryParams { query: s.sql.clone(), time: None })).await;
            prom_outcome(r.0)
        }
        Entry::PromRange => {
            let r = prom::range_query(State(state), Query(prom::RangeQueryParams { query: s.sql.clone(), start: t_start, end: t_end, step: 600.0 })).await;
            prom_outcome(r.0)
        }
        Entry::PromLabelValues => {
            let params = prom::LabelValuesQueryParams { matchers: s.aux.clone(), start: None, end: None };
            let r = prom::label_values(State(state), Path(s.sql.clone()), Query(params)).await;
            Outcome::Ok(r.0.data.len())
        }
        Entry::PromSeries => {
            let params = prom::SeriesQueryParams { matchers: s.aux.clone(), start: None, end: None };
            let r = prom::series(State(state), Query(params)).await;
            Outcome::Ok(r.0.data.len())
        }
        Entry::PromLabels => {
            let params = prom::LabelsQueryParams { matchers: s.aux.clone(), start: None, end: None };
            let r = prom::labels_get(State(state), Query(params)).await;
            // "__name__" is always listed; a result that carries real label names has more entries
            Outcome::Ok(r.0.data.len().saturating_sub(1).min(1))
        }
        _ => Outcome::Err("not a Prometheus entry".into()),
    }
}

async fn run_transition(w: &World, t: &Transition) -> Outcome {
    let fut = async {
        if t.entry.is_prom() {
            run_prom_entry(w, t.entry, &t.stmt).await
        } else {
            run_sql_entry(w, t.entry, &render(&t.stmt.sql, w)).await
        }
    };
    match AssertUnwindSafe(fut).catch_unwind().await {
        Ok(o) => o,
        Err(p) => Outcome::Panic(panic_text(p)),
    }
}

fn panic_text(p: Box<dyn std::any::Any + Send>) -> String {
    p.downcast_ref::<String>().cloned().or_else(|| p.downcast_ref::<&str>().map(|s| s.to_string())).unwrap_or_else(|| "panic".into())
}

/// The reference used by the oracle self-test only: DataFusion's unrestricted entry point on node A's session.
async fn run_unrestricted(w: &World, sql: &str) -> Outcome {
    let fut = async {
        match w.node_a.engine.context().sql(sql).await {
            Ok(df) => match df.collect().await {
                Ok(b) => Outcome::Ok(rows(&b)),
                Err(e) => Outcome::Err(e.to_string()),
            },
            Err(e) => Outcome::Err(e.to_string()),
        }
    };
    match AssertUnwindSafe(fut).catch_unwind().await {
        Ok(o) => o,
        Err(p) => Outcome::Panic(panic_text(p)),
    }
}

// ------------------------------------------------------------------------------------------------
// the state image
// ------------------------------------------------------------------------------------------------

#[derive(Debug, Clone, PartialEq, Eq, Hash, Default)]
struct SessionImage {
    /// "catalog.schema" and "catalog.schema.table [kind] (fields)" lines
    tables: Vec<String>,
    options: BTreeMap<String, String>,
    functions: BTreeSet<String>,
    prepared: Vec<String>,
}

#[derive(Debug, Clone, PartialEq, Eq, Hash, Default)]
struct Image {
    /// path -> (size, etag, content hash)
    objects: BTreeMap<String, (usize, String, u64)>,
    catalog: String,
    chunks: Vec<String>,
    sessions: BTreeMap<String, SessionImage>,
    local_files: Vec<String>,
    /// "node:probe" -> rendered result
    probes: BTreeMap<String, String>,
}

fn initial_paths() -> BTreeSet<String> {
    [CHUNK1.to_string(), CHUNK2.to_string(), CATALOG.to_string()].into_iter().collect()
}

impl Image {
    /// State identity (object and file names chosen at random by the engine are canonicalised when the image is taken).
    fn key(&self) -> u64 {
        hash_of(self)
    }
}

/// Names the engine chooses at random (files written into a directory target) must not make two runs of the
/// same sequence look different: an object that did not exist initially and lives in a directory together
/// with nothing initial is renamed `<dir>/<new#k>` (k = rank by size, content hash); its ETag is dropped.
fn canonical_objects(raw: Vec<(String, usize, String, u64)>) -> BTreeMap<String, (usize, String, u64)> {
    let init = initial_paths();
    let mut out = BTreeMap::new();
    let mut fresh: BTreeMap<String, Vec<(usize, u64, String)>> = BTreeMap::new();
    for (p, sz, etag, h) in raw {
        if init.contains(&p) {
            out.insert(p, (sz, etag, h));
        } else {
            let (dir, name) = p.rsplit_once('/').map(|(d, n)| (d.to_string(), n.to_string())).unwrap_or((String::new(), p.clone()));
            fresh.entry(dir).or_default().push((sz, h, name));
        }
    }
    for (dir, mut v) in fresh {
        v.sort();
        for (k, (sz, h, name)) in v.into_iter().enumerate() {
            // single-file targets keep their (statement-chosen) name; engine-chosen names are long random strings
            let shown = if name.len() >= 16 && name.chars().filter(|c| c.is_ascii_alphanumeric()).count() >= 16 && !name.starts_with("chunk_") { format!("<new#{k}>") } else { name };
            out.insert(format!("{dir}/{shown}"), (sz, String::new(), h));
        }
    }
    out
}

async fn session_image(node: &QueryNode) -> SessionImage {
    let ctx = node.engine.context();
    let mut tables = Vec::new();
    let mut cats = ctx.catalog_names();
    cats.sort();
    for c in cats {
        tables.push(format!("catalog {c}"));
        let Some(cat) = ctx.catalog(&c) else { continue };
        let mut schemas = cat.schema_names();
        schemas.sort();
        for s in schemas {
            if s == "information_schema" {
                continue;
            }
            tables.push(format!("{c}.{s}"));
            let Some(sch) = cat.schema(&s) else { continue };
            let mut names = sch.table_names();
            names.sort();
            for t in names {
                let line = match sch.table(&t).await {
                    Ok(Some(p)) => {
                        let any = p.as_any();
                        let kind = if any.is::<ListingTable>() {
                            "listing"
                        } else if any.is::<EmptyTable>() {
                            "empty"
                        } else if any.is::<ViewTable>() {
                            "view"
                        } else if any.is::<MemTable>() {
                            "memory"
                        } else {
                            "other"
                        };
                        if c == "datafusion" && s == "public" && t == "metrics" && (kind == "listing" || kind == "empty") {
                            // the node itself rebinds `metrics` (empty table / listing over the selected
                            // chunks) on every query: kind and schema of that binding are not state
                            format!("{c}.{s}.{t} [bound by the node]")
                        } else {
                            let fields: Vec<String> = p.schema().fields().iter().map(|f| format!("{}:{}", f.name(), f.data_type())).collect();
                            format!("{c}.{s}.{t} [{kind}] ({})", fields.join(","))
                        }
                    }
                    Ok(None) => format!("{c}.{s}.{t} [vanished]"),
                    Err(e) => format!("{c}.{s}.{t} [error {e}]"),
                };
                tables.push(line);
            }
        }
    }
    let state = ctx.state();
    let options: BTreeMap<String, String> = state.config_options().entries().into_iter().map(|e| (e.key, e.value.unwrap_or_else(|| "<unset>".into()))).collect();
    let mut functions = BTreeSet::new();
    for k in state.scalar_functions().keys() {
        functions.insert(format!("scalar:{k}"));
    }
    for k in state.aggregate_functions().keys() {
        functions.insert(format!("aggregate:{k}"));
    }
    for k in state.window_functions().keys() {
        functions.insert(format!("window:{k}"));
    }
    for k in state.table_functions().keys() {
        functions.insert(format!("table:{k}"));
    }
    // prepared plans are not listable: probe the name the alphabet uses (EXECUTE only builds a plan)
    let mut prepared = Vec::new();
    let probe = AssertUnwindSafe(ctx.sql("EXECUTE p1")).catch_unwind().await;
    if matches!(probe, Ok(Ok(_))) {
        prepared.push("p1".to_string());
    }
    SessionImage { tables, options, functions, prepared }
}

fn walk(dir: &std::path::Path, root: &std::path::Path, out: &mut Vec<String>) {
    let Ok(rd) = std::fs::read_dir(dir) else { return };
    for e in rd.flatten() {
        let p = e.path();
        let rel_dir = p.parent().and_then(|d| d.strip_prefix(root).ok()).map(|d| d.display().to_string()).unwrap_or_default();
        let name = p.file_name().map(|n| n.to_string_lossy().to_string()).unwrap_or_default();
        if p.is_dir() {
            out.push(format!("{rel_dir}/{name}/"));
            walk(&p, root, out);
        } else {
            // files the engine names at random (written into a directory target) are shown as <new>
            let shown = if name.len() >= 16 && p.parent() != Some(root) { "<new>".to_string() } else { name };
            out.push(format!("{rel_dir}/{shown} ({} bytes)", e.metadata().map(|m| m.len()).unwrap_or(0)));
        }
    }
}

fn probe_sqls() -> Vec<(&'static str, String)> {
    vec![
        ("rows", format!("SELECT value_i64, metric_name, host, value_f64, timestamp FROM metrics WHERE timestamp >= to_timestamp_nanos({}) AND timestamp <= to_timestamp_nanos({}) ORDER BY value_i64", lo(), hi())),
        ("count-last-hour", "SELECT count(*) AS n, max(value_i64) AS max_id FROM metrics".to_string()),
        ("tables", "SELECT table_catalog, table_schema, table_name, table_type FROM information_schema.tables WHERE table_schema <> 'information_schema' ORDER BY 1, 2, 3".to_string()),
    ]
}

/// data rows of a pretty-printed result table, cells trimmed
fn table_cells(t: &str) -> Vec<Vec<String>> {
    t.lines()
        .filter(|l| l.starts_with('|'))
        .skip(1)
        .map(|l| l.trim_matches('|').split('|').map(|c| c.trim().to_string()).collect())
        .collect()
}

async fn probe(node: &QueryNode, sql: &str) -> String {
    match AssertUnwindSafe(node.query(sql)).catch_unwind().await {
        Ok(Ok(b)) => match arrow::util::pretty::pretty_format_batches(&b) {
            Ok(t) => t.to_string(),
            Err(e) => format!("FORMAT-ERROR {e}"),
        },
        Ok(Err(e)) => format!("ERROR {e}"),
        Err(p) => format!("PANIC {}", panic_text(p)),
    }
}

/// Take the image. Order matters: everything that does not disturb the nodes first, the probe queries last
/// (a probe rebinds `metrics` and warms caches, so the image is only ever taken at the end of an execution).
async fn take_image(w: &World) -> Image {
    let mut img = Image::default();
    let mut raw = Vec::new();
    for (p, sz, etag) in crate::engine::store::raw_list(&w.mem).await {
        let body = crate::engine::store::raw_get(&w.mem, &p).await.unwrap_or_default();
        // JSON documents written by the product serialise hash maps in arbitrary key order
        let h = if p.ends_with(".json") { hash_bytes(canon_json(&body).as_bytes()) } else { hash_bytes(&body) };
        raw.push((p, sz, etag.unwrap_or_default(), h));
    }
    img.objects = canonical_objects(raw);
    img.catalog = match crate::engine::store::raw_get(&w.mem, CATALOG).await {
        Some(b) => canon_json(&b),
        None => "<catalog object missing>".into(),
    };
    img.chunks = match os_client(w.mem.clone()).list_chunks().await {
        Ok(mut v) => {
            v.sort_by(|a, b| a.chunk_path.cmp(&b.chunk_path));
            v.iter().map(|c| format!("{} [{}..{}] rows={} bytes={}", c.chunk_path, c.min_timestamp, c.max_timestamp, c.row_count, c.size_bytes)).collect()
        }
        Err(e) => vec![format!("list_chunks failed: {e}")],
    };
    img.sessions.insert("A".into(), session_image(&w.node_a).await);
    img.sessions.insert("B".into(), session_image(&w.node_b).await);
    walk(&w.tmp, &w.tmp, &mut img.local_files);
    img.local_files.sort();
    // probes: the nodes under test, then a node that starts afterwards on the same bucket
    let fresh = QueryNode::new(node_config(), w.mem.clone(), Arc::new(os_client(w.mem.clone())), super::c03::storage_config()).await;
    for (name, sql) in probe_sqls() {
        img.probes.insert(format!("A:{name}"), probe(&w.node_a, &sql).await);
        img.probes.insert(format!("B:{name}"), probe(&w.node_b, &sql).await);
        match &fresh {
            Ok(n) => {
                img.probes.insert(format!("fresh-node:{name}"), probe(n, &sql).await);
            }
            Err(e) => {
                img.probes.insert(format!("fresh-node:{name}"), format!("NODE-START-ERROR {e}"));
            }
        }
    }
    img
}

/// What differs between the image a transition started from and the image it ended in, most severe first:
/// (effect tag, detail)
fn diff(parent: &Image, child: &Image) -> Vec<(String, String)> {
    let mut out = Vec::new();
    for (p, v) in &parent.objects {
        match child.objects.get(p) {
            None => out.push(("object-deleted".to_string(), format!("object {p} no longer exists"))),
            Some(c) if c != v => {
                let tag = if p == CATALOG { "catalog-object-overwritten" } else { "object-overwritten" };
                out.push((tag.to_string(), format!("object {p}: size/etag/hash {:?} -> {:?}", v, c)));
            }
            _ => {}
        }
    }
    for (p, v) in &child.objects {
        if !parent.objects.contains_key(p) {
            out.push(("object-created".to_string(), format!("new object {p} ({} bytes)", v.0)));
        }
    }
    // deletions and overwrites outrank creations
    out.sort_by_key(|(t, _)| match t.as_str() {
        "object-deleted" => 0,
        "object-overwritten" => 1,
        "catalog-object-overwritten" => 2,
        _ => 3,
    });
    if parent.catalog != child.catalog || parent.chunks != child.chunks {
        out.push(("catalog-changed".into(), format!("chunks listed by the catalog: {:?} -> {:?}", parent.chunks, child.chunks)));
    }
    if parent.local_files != child.local_files {
        out.push(("local-file-created".into(), format!("files on the node's local disk: {:?} -> {:?}", parent.local_files, child.local_files)));
    }
    for (n, ps) in &parent.sessions {
        let cs = child.sessions.get(n).cloned().unwrap_or_default();
        if ps.tables != cs.tables {
            let gone: Vec<&String> = ps.tables.iter().filter(|t| !cs.tables.contains(t)).collect();
            let new: Vec<&String> = cs.tables.iter().filter(|t| !ps.tables.contains(t)).collect();
            let tag = if gone.iter().any(|t| t.contains(".metrics ")) {
                "session-metrics-table-dropped-or-replaced"
            } else if !gone.is_empty() {
                "session-table-dropped"
            } else {
                "session-table-added"
            };
            out.push((tag.into(), format!("node {n} session catalog: removed {gone:?}, added {new:?}")));
        }
    }
    for (n, ps) in &parent.sessions {
        let cs = child.sessions.get(n).cloned().unwrap_or_default();
        if ps.options != cs.options {
            let ch: Vec<String> = cs.options.iter().filter(|(k, v)| ps.options.get(*k) != Some(*v)).map(|(k, v)| format!("{k}: {:?} -> {v:?}", ps.options.get(k))).collect();
            out.push(("session-option-changed".into(), format!("node {n}: {}", ch.join(", "))));
        }
        if ps.functions != cs.functions {
            let gone: Vec<&String> = ps.functions.difference(&cs.functions).collect();
            let new: Vec<&String> = cs.functions.difference(&ps.functions).collect();
            out.push(("session-function-set-changed".into(), format!("node {n}: removed {gone:?}, added {new:?}")));
        }
        if ps.prepared != cs.prepared {
            out.push(("session-prepared-statement-changed".into(), format!("node {n}: prepared statements {:?} -> {:?}", ps.prepared, cs.prepared)));
        }
    }
    for (k, pv) in &parent.probes {
        let cv = child.probes.get(k).cloned().unwrap_or_default();
        if *pv != cv {
            out.push(("later-queries-differ".into(), format!("probe {k}:\nbefore:\n{pv}\nafter:\n{cv}")));
        }
    }
    out
}

// ------------------------------------------------------------------------------------------------
// executions
// ------------------------------------------------------------------------------------------------

#[derive(Debug, Clone, Copy, PartialEq, Eq, Hash, PartialOrd, Ord)]
enum Init {
    Cold,
    Warm,
}
impl Init {
    fn name(self) -> &'static str {
        match self {
            Init::Cold => "cold",
            Init::Warm => "warm",
        }
    }
}

struct Exec {
    outcomes: Vec<Outcome>,
    /// mutating store requests observed during the last transition
    last_mutations: Vec<String>,
    image: Image,
}

static TMP_SEQ: AtomicUsize = AtomicUsize::new(0);

fn fresh_tmp() -> PathBuf {
    let n = TMP_SEQ.fetch_add(1, Ordering::SeqCst);
    // the node's "local disk": a memory-backed directory when there is one (a full /tmp must not turn into
    // machinery errors), the system temporary directory otherwise
    let shm = std::path::Path::new("/dev/shm");
    let base = if shm.is_dir() && std::fs::metadata(shm).map(|m| !m.permissions().readonly()).unwrap_or(false) { shm.to_path_buf() } else { std::env::temp_dir() };
    base.join(format!("csverif-c11-{}-{n}", std::process::id()))
}

enum Step<'a> {
    T(&'a Transition),
    /// oracle self-test: statement handed to DataFusion with no restriction
    Unrestricted(&'a Stmt),
}

/// Build a fresh world, bring it to `init`, run `steps`, take the image.
fn execute(init: Init, steps: &[Step<'_>]) -> Result<Exec, String> {
    let rt = tokio::runtime::Builder::new_current_thread().enable_all().start_paused(true).build().map_err(|e| e.to_string())?;
    let tmp = fresh_tmp();
    let timing = std::env::var("C11_TIMING").is_ok();
    let tt = std::time::Instant::now();
    let r = rt.block_on(async {
        let w = build_world(tmp.clone()).await?;
        if timing {
            eprintln!("  world built at {:?}", tt.elapsed());
        }
        if init == Init::Warm {
            let warm = format!("SELECT count(*) FROM metrics WHERE timestamp >= to_timestamp_nanos({}) AND timestamp <= to_timestamp_nanos({})", lo(), hi());
            for n in [&w.node_a, &w.node_b] {
                let b = n.query(&warm).await.map_err(|e| format!("warm-up query failed: {e}"))?;
                if rows(&b) != 1 {
                    return Err("warm-up query returned no row".to_string());
                }
            }
        }
        let pre = w.log.lock().unwrap().len();
        if pre != 0 {
            return Err(format!("store mutations before the first transition: {:?}", w.log.lock().unwrap()));
        }
        let mut outcomes = Vec::new();
        let mut last_from = 0;
        for s in steps {
            last_from = w.log.lock().unwrap().len();
            let o = match s {
                Step::T(t) => run_transition(&w, t).await,
                Step::Unrestricted(st) => run_unrestricted(&w, &render(&st.sql, &w)).await,
            };
            outcomes.push(o);
        }
        let last_mutations = w.log.lock().unwrap()[last_from..].to_vec();
        if timing {
            eprintln!("  steps done at {:?}", tt.elapsed());
        }
        let image = take_image(&w).await;
        if timing {
            eprintln!("  image taken at {:?}", tt.elapsed());
        }
        let after = w.log.lock().unwrap().len();
        // the probes themselves must not write either (they are SELECTs through the same code)
        let mut last_mutations = last_mutations;
        if after != last_from + last_mutations.len() {
            last_mutations.extend(w.log.lock().unwrap()[last_from + last_mutations.len()..].iter().map(|m| format!("(during probe) {m}")));
        }
        Ok(Exec { outcomes, last_mutations, image })
    });
    drop(rt);
    let _ = std::fs::remove_dir_all(&tmp);
    if timing {
        eprintln!("  execution finished at {:?}", tt.elapsed());
    }
    r
}

/// Judge one transition: `parent` is the image of the state it started from.
/// Returns (signature, message) of the most severe finding.
fn judge(t: &Transition, parent: &Image, child: &Exec) -> Option<(String, String)> {
    let outcome = child.outcomes.last().cloned().unwrap_or(Outcome::Err("no outcome".into()));
    let mut effects: Vec<(String, String)> = Vec::new();
    if let Outcome::Panic(p) = &outcome {
        effects.push(("panic".into(), format!("the entry point panicked: {p}")));
    }
    let d = diff(parent, &child.image);
    let has_obj = d.iter().any(|(t, _)| t.starts_with("object-") || t.starts_with("catalog-object"));
    let mut d = d.into_iter();
    // object effects first, then attempted mutations, then the rest
    let mut rest = Vec::new();
    for e in d.by_ref() {
        if e.0.starts_with("object-") || e.0.starts_with("catalog-object") {
            effects.push(e);
        } else {
            rest.push(e);
        }
    }
    if !child.last_mutations.is_empty() && !has_obj {
        effects.push(("store-mutation-attempted".into(), format!("mutating requests reached the store: {:?}", child.last_mutations)));
    }
    effects.extend(rest);
    if t.stmt.must_err && t.entry.executes() && matches!(outcome, Outcome::Ok(_)) {
        effects.push(("write-statement-accepted".into(), "a write-like statement was answered with success instead of an error".into()));
    }
    let (tag, _) = effects.first()?.clone();
    let sig = format!("C11:{}:{}:{}", t.entry.name(), t.stmt.class, tag);
    let mut msg = format!("{} <- [{}] {}{}\n  answered: {}", t.entry.name(), t.stmt.id, show(&t.stmt.sql), if t.stmt.aux.is_empty() { String::new() } else { format!(" match[]={:?}", t.stmt.aux) }, outcome.short());
    for (tag, detail) in effects.iter().take(6) {
        msg.push_str(&format!("\n  {tag}: {}", detail.lines().take(14).collect::<Vec<_>>().join("\n    ")));
    }
    if !child.last_mutations.is_empty() {
        msg.push_str(&format!("\n  store requests: {:?}", child.last_mutations.iter().take(6).collect::<Vec<_>>()));
    }
    Some((sig, msg))
}

fn replay_json(init: Init, alpha: &[Transition], path: &[usize]) -> Value {
    json!({
        "kind": "statement-sequence",
        "init": init.name(),
        "seq": path.iter().map(|i| json!({"entry": alpha[*i].entry.name(), "stmt": alpha[*i].stmt.id, "text": show(&alpha[*i].stmt.sql), "aux": alpha[*i].stmt.aux})).collect::<Vec<_>>(),
    })
}

// ------------------------------------------------------------------------------------------------
// parallel map over jobs (fresh thread-local environment per worker: frozen wall clock)
// ------------------------------------------------------------------------------------------------

fn par_map<J: Sync, R: Send>(jobs: &[J], f: impl Fn(&J) -> R + Sync) -> Vec<R> {
    let n = jobs.len();
    let next = AtomicUsize::new(0);
    let results: Mutex<Vec<Option<R>>> = Mutex::new((0..n).map(|_| None).collect());
    let workers = std::thread::available_parallelism().map(|x| x.get()).unwrap_or(8).min(16).max(1);
    std::thread::scope(|s| {
        for _ in 0..workers.min(n.max(1)) {
            std::thread::Builder::new()
                .stack_size(32 << 20)
                .spawn_scoped(s, || {
                    let e = env::EnvState::new();
                    env::install(&e);
                    loop {
                        let i = next.fetch_add(1, Ordering::SeqCst);
                        if i >= n {
                            break;
                        }
                        let r = f(&jobs[i]);
                        results.lock().unwrap()[i] = Some(r);
                    }
                    env::uninstall();
                    drop(e);
                })
                .expect("spawn worker");
        }
    });
    results.into_inner().unwrap().into_iter().map(|r| r.expect("job result")).collect()
}

// ------------------------------------------------------------------------------------------------
// the search
// ------------------------------------------------------------------------------------------------

struct StateRec {
    init: Init,
    path: Vec<usize>,
    image: Image,
}

pub fn run(tier: &str) -> i32 {
    let mut rep = Report::new("C11", tier, "model_checking");
    let thorough = tier == "thorough";
    let depth = if thorough { 2 } else { 1 };
    let alpha = alphabet();
    let stmts = sql_statements();
    let t0 = std::time::Instant::now();

    rep.assume("DataFusion 44's parser/planner is the statement grammar: one representative statement (several targets for the file-writing ones) per statement kind its planner accepts (COPY, EXPLAIN [ANALYZE], CREATE EXTERNAL TABLE / TABLE [AS] / VIEW / SCHEMA / DATABASE / FUNCTION / INDEX, SELECT INTO, INSERT [OVERWRITE], UPDATE, DELETE, DROP TABLE/VIEW/SCHEMA/FUNCTION, SET, PREPARE/EXECUTE/DEALLOCATE, BEGIN/COMMIT/ROLLBACK, SHOW/DESCRIBE, multi-statement strings); statements of the same kind that differ only in names or literals are assumed to behave alike");
    rep.assume("storage is object_store::memory::InMemory behind the same CachedObjectStore/DataFusion registration the node uses for S3 (URL scheme memory://b); the node's local disk is a private temporary directory; a write to another bucket/scheme that is not registered cannot succeed in either world");
    rep.assume("entry points are called in-process: the axum handlers (SQL POST/GET, Prometheus query/query_range/label values/series/labels), the FlightSqlService methods of FlightSqlGrpcService (get_flight_info_statement, do_get_statement, create/get/do_get prepared statement), FlightSqlQueryService::execute_batches (the body of do_put_statement_update, whose request type cannot be built outside arrow-flight), QueryNode::query_stream / query_stream_filtered, and the seven QueryEngine methods that hand SQL to the session; HTTP/gRPC/WebSocket framing is not exercised (the WebSocket handler calls QueryNode::query like the SQL handler)");
    rep.assume("for SET / PREPARE / EXECUTE / DEALLOCATE / BEGIN / COMMIT / ROLLBACK and for EXPLAIN (without ANALYZE) of a writing statement only state invariance is demanded, not an error; for planning-only entry points (get_flight_info, extract_*, analyze, prepare) a write-like statement may be answered with success as long as nothing changes");
    rep.assume("the state image is: raw object listing with sizes, ETags and content hashes; catalog object and list_chunks(); per-node DataFusion catalogs/schemas/tables (kind, schema), all configuration options, function-name sets, prepared-statement probe; local files; three probe queries on each node and on a node started afterwards. The node's own rebinding of `metrics` (empty table / listing over the selected chunks) and cache contents are deliberately not state");
    rep.assume("single client, sequential statements (concurrent statements are out of scope of this property); wall clock frozen so that the default 'last hour' range covers the fixture rows");

    // ---- level 0: initial states, determinism self-check
    let inits = [Init::Cold, Init::Warm];
    let base: Vec<Result<(Exec, Exec), String>> = par_map(&inits, |i| Ok((execute(*i, &[])?, execute(*i, &[])?)));
    let mut states: HashMap<(Init, u64), StateRec> = HashMap::new();
    let mut frontier: Vec<(Init, u64)> = Vec::new();
    for (i, b) in inits.iter().zip(base) {
        match b {
            Err(e) => {
                rep.machinery(format!("cannot build the {} initial state: {e}", i.name()));
                return rep.finish();
            }
            Ok((a, b)) => {
                if a.image != b.image {
                    rep.machinery(format!("the {} initial state is not reproducible: {:?}", i.name(), diff(&a.image, &b.image)));
                    return rep.finish();
                }
                // vacuity: the probes see the fixture rows on every node
                for (k, v) in &a.image.probes {
                    if k.ends_with(":rows") && table_cells(v).iter().map(|r| r[0].clone()).collect::<Vec<_>>() != ["1", "2", "3", "4", "5", "6"] {
                        rep.machinery(format!("probe {k} does not return the six fixture rows in the {} initial state:\n{v}", i.name()));
                    }
                    if k.ends_with(":count-last-hour") && table_cells(v) != vec![vec!["6".to_string(), "6".to_string()]] {
                        rep.machinery(format!("probe {k} does not count six rows in the {} initial state:\n{v}", i.name()));
                    }
                }
                if a.image.objects.len() != 3 || a.image.chunks.len() != 2 {
                    rep.machinery(format!("unexpected initial store: {:?} / {:?}", a.image.objects.keys(), a.image.chunks));
                }
                let k = a.image.key();
                states.insert((*i, k), StateRec { init: *i, path: vec![], image: a.image });
                frontier.push((*i, k));
            }
        }
    }
    if !rep.machinery_errors.is_empty() {
        return rep.finish();
    }

    // ---- oracle self-test: every statement that is meant to write does change the image when it is handed to
    //      DataFusion with no restriction (this is independent of the code under test's protection)
    let st_jobs: Vec<(Init, usize)> = inits.iter().flat_map(|i| (0..stmts.len()).map(move |s| (*i, s))).collect();
    let st_res = par_map(&st_jobs, |(i, s)| execute(*i, &[Step::Unrestricted(&stmts[*s])]));
    let mut potent: BTreeSet<&'static str> = BTreeSet::new();
    let mut potent_effects: BTreeSet<String> = BTreeSet::new();
    let mut selftest_mutations = 0u64;
    let mut impotent: Vec<(&'static str, String)> = Vec::new();
    for ((i, s), r) in st_jobs.iter().zip(&st_res) {
        let stmt = &stmts[*s];
        match r {
            Err(e) => rep.machinery(format!("self-test execution failed for [{}]: {e}", stmt.id)),
            Ok(x) => {
                let base_img = &states[&frontier.iter().find(|f| f.0 == *i).copied().unwrap()].image;
                let d = diff(base_img, &x.image);
                selftest_mutations += x.last_mutations.len() as u64;
                if !d.is_empty() || !x.last_mutations.is_empty() {
                    potent.insert(stmt.id);
                    for (t, _) in &d {
                        potent_effects.insert(t.clone());
                    }
                } else if stmt.must_be_potent {
                    impotent.push((stmt.id, format!("{} state: answered {}", i.name(), x.outcomes[0].short())));
                }
                if stmt.control_rows.is_some() && !d.is_empty() {
                    rep.machinery(format!("oracle self-test: control [{}] changes the image: {:?}", stmt.id, d));
                }
            }
        }
    }
    for (id, why) in &impotent {
        // an empty `metrics` (cold node) makes COPY of its rows write nothing: one initial state is enough
        if !potent.contains(id) {
            rep.machinery(format!("oracle self-test: [{id}] handed to DataFusion unrestricted changed nothing the image can see ({why})"));
        }
    }
    println!(
        "C11 self-test: {} statements x 2 initial states handed to DataFusion unrestricted: {} statements change the image ({} kinds of effect: {}), {} mutating store requests seen, {:.1}s",
        stmts.len(),
        potent.len(),
        potent_effects.len(),
        potent_effects.iter().cloned().collect::<Vec<_>>().join(","),
        selftest_mutations,
        t0.elapsed().as_secs_f64()
    );
    for need in ["object-created", "object-overwritten", "catalog-object-overwritten", "local-file-created", "session-table-added", "session-metrics-table-dropped-or-replaced", "session-option-changed", "session-function-set-changed", "later-queries-differ"] {
        if !potent_effects.contains(need) {
            rep.machinery(format!("oracle self-test: no unrestricted statement produced the effect '{need}': the image cannot be trusted to see it"));
        }
    }
    if selftest_mutations == 0 {
        rep.machinery("oracle self-test: the recording store handle saw no mutating request");
    }
    rep.set("selftest_statements_that_write_when_unrestricted", potent.len() as u64);
    rep.set("selftest_effect_kinds", json!(potent_effects));
    if !rep.machinery_errors.is_empty() {
        return rep.finish();
    }

    // ---- breadth-first search
    let mut transitions = 0u64;
    let mut executions = (st_jobs.len() + 4) as u64;
    let mut refused_potent: BTreeSet<(String, &'static str)> = BTreeSet::new();
    let mut controls_ok = 0u64;
    let mut by_entry: BTreeMap<&'static str, (u64, u64, u64)> = BTreeMap::new(); // (transitions, answered Err, answered Ok)
    let mut capped = false;
    let init_key: HashMap<Init, (Init, u64)> = frontier.iter().map(|k| (k.0, *k)).collect();
    let mut after_first: HashMap<(Init, usize), u64> = HashMap::new();
    let budget_s = if thorough { 22.0 * 60.0 } else { 50.0 };
    for d in 1..=depth {
        let td = std::time::Instant::now();
        let mut jobs: Vec<((Init, u64), usize)> = Vec::new();
        let mut fr = frontier.clone();
        fr.sort_by_key(|k| (states[k].path.len(), states[k].init, states[k].path.clone()));
        for k in &fr {
            for ti in 0..alpha.len() {
                jobs.push((*k, ti));
            }
        }
        if jobs.is_empty() {
            println!("C11 depth {d}: no new state was reached at depth {}, nothing to expand", d - 1);
            break;
        }
        // chunked so that a time cap can stop between chunks (never hit on a tree that satisfies the property)
        let mut next_frontier: Vec<(Init, u64)> = Vec::new();
        let mut level_violations = 0u64;
        let mut level_new = 0u64;
        for chunk in jobs.chunks(4096) {
            if t0.elapsed().as_secs_f64() > budget_s {
                capped = true;
                break;
            }
            let res = par_map(chunk, |(k, ti)| {
                let rec = &states[k];
                let mut steps: Vec<Step> = rec.path.iter().map(|i| Step::T(&alpha[*i])).collect();
                steps.push(Step::T(&alpha[*ti]));
                execute(rec.init, &steps)
            });
            for ((k, ti), r) in chunk.iter().zip(res) {
                executions += 1;
                transitions += 1;
                let t = &alpha[*ti];
                let (init, mut path) = (states[k].init, states[k].path.clone());
                path.push(*ti);
                let x = match r {
                    Ok(x) => x,
                    Err(e) => {
                        rep.machinery(format!("execution failed for {:?}: {e}", replay_json(init, &alpha, &path)));
                        continue;
                    }
                };
                let outcome = x.outcomes.last().cloned().unwrap();
                let be = by_entry.entry(t.entry.name()).or_insert((0, 0, 0));
                be.0 += 1;
                match outcome {
                    Outcome::Ok(_) => be.2 += 1,
                    _ => be.1 += 1,
                }
                if let Some((sig, msg)) = judge(t, &states[k].image, &x) {
                    level_violations += 1;
                    rep.violation(&sig, &format!("[{} start, depth {}] {}", init.name(), path.len(), msg), replay_json(init, &alpha, &path));
                }
                // controls: must succeed with the expected rows (vacuity guard for the whole pipeline)
                if let Some(n) = t.stmt.control_rows {
                    if path.len() == 1 {
                        match &outcome {
                            // engine-level methods run against whatever `metrics` is bound to (an empty table on a
                            // cold node): no expectation there
                            _ if !t.entry.composite() && !t.entry.is_prom() => {}
                            Outcome::Ok(got) if *got == n || *got == usize::MAX => controls_ok += 1,
                            o => rep.machinery(format!("control [{}] through {} ({} start) answered {} (expected {n} rows): the pipeline is not exercising the query path", t.stmt.id, t.entry.name(), init.name(), o.short())),
                        }
                    }
                }
                if potent.contains(t.stmt.id) && !matches!(outcome, Outcome::Ok(_)) && x.image == states[k].image {
                    refused_potent.insert((t.entry.name().to_string(), t.stmt.id));
                }
                if rep.coverage.get("samples").and_then(|s| s.as_array()).map(|a| a.len()).unwrap_or(0) < 6 && (transitions % 211 == 1) {
                    rep.push_sample(json!({"start": init.name(), "sequence": replay_json(init, &alpha, &path)["seq"], "answers": x.outcomes.iter().map(|o| o.short()).collect::<Vec<_>>(), "state_changed": x.image != states[k].image}));
                }
                let key = (init, x.image.key());
                if path.len() == 1 {
                    after_first.insert((init, *ti), key.1);
                }
                if !states.contains_key(&key) {
                    level_new += 1;
                    states.insert(key, StateRec { init, path, image: x.image });
                    next_frontier.push(key);
                }
            }
        }
        println!(
            "C11 depth {d}: {} states expanded x {} transitions = {} executions{}; {} violating transitions, {} new states; {:.1}s",
            fr.len(),
            alpha.len(),
            jobs.len(),
            if capped { " (CUT SHORT by the time budget)" } else { "" },
            level_violations,
            level_new,
            td.elapsed().as_secs_f64()
        );
        frontier = next_frontier;
        if capped {
            break;
        }
    }

    // ---- thorough: depth 2 again without trusting the image — every ordered pair over the interface-level
    //      entries is executed even though the first statement left the image unchanged (hidden state)
    let mut pair_runs = 0u64;
    if thorough && !capped {
        let tp = std::time::Instant::now();
        let hostile_prom = |i: &usize| alpha[*i].entry.is_prom() && alpha[*i].stmt.class != "query";
        let first: Vec<usize> = (0..alpha.len()).filter(|i| matches!(alpha[*i].entry, Entry::HttpSql | Entry::FlightPrepared) || hostile_prom(i)).collect();
        let second: Vec<usize> = (0..alpha.len()).filter(|i| matches!(alpha[*i].entry, Entry::HttpSql) || hostile_prom(i)).collect();
        let mut jobs: Vec<(Init, usize, usize)> = Vec::new();
        let mut skipped_first = 0u64;
        for i in inits {
            for a in &first {
                // a first transition that changed the image was reported at depth 1 and its successor state was
                // expanded by the breadth-first search above
                if after_first.get(&(i, *a)) != Some(&init_key[&i].1) {
                    skipped_first += 1;
                    continue;
                }
                for b in &second {
                    jobs.push((i, *a, *b));
                }
            }
        }
        let mut pair_violations = 0u64;
        for chunk in jobs.chunks(4096) {
            if t0.elapsed().as_secs_f64() > budget_s {
                capped = true;
                break;
            }
            let res = par_map(chunk, |(i, a, b)| execute(*i, &[Step::T(&alpha[*a]), Step::T(&alpha[*b])]));
            for ((i, a, b), r) in chunk.iter().zip(res) {
                executions += 1;
                pair_runs += 1;
                transitions += 1;
                let x = match r {
                    Ok(x) => x,
                    Err(e) => {
                        rep.machinery(format!("pair execution failed: {e}"));
                        continue;
                    }
                };
                let parent_img = &states[&init_key[i]].image;
                if let Some((sig, msg)) = judge(&alpha[*b], parent_img, &x) {
                    pair_violations += 1;
                    rep.violation(&sig, &format!("[{} start, second of a pair] {}", i.name(), msg), replay_json(*i, &alpha, &[*a, *b]));
                }
            }
        }
        println!(
            "C11 pairs (state identity ignored): {} first transitions (HTTP SQL, Flight prepared, hostile Prometheus) x {} second transitions (HTTP SQL, hostile Prometheus) x 2 initial states, {} first transitions skipped (they changed the image: expanded by the BFS) = {} executions{}; {} violating; {:.1}s",
            first.len(),
            second.len(),
            skipped_first,
            jobs.len(),
            if capped { " (CUT SHORT)" } else { "" },
            pair_violations,
            tp.elapsed().as_secs_f64()
        );
    }

    // ---- evidence
    rep.set("states", states.len() as u64);
    rep.set("transitions", transitions);
    rep.set("traces_validated_against_impl", executions);
    rep.set("evaluations", executions);
    rep.set("distinct_nontrivial", refused_potent.len() as u64);
    rep.set(
        "rule",
        "transition = (entry point, statement): 16 SQL entry points x every statement of the alphabet + hostile Prometheus requests; sequences of depth 1 (quick) / 2 (thorough: BFS over distinct state images, plus every ordered pair (HTTP-SQL | Flight-prepared | hostile-Prometheus transition, then HTTP-SQL | hostile-Prometheus transition) regardless of state identity), from a cold and a warm start; each sequence is executed on a freshly built world. distinct_nontrivial = distinct (entry point, statement) pairs where the statement is one the self-test of THIS run saw write when handed to DataFusion unrestricted, and the entry point answered it with an error and left the image unchanged",
    );
    rep.set("max_depth", depth as u64);
    rep.set("alphabet_transitions", alpha.len() as u64);
    rep.set("alphabet_statements", stmts.len() as u64);
    rep.set("alphabet_prometheus_requests", prom_requests().len() as u64);
    rep.set("entry_points", json!(by_entry.iter().map(|(k, v)| json!({"entry": k, "transitions": v.0, "answered_error": v.1, "answered_ok": v.2})).collect::<Vec<_>>()));
    rep.set("controls_answered_correctly", controls_ok);
    rep.set("pair_executions_ignoring_state_identity", pair_runs);
    if capped {
        rep.set("exhaustive", false);
        rep.set("exhaustive_note", "the time budget cut the search short: depth 1 is complete, deeper levels are partial");
    }
    if controls_ok == 0 {
        rep.machinery("no control query was answered: nothing was exercised");
    }
    if refused_potent.is_empty() && rep.violations.is_empty() {
        rep.machinery("no writing statement was both refused and harmless, yet no violation was reported: the search is vacuous");
    }
    println!(
        "C11 {tier}: {} states, {} transitions, {} executions, {} (entry, writing statement) pairs refused without effect, {} controls ok, {} violation signatures, {:.1}s",
        states.len(),
        transitions,
        executions,
        refused_potent.len(),
        controls_ok,
        rep.violations.len(),
        t0.elapsed().as_secs_f64()
    );
    rep.finish()
}

pub fn replay(v: &Value) -> i32 {
    let alpha = alphabet();
    let init = if v["init"] == "warm" { Init::Warm } else { Init::Cold };
    let mut idx = Vec::new();
    for s in v["seq"].as_array().cloned().unwrap_or_default() {
        let (e, id) = (s["entry"].as_str().unwrap_or(""), s["stmt"].as_str().unwrap_or(""));
        match alpha.iter().position(|t| t.entry.name() == e && t.stmt.id == id) {
            Some(i) => idx.push(i),
            None => {
                println!("MACHINERY: the alphabet has no transition ({e}, {id})");
                return 2;
            }
        }
    }
    if idx.is_empty() {
        println!("MACHINERY: empty sequence");
        return 2;
    }
    let e = env::EnvState::new();
    env::install(&e);
    let run = |n: usize| {
        let steps: Vec<Step> = idx[..n].iter().map(|i| Step::T(&alpha[*i])).collect();
        execute(init, &steps)
    };
    let parent = run(idx.len() - 1);
    let child = run(idx.len());
    env::uninstall();
    let (parent, child) = match (parent, child) {
        (Ok(p), Ok(c)) => (p, c),
        (Err(e), _) | (_, Err(e)) => {
            println!("MACHINERY: {e}");
            return 2;
        }
    };
    println!("start: {} nodes", init.name());
    for (i, o) in idx.iter().zip(&child.outcomes) {
        println!("  {} <- [{}] {}\n      answered {}", alpha[*i].entry.name(), alpha[*i].stmt.id, show(&alpha[*i].stmt.sql), o.short());
    }
    println!("objects before the last statement: {:?}", parent.image.objects.keys().collect::<Vec<_>>());
    println!("objects after  the last statement: {:?}", child.image.objects.keys().collect::<Vec<_>>());
    match judge(&alpha[*idx.last().unwrap()], &parent.image, &child) {
        Some((sig, msg)) => {
            println!("violation [{sig}]:\n{msg}");
            1
        }
        None => {
            println!("no violation: the last statement changed nothing and was answered acceptably");
            0
        }
    }
}
