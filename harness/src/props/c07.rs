//! C07 — time-range chunk lookup is exact, on both metadata back ends.
//! Engine B: every operation history up to a depth, both back ends driven in lock-step, every query
//! range built from the boundary points checked after every history against a reference interval map.

use super::common::*;
use crate::engine::report::Report;
use cardinalsin::metadata::{LocalMetadataClient, MetadataClient, TimeRange};
use futures::FutureExt;
use serde_json::json;
use std::collections::{BTreeMap, BTreeSet};
use std::panic::AssertUnwindSafe;
use std::sync::atomic::{AtomicU64, Ordering};
use std::sync::{Arc, Mutex};

#[derive(Debug, Clone, PartialEq, Eq, Hash, serde::Serialize, serde::Deserialize)]
pub enum Op {
    Reg(u8, usize),
    Del(u8),
    /// complete_compaction(sources, target)
    Compact(Vec<u8>, u8),
    /// complete_compaction_with_target(sources, new target path p3 covering interval i): what the compactor calls
    CompactWith(Vec<u8>, usize),
}

fn pname(i: u8) -> String {
    if i == 9 {
        "ghost".into()
    } else {
        format!("p{i}")
    }
}

fn intervals(tier: &str) -> Vec<(i64, i64)> {
    let h = HOUR;
    let day = 24 * h;
    let mut v = vec![
        (-1, -1),
        (0, 0),
        (h - 1, h - 1),
        (h - 1, h),
        (h, h),
        (5, 5),
        (-h - 1, 1),
        (0, 2 * h + 5),
        (3 * day, 3 * day + 2 * h),
    ];
    if tier == "thorough" {
        v.push((-2 * h, -h));
        v.push((h + 1, 2 * h - 1));
    }
    v
}

fn alphabet(tier: &str) -> Vec<Op> {
    let n_iv = intervals(tier).len();
    let mut a = Vec::new();
    for p in 0..3u8 {
        for i in 0..n_iv {
            a.push(Op::Reg(p, i));
        }
    }
    for p in 0..3u8 {
        a.push(Op::Del(p));
    }
    a.push(Op::Compact(vec![0], 1));
    a.push(Op::Compact(vec![0, 1], 2));
    a.push(Op::Compact(vec![1, 2], 0));
    a.push(Op::Compact(vec![0], 9)); // unknown target
    // merged target covering one, two and three hour buckets, and one across the epoch
    for i in [3usize, 5, 6, 7] {
        a.push(Op::CompactWith(vec![0], i));
        a.push(Op::CompactWith(vec![0, 1], i));
    }
    a
}

type Model = BTreeMap<String, (i64, i64)>;

fn apply_model(m: &mut Model, op: &Op, ivs: &[(i64, i64)]) {
    match op {
        Op::Reg(p, i) => {
            m.insert(pname(*p), ivs[*i]);
        }
        Op::Del(p) => {
            m.remove(&pname(*p));
        }
        Op::Compact(src, t) => {
            // sources are replaced by the target only when the target is a known chunk that is not itself a source
            let tn = pname(*t);
            if m.contains_key(&tn) && !src.contains(t) {
                for s in src {
                    m.remove(&pname(*s));
                }
            }
        }
        Op::CompactWith(src, i) => {
            // refused (no effect) when a source is not live; otherwise the sources are replaced by the new chunk
            if src.iter().all(|s| m.contains_key(&pname(*s))) {
                for s in src {
                    m.remove(&pname(*s));
                }
                m.insert(pname(3), ivs[*i]);
            }
        }
    }
}

struct Fail {
    sig: String,
    msg: String,
}

async fn apply_real(c: &dyn MetadataClient, op: &Op, ivs: &[(i64, i64)]) -> Result<(), String> {
    match op {
        Op::Reg(p, i) => {
            let (a, b) = ivs[*i];
            c.register_chunk(&pname(*p), &chunk_meta(&pname(*p), a, b)).await.map_err(|e| e.to_string())
        }
        Op::Del(p) => c.delete_chunk(&pname(*p)).await.map_err(|e| e.to_string()),
        Op::Compact(src, t) => {
            let s: Vec<String> = src.iter().map(|x| pname(*x)).collect();
            c.complete_compaction(&s, &pname(*t)).await.map_err(|e| e.to_string())
        }
        Op::CompactWith(src, i) => {
            let s: Vec<String> = src.iter().map(|x| pname(*x)).collect();
            let (a, b) = ivs[*i];
            c.complete_compaction_with_target(&s, &chunk_meta(&pname(3), a, b)).await.map_err(|e| e.to_string())
        }
    }
}

async fn check_backend(name: &str, c: &dyn MetadataClient, m: &Model, points: &[i64], nontrivial: &mut u64, queries: &mut u64) -> Result<(), Fail> {
    // list_chunks / get_chunk
    let mut listed: Vec<String> = c.list_chunks().await.map_err(|e| Fail { sig: format!("C07:{name}:list-error"), msg: e.to_string() })?.into_iter().map(|e| e.chunk_path).collect();
    listed.sort();
    let want: Vec<String> = m.keys().cloned().collect();
    if listed != want {
        return Err(Fail { sig: format!("C07:{name}:list_chunks-differs"), msg: format!("list_chunks = {listed:?}, live chunks = {want:?}") });
    }
    for p in ["p0", "p1", "p2", "p3", "ghost"] {
        let g = c.get_chunk(p).await.map_err(|e| Fail { sig: format!("C07:{name}:get_chunk-error"), msg: e.to_string() })?;
        let got = g.map(|x| (x.min_timestamp, x.max_timestamp));
        if got != m.get(p).copied() {
            return Err(Fail { sig: format!("C07:{name}:get_chunk-differs"), msg: format!("get_chunk({p}) = {got:?}, reference {:?}", m.get(p)) });
        }
    }
    for &a in points {
        for &b in points {
            *queries += 1;
            let r = AssertUnwindSafe(c.get_chunks(TimeRange::new(a, b))).catch_unwind().await;
            let formula: Vec<String> = m.iter().filter(|(_, (lo, hi))| *lo <= b && *hi >= a).map(|(p, _)| p.clone()).collect();
            let inverted = a > b;
            match r {
                Err(_) => {
                    return Err(Fail {
                        sig: format!("C07:{name}:get_chunks-panics{}", if inverted { "-on-inverted-range" } else { "" }),
                        msg: format!("get_chunks([{a},{b}]) panicked; live chunks {m:?}"),
                    })
                }
                Ok(Err(e)) => {
                    return Err(Fail {
                        sig: format!("C07:{name}:get_chunks-error{}", if inverted { "-on-inverted-range" } else { "" }),
                        msg: format!("get_chunks([{a},{b}]) failed: {e}; live chunks {m:?}"),
                    })
                }
                Ok(Ok(v)) => {
                    let mut got: Vec<String> = v.iter().map(|e| e.chunk_path.clone()).collect();
                    got.sort();
                    let set: BTreeSet<&String> = got.iter().collect();
                    if set.len() != got.len() {
                        return Err(Fail { sig: format!("C07:{name}:chunk-returned-twice"), msg: format!("get_chunks([{a},{b}]) = {got:?}; live chunks {m:?}") });
                    }
                    if inverted {
                        // lenient: the property does not define the answer for an inverted range beyond "nothing that does not intersect"
                        if !got.iter().all(|p| formula.contains(p)) {
                            return Err(Fail { sig: format!("C07:{name}:inverted-range-extra"), msg: format!("get_chunks([{a},{b}]) = {got:?}, overlap formula gives {formula:?}; live chunks {m:?}") });
                        }
                    } else {
                        if !formula.is_empty() && formula.len() < m.len() {
                            *nontrivial += 1;
                        }
                        if got != formula {
                            let kind = if got.iter().any(|p| !formula.contains(p)) { "extra-chunk" } else { "missing-chunk" };
                            return Err(Fail {
                                sig: format!("C07:{name}:{kind}"),
                                msg: format!("get_chunks([{a},{b}]) = {got:?}, exact answer {formula:?}; live chunks {m:?}"),
                            });
                        }
                        // metadata carried by the entries
                        for e in &v {
                            if Some(&(e.min_timestamp, e.max_timestamp)) != m.get(&e.chunk_path) {
                                return Err(Fail { sig: format!("C07:{name}:stale-interval"), msg: format!("entry {} carries [{},{}], reference {:?}", e.chunk_path, e.min_timestamp, e.max_timestamp, m.get(&e.chunk_path)) });
                            }
                        }
                    }
                }
            }
        }
    }
    Ok(())
}

/// Replay one history on both back ends in lock-step, then check every query range.
async fn run_history(hist: &[Op], ivs: &[(i64, i64)], points: &[i64], nontrivial: &mut u64, queries: &mut u64) -> Result<(), Fail> {
    let local = LocalMetadataClient::new();
    let mem = new_mem();
    let os = os_client(mem.clone());
    let mut m = Model::new();
    for (i, op) in hist.iter().enumerate() {
        let mut before = m.clone();
        apply_model(&mut m, op, ivs);
        let changed_expected = before != m || matches!(op, Op::Reg(..) | Op::Del(..));
        let rl = AssertUnwindSafe(apply_real(&local, op, ivs)).catch_unwind().await;
        let ro = AssertUnwindSafe(apply_real(&os, op, ivs)).catch_unwind().await;
        for (name, r) in [("in-memory", &rl), ("object-store", &ro)] {
            match r {
                Err(_) => return Err(Fail { sig: format!("C07:{name}:op-panics"), msg: format!("step {i} {op:?} panicked") }),
                Ok(Err(e)) if changed_expected => return Err(Fail { sig: format!("C07:{name}:op-error"), msg: format!("step {i} {op:?} failed: {e}") }),
                _ => {}
            }
        }
        std::mem::swap(&mut before, &mut m);
        std::mem::swap(&mut before, &mut m);
    }
    check_backend("in-memory", &local, &m, points, nontrivial, queries).await?;
    check_backend("object-store", &os, &m, points, nontrivial, queries).await?;
    let fresh = os_client(mem.clone());
    check_backend("object-store-fresh-client", &fresh, &m, points, nontrivial, queries).await?;
    Ok(())
}

pub fn run(tier: &str) -> i32 {
    let mut rep = Report::new("C07", tier, "model_checking");
    rep.assume("for an inverted query range (start > end) the property does not define the answer: the oracle only requires no panic, no error, no duplicate, and no chunk outside the overlap formula");
    rep.assume("reference for complete_compaction: sources are replaced only when the target is a known chunk that is not itself a source; otherwise the call has no effect on the chunk set");
    let ivs = intervals(tier);
    let mut pts: BTreeSet<i64> = BTreeSet::new();
    for (a, b) in &ivs {
        for x in [*a, *b] {
            pts.insert(x);
            pts.insert(x - 1);
            pts.insert(x + 1);
        }
    }
    let points: Vec<i64> = pts.into_iter().collect();
    let depth = if tier == "thorough" { 4 } else { 3 };
    let alpha = alphabet(tier);
    // thorough depth 4: the last two levels use a reduced alphabet (boundary intervals only) to stay finite
    let reduced: Vec<Op> = alpha
        .iter()
        .filter(|o| match o {
            Op::Reg(_, i) => [3usize, 6, 7].contains(i),
            _ => true,
        })
        .cloned()
        .collect();
    let histories = AtomicU64::new(0);
    let queries = AtomicU64::new(0);
    let nontrivial = AtomicU64::new(0);
    let fails: Mutex<BTreeMap<String, (String, Vec<Op>, u64)>> = Mutex::new(BTreeMap::new());
    // work list: first-level prefixes, DFS below each
    let firsts: Vec<Vec<Op>> = std::iter::once(vec![]).chain(alpha.iter().map(|o| vec![o.clone()])).collect();
    let next = AtomicU64::new(0);
    let cap = std::time::Duration::from_secs(if tier == "thorough" { 1500 } else { 45 });
    let t0 = std::time::Instant::now();
    let capped = std::sync::atomic::AtomicBool::new(false);
    std::thread::scope(|s| {
        for _ in 0..crate::engine::sched::default_workers() {
            s.spawn(|| {
                let rt = tokio::runtime::Builder::new_current_thread().enable_all().build().unwrap();
                loop {
                    let i = next.fetch_add(1, Ordering::SeqCst) as usize;
                    if i >= firsts.len() {
                        return;
                    }
                    let mut stack = vec![firsts[i].clone()];
                    while let Some(h) = stack.pop() {
                        if t0.elapsed() > cap {
                            capped.store(true, Ordering::SeqCst);
                            return;
                        }
                        let mut nt = 0u64;
                        let mut q = 0u64;
                        let r = rt.block_on(run_history(&h, &ivs, &points, &mut nt, &mut q));
                        histories.fetch_add(1, Ordering::Relaxed);
                        queries.fetch_add(q, Ordering::Relaxed);
                        nontrivial.fetch_add(nt, Ordering::Relaxed);
                        match r {
                            Err(f) => {
                                let mut g = fails.lock().unwrap();
                                let e = g.entry(f.sig.clone()).or_insert((f.msg.clone(), h.clone(), 0));
                                e.2 += 1;
                                if h.len() < e.1.len() {
                                    e.0 = f.msg;
                                    e.1 = h.clone();
                                }
                                // do not extend a history that already failed (its state is suspect)
                            }
                            Ok(()) => {
                                if h.is_empty() && i != 0 {
                                    continue;
                                }
                                if !h.is_empty() && h.len() < depth {
                                    let a = if h.len() >= 2 && depth > 3 { &reduced } else { &alpha };
                                    for o in a.iter().rev() {
                                        let mut n = h.clone();
                                        n.push(o.clone());
                                        stack.push(n);
                                    }
                                }
                            }
                        }
                    }
                }
            });
        }
    });
    let hn = histories.load(Ordering::SeqCst);
    println!(
        "  C07 depth={depth} alphabet={} histories={hn} range queries={} (non-trivial answers {}) {:.1}s{}",
        alpha.len(),
        queries.load(Ordering::SeqCst),
        nontrivial.load(Ordering::SeqCst),
        t0.elapsed().as_secs_f64(),
        if capped.load(Ordering::SeqCst) { " CAPPED" } else { "" }
    );
    rep.set("states", hn);
    rep.set("transitions", hn.saturating_sub(1));
    rep.set("traces_validated_against_impl", hn);
    rep.set("evaluations", queries.load(Ordering::SeqCst));
    rep.set("distinct_nontrivial", nontrivial.load(Ordering::SeqCst));
    rep.set("histories", hn);
    rep.set("rule", "every operation history up to the depth over {register(p0..p2, 9-11 intervals incl. hour boundaries +-1ns, negative, zero-length, multi-day, re-registration), delete, complete_compaction (known and unknown target)} is replayed on fresh LocalMetadataClient and ObjectStoreMetadataClient objects in lock-step (no deduplication: the in-memory index is not observable); after each history every ordered pair of boundary points (+-1) is queried on both back ends and on a fresh object-store client; non-trivial = the exact answer is a proper non-empty subset of the live chunks");
    rep.set("bounds", json!({"depth": depth, "alphabet": alpha.len(), "query_points": points.len(), "reduced_alphabet_from_level_3": if depth > 3 { reduced.len() } else { alpha.len() }}));
    rep.push_sample(json!({"history": [Op::Reg(0, 6), Op::Reg(0, 3), Op::Compact(vec![0], 1)], "queries": "all ordered pairs of boundary points"}));
    if capped.load(Ordering::SeqCst) {
        rep.set("exhaustive", false);
    }
    if nontrivial.load(Ordering::SeqCst) == 0 {
        rep.machinery("vacuity guard: no query had a non-trivial answer");
    }
    for (sig, (msg, h, n)) in fails.into_inner().unwrap() {
        rep.violation_n(&sig, &format!("history {h:?}: {msg}"), json!({"kind": "history", "history": h, "tier": tier}), n);
    }
    rep.finish()
}

pub fn replay(v: &serde_json::Value) -> i32 {
    let hist: Vec<Op> = serde_json::from_value(v["history"].clone()).expect("history");
    let tier = v["tier"].as_str().unwrap_or("quick");
    let ivs = intervals(tier);
    let mut pts: BTreeSet<i64> = BTreeSet::new();
    for (a, b) in &ivs {
        for x in [*a, *b] {
            pts.insert(x);
            pts.insert(x - 1);
            pts.insert(x + 1);
        }
    }
    let points: Vec<i64> = pts.into_iter().collect();
    let rt = tokio::runtime::Builder::new_current_thread().enable_all().build().unwrap();
    let (mut a, mut b) = (0, 0);
    println!("history: {hist:?} (intervals {ivs:?})");
    match rt.block_on(run_history(&hist, &ivs, &points, &mut a, &mut b)) {
        Ok(()) => {
            println!("no violation on this history ({b} queries)");
            0
        }
        Err(f) => {
            println!("violation [{}]: {}", f.sig, f.msg);
            1
        }
    }
}
