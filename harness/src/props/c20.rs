//! C20 — compaction converges and levels only move up.
//! Engine B: every initial catalog x configuration of a bounded family is run through repeated real
//! compaction cycles (one compactor, fault-free); the oracle is evaluated before and after every cycle.

use super::c03::storage_config;
use super::common::*;
use crate::engine::meta::GatedMeta;
use crate::engine::report::Report;
use crate::engine::sched::Ctl;
use cardinalsin::compactor::{Compactor, CompactorConfig};
use cardinalsin::metadata::{LocalMetadataClient, MetadataClient};
use cardinalsin::sharding::{HotShardConfig, ShardMonitor};
use object_store::ObjectStore;
use serde_json::json;
use std::collections::{BTreeMap, BTreeSet};
use std::sync::atomic::{AtomicU64, Ordering};
use std::sync::{Arc, Mutex};
use std::time::Duration;

#[derive(Debug, Clone, serde::Serialize, serde::Deserialize)]
pub struct Case {
    pub backend: String,
    /// L0 chunks in hour A / hour B, L1 chunks, L2 chunks
    pub l0_a: usize,
    pub l0_b: usize,
    pub l1: usize,
    pub l2: usize,
    pub l0_merge_threshold: usize,
    /// level-N target size in units of one chunk's size (0 = 1 byte, i.e. every chunk is "at target")
    pub target_chunks: usize,
    pub max_levels: usize,
    /// L0 chunks in the hour after hour B
    #[serde(default)]
    pub l0_c: usize,
    /// one more L0 chunk whose rows straddle the boundary between hour B and the hour after it
    #[serde(default)]
    pub straddle: bool,
    /// size spread: bit 0 = the first (oldest) L1 chunk is several times larger than the others, bit 1 = the last L1
    /// chunk is, bit 2 = the first L0 chunk of hour A is (a large chunk reaches a level's target size on its own)
    #[serde(default)]
    pub big: u8,
}

const MAX_CYCLES: usize = 8;

struct Fail {
    sig: String,
    msg: String,
}

async fn run_case(c: &Case) -> Result<(usize, usize), Fail> {
    let envs = crate::engine::env::EnvState::new();
    let ctl = Ctl::new(envs.clone());
    let mem = new_mem();
    let local = Arc::new(LocalMetadataClient::new());
    let os = c.backend == "object-store";
    let base: Arc<dyn MetadataClient> = if os { Arc::new(os_client(mem.clone())) } else { local.clone() };
    // recording wrapper (no gating)
    let rec = GatedMeta::with_filter(base.clone(), "C", &ctl, |_| false);
    // dataset
    let now = crate::engine::env::EPOCH_NS;
    let mut id = 0i64;
    let mut levels: BTreeMap<String, u32> = BTreeMap::new();
    let mut original: Vec<i64> = Vec::new();
    let mut chunk_size = 0u64;
    let spec: Vec<(usize, i64, &str, u32)> = vec![
        (c.l0_a, hour_bucket(now) - HOUR + 60_000_000_000, "l0a", 0),
        (c.l0_b, hour_bucket(now) - 3 * HOUR + 60_000_000_000, "l0b", 0),
        (c.l1, hour_bucket(now) - 5 * HOUR + 60_000_000_000, "l1", 1),
        (c.l2, hour_bucket(now) - 7 * HOUR + 60_000_000_000, "l2", 2),
    ];
    let mut big_size = 0u64;
    for (n, base_ts, prefix, lvl) in spec {
        for i in 0..n {
            let is_big = (prefix == "l1" && ((c.big & 1 != 0 && i == 0) || (c.big & 2 != 0 && i + 1 == n))) || (prefix == "l0a" && c.big & 4 != 0 && i == 0);
            let rows: Vec<Row> = (0..if is_big { 120 } else { 2 })
                .map(|k| {
                    id += 1;
                    let mut r = row(base_ts + (i as i64) * 1_000_000 + k, id);
                    if is_big {
                        // poorly compressible label values, so that the object really is several times larger
                        r.host = Some(format!("{:016x}{:016x}{:016x}", (id as u64).wrapping_mul(0x9E37_79B9_7F4A_7C15), (id as u64).wrapping_mul(0xC2B2_AE3D_27D4_EB4F), (id as u64).wrapping_mul(0x1656_67B1_9E37_79F9)));
                    }
                    r
                })
                .collect();
            let p = format!("t/data/{prefix}_{i}.parquet");
            let m = put_chunk(&mem, base.as_ref(), &p, &rows, true).await;
            if is_big {
                big_size = m.size_bytes;
            } else {
                chunk_size = m.size_bytes;
            }
            promote_to_level(base.as_ref(), &p, lvl).await;
            levels.insert(p, lvl);
            original.extend(rows.iter().map(|r| r.id));
        }
    }
    let hour_b_start = hour_bucket(now) - 3 * HOUR;
    let mut extra: Vec<(String, Vec<Row>)> = Vec::new();
    for i in 0..c.l0_c {
        let rows: Vec<Row> = (0..2)
            .map(|k| {
                id += 1;
                row(hour_b_start + HOUR + 120_000_000_000 + (i as i64) * 1_000_000 + k, id)
            })
            .collect();
        extra.push((format!("t/data/l0c_{i}.parquet"), rows));
    }
    if c.straddle {
        let rows: Vec<Row> = vec![
            {
                id += 1;
                row(hour_b_start + HOUR - 1, id)
            },
            {
                id += 1;
                row(hour_b_start + HOUR, id)
            },
            {
                id += 1;
                row(hour_b_start + HOUR + 30_000_000_000, id)
            },
        ];
        extra.push(("t/data/l0_straddle.parquet".to_string(), rows));
    }
    for (p, rows) in extra {
        let m = put_chunk(&mem, base.as_ref(), &p, &rows, true).await;
        if chunk_size == 0 {
            chunk_size = m.size_bytes;
        }
        levels.insert(p, 0);
        original.extend(rows.iter().map(|r| r.id));
    }
    original.sort();
    if big_size > 0 && chunk_size > 0 && big_size < 2 * chunk_size {
        return Err(Fail { sig: "C20:machinery:big-chunk-not-big".into(), msg: format!("the large chunk has {big_size} bytes, the others {chunk_size}") });
    }
    if chunk_size == 0 {
        chunk_size = big_size / 3;
    }
    let mut by_time_cache: BTreeMap<String, Vec<(i64, i64)>> = BTreeMap::new();
    let tsize = if c.target_chunks == 0 { 1 } else { ((chunk_size as usize) * c.target_chunks).saturating_sub(10).max(1) };
    let cfg = CompactorConfig {
        l0_merge_threshold: c.l0_merge_threshold,
        l0_target_size: tsize,
        l1_target_size: tsize,
        l2_target_size: tsize,
        max_levels: c.max_levels,
        retention_days: 90,
        gc_grace_period: Duration::from_secs(300),
        sharding_enabled: false,
        ..CompactorConfig::default()
    };
    let compactor = Compactor::new(cfg.clone(), mem.clone(), rec.clone(), storage_config(), Arc::new(ShardMonitor::new(HotShardConfig::default())));
    let mut decoded: BTreeMap<String, Vec<i64>> = BTreeMap::new();
    let snapshot = |_: ()| {};
    let _ = snapshot;
    let mut prev: Option<BTreeMap<String, (u64, u32)>> = None;
    let mut merges = 0usize;
    for cycle in 0..MAX_CYCLES {
        // candidate groups offered before the cycle: pairwise disjoint, level-homogeneous
        let mut offered: Vec<(usize, Vec<String>)> = Vec::new();
        for g in base.get_l0_candidates(cfg.l0_merge_threshold).await.unwrap_or_default() {
            offered.push((0, g));
        }
        for lvl in 1..=cfg.max_levels {
            let t = match lvl {
                1 => cfg.l1_target_size,
                2 => cfg.l2_target_size,
                _ => cfg.l2_target_size * 5,
            };
            for g in base.get_level_candidates(lvl, t).await.unwrap_or_default() {
                offered.push((lvl, g));
            }
        }
        let mut seen_in_group: BTreeMap<String, usize> = BTreeMap::new();
        for (lvl, g) in &offered {
            for p in g {
                if let Some(other) = seen_in_group.insert(p.clone(), *lvl) {
                    return Err(Fail { sig: "C20:chunk-in-two-candidate-groups".into(), msg: format!("cycle {cycle}: {p} is offered in two groups (levels {other} and {lvl}): {offered:?}") });
                }
                match levels.get(p) {
                    Some(l) if *l as usize == *lvl => {}
                    other => {
                        return Err(Fail { sig: "C20:candidate-group-mixes-levels".into(), msg: format!("cycle {cycle}: group for level {lvl} contains {p} whose level is {other:?}: {g:?}") })
                    }
                }
            }
        }
        let log_before = rec.log_snapshot().len();
        let r = compactor.run_compaction_cycle().await;
        if let Err(e) = r {
            return Err(Fail { sig: "C20:cycle-fails".into(), msg: format!("cycle {cycle} failed fault-free: {e}") });
        }
        // groups actually merged in this cycle (= leases acquired)
        let log = rec.log_snapshot();
        let mut merged_in_cycle: BTreeSet<String> = BTreeSet::new();
        for e in &log[log_before..] {
            if e.method == "acquire_lease" && e.ok {
                let parts: Vec<&str> = e.arg.splitn(3, '|').collect();
                let lvl: u32 = parts[1].parse().unwrap_or(99);
                for p in parts[2].split(',') {
                    if !merged_in_cycle.insert(p.to_string()) {
                        return Err(Fail { sig: "C20:chunk-merged-twice-in-one-cycle".into(), msg: format!("cycle {cycle}: {p} is in two merged groups") });
                    }
                    match levels.get(p) {
                        Some(l) if *l == lvl => {}
                        other => return Err(Fail { sig: "C20:merged-group-mixes-levels".into(), msg: format!("cycle {cycle}: lease for level {lvl} covers {p} whose level is {other:?}") }),
                    }
                }
            }
            if e.method == "complete_compaction_with_target" && e.ok {
                merges += 1;
                let (srcs, tgt) = e.arg.split_once("->").unwrap_or(("", ""));
                let maxl = srcs.split(',').filter_map(|p| levels.get(p)).max().copied().unwrap_or(0);
                levels.insert(tgt.to_string(), maxl + 1);
            }
        }
        // catalog after the cycle
        let listed = base.list_chunks().await.map_err(|e| Fail { sig: "C20:list-fails".into(), msg: e.to_string() })?;
        let mut state: BTreeMap<String, (u64, u32)> = BTreeMap::new();
        let real_levels: Option<BTreeMap<String, u32>> = if os {
            crate::engine::store::raw_get(&mem, CATALOG).await.and_then(|b| parse_catalog(&b).ok()).map(|c| c.chunks.iter().map(|(p, e)| (p.clone(), e.level)).collect())
        } else {
            None
        };
        for e in &listed {
            let expect = levels.get(&e.chunk_path).copied();
            let lvl = match &real_levels {
                Some(rl) => {
                    let l = rl.get(&e.chunk_path).copied().unwrap_or(99);
                    if Some(l) != expect {
                        let sig = if expect.map(|x| l < x).unwrap_or(false) { "C20:level-decreased" } else { "C20:level-not-max-plus-one" };
                        return Err(Fail { sig: sig.into(), msg: format!("cycle {cycle}: {} has level {l}, expected {expect:?} (max of the chunks it replaced + 1, or unchanged)", e.chunk_path) });
                    }
                    l
                }
                None => expect.unwrap_or(99),
            };
            state.insert(e.chunk_path.clone(), (e.size_bytes, lvl));
        }
        // conservation (C03's oracle, for free)
        let paths: Vec<String> = state.keys().cloned().collect();
        match reachable_ids(&mem, &paths, &mut decoded).await {
            Ok(ids) if ids == original => {}
            Ok(ids) => return Err(Fail { sig: "C20:rows-not-conserved".into(), msg: format!("cycle {cycle}: reachable ids {ids:?} != original {original:?}") }),
            Err(p) => return Err(Fail { sig: "C20:listed-chunk-missing".into(), msg: format!("cycle {cycle}: {p} listed but missing") }),
        }
        // every row is still found through the time index (a fresh client for the object-store catalog: no cache)
        {
            let fresh: Arc<dyn MetadataClient> = if os { Arc::new(os_client(mem.clone())) } else { base.clone() };
            if let Err((p, rid, ts, got)) = rows_found_by_time(&mem, fresh.as_ref(), &paths, &mut by_time_cache).await {
                return Err(Fail { sig: "C20:row-not-found-by-time-range".into(), msg: format!("cycle {cycle}: row id {rid} (timestamp {ts}) lives in {p}, but get_chunks([{ts},{ts}]) returns {got:?}") });
            }
        }
        if prev.as_ref() == Some(&state) {
            return Ok((cycle, merges));
        }
        prev = Some(state);
    }
    Err(Fail { sig: "C20:no-fixed-point".into(), msg: format!("no fixed point within {MAX_CYCLES} cycles; last state {prev:?}") })
}

pub fn cases(tier: &str) -> Vec<Case> {
    let t = tier == "thorough";
    let mut v = Vec::new();
    let (ma, mb, m1, m2) = if t { (5, 3, 5, 4) } else { (3, 2, 2, 1) };
    let thrs: &[usize] = if t { &[1, 2, 3, 4] } else { &[1, 2, 3] };
    let tcs: &[usize] = if t { &[0, 2, 3, 100] } else { &[0, 2, 100] };
    let mls: &[usize] = if t { &[2, 3, 4] } else { &[2, 4] };
    for backend in ["object-store", "in-memory"] {
        for l0_a in 0..=ma {
            for l0_b in 0..=mb {
                for l1 in 0..=m1 {
                    for l2 in 0..=m2 {
                        for &thr in thrs {
                            for &tc in tcs {
                                for &ml in mls {
                                    if !t && ml == 4 && tc == 2 && l2 > 0 {
                                        continue;
                                    }
                                    v.push(Case { backend: backend.into(), l0_a, l0_b, l1, l2, l0_merge_threshold: thr, target_chunks: tc, max_levels: ml, l0_c: 0, straddle: false, big: 0 });
                                    // size spread: one chunk that reaches the level target on its own, first or last in time order
                                    if tc != 0 && l0_b <= 1 && l2 <= 1 {
                                        let mut bigs: Vec<u8> = Vec::new();
                                        if l1 >= 1 {
                                            bigs.push(1);
                                        }
                                        if l1 >= 2 {
                                            bigs.push(2);
                                        }
                                        if l0_a >= 1 {
                                            bigs.push(4);
                                        }
                                        if l1 >= 2 && l0_a >= 1 && t {
                                            bigs.push(7);
                                        }
                                        for big in bigs {
                                            v.push(Case { backend: backend.into(), l0_a, l0_b, l1, l2, l0_merge_threshold: thr, target_chunks: tc, max_levels: ml, l0_c: 0, straddle: false, big });
                                        }
                                    }
                                    // the same with a chunk straddling the hour boundary after hour B, alone and next to
                                    // chunks in the following hour
                                    if l0_a <= 1 && l1 <= 1 && l2 == 0 {
                                        for l0_c in [0usize, 1, 2] {
                                            v.push(Case { backend: backend.into(), l0_a, l0_b, l1, l2, l0_merge_threshold: thr, target_chunks: tc, max_levels: ml, l0_c, straddle: true, big: 0 });
                                        }
                                        v.push(Case { backend: backend.into(), l0_a, l0_b, l1, l2, l0_merge_threshold: thr, target_chunks: tc, max_levels: ml, l0_c: 2, straddle: false, big: 0 });
                                    }
                                }
                            }
                        }
                    }
                }
            }
        }
    }
    v
}

pub fn run(tier: &str) -> i32 {
    let mut rep = Report::new("C20", tier, "model_checking");
    rep.assume("one compactor, no faults, no concurrent writers, frozen wall clock; levels of the in-memory back end are not observable and are tracked from the merges the compactor performs");
    let cs = cases(tier);
    let next = AtomicU64::new(0);
    let fails: Mutex<BTreeMap<String, (String, Case, u64)>> = Mutex::new(BTreeMap::new());
    let total_cycles = AtomicU64::new(0);
    let total_merges = AtomicU64::new(0);
    let nontrivial = AtomicU64::new(0);
    let maxc = AtomicU64::new(0);
    let t0 = std::time::Instant::now();
    std::thread::scope(|s| {
        for _ in 0..crate::engine::sched::default_workers() {
            s.spawn(|| loop {
                let i = next.fetch_add(1, Ordering::SeqCst) as usize;
                if i >= cs.len() {
                    return;
                }
                let c = cs[i].clone();
                let c2 = c.clone();
                // fresh thread: frozen clock + reproducible entropy for this case
                let r = std::thread::spawn(move || {
                    let e = crate::engine::env::EnvState::new();
                    crate::engine::env::install(&e);
                    let rt = tokio::runtime::Builder::new_current_thread().enable_all().start_paused(true).build().unwrap();
                    let r = rt.block_on(run_case(&c2));
                    drop(rt);
                    crate::engine::env::uninstall();
                    r
                })
                .join();
                match r {
                    Ok(Ok((cycles, merges))) => {
                        total_cycles.fetch_add(cycles as u64 + 1, Ordering::Relaxed);
                        total_merges.fetch_add(merges as u64, Ordering::Relaxed);
                        if merges > 0 {
                            nontrivial.fetch_add(1, Ordering::Relaxed);
                        }
                        maxc.fetch_max(cycles as u64, Ordering::Relaxed);
                    }
                    Ok(Err(f)) => {
                        let mut g = fails.lock().unwrap();
                        let e = g.entry(format!("{}:{}", f.sig, c.backend)).or_insert((f.msg, c.clone(), 0));
                        e.2 += 1;
                    }
                    Err(_) => {
                        let mut g = fails.lock().unwrap();
                        let e = g.entry(format!("C20:panic:{}", c.backend)).or_insert(("the case panicked".into(), c.clone(), 0));
                        e.2 += 1;
                    }
                }
            });
        }
    });
    println!(
        "  C20 cases={} cycles={} merges={} cases-with-a-merge={} max-cycles-to-fixed-point={} {:.1}s",
        cs.len(),
        total_cycles.load(Ordering::SeqCst),
        total_merges.load(Ordering::SeqCst),
        nontrivial.load(Ordering::SeqCst),
        maxc.load(Ordering::SeqCst),
        t0.elapsed().as_secs_f64()
    );
    rep.set("states", total_cycles.load(Ordering::SeqCst) + cs.len() as u64);
    rep.set("transitions", total_cycles.load(Ordering::SeqCst));
    rep.set("traces_validated_against_impl", cs.len() as u64);
    rep.set("evaluations", cs.len() as u64);
    rep.set("distinct_nontrivial", nontrivial.load(Ordering::SeqCst));
    rep.set("merges", total_merges.load(Ordering::SeqCst));
    rep.set("max_cycles_to_fixed_point", maxc.load(Ordering::SeqCst));
    rep.set("rule", "every initial catalog (0..n chunks per level L0 hour A / L0 hour B / L1 / L2, plus variants with 0..2 L0 chunks in the hour after B and an L0 chunk straddling that hour boundary, and variants in which the oldest / newest L1 chunk or an L0 chunk is large enough to reach the level target on its own) x l0_merge_threshold {1,2,3} (thorough: also 4) x level target size {1 byte, ~2 chunks, ~100 chunks} (thorough: also ~3 chunks) x max_levels {2,4} (thorough: also 3) x both back ends; each run through up to 8 real compaction cycles; states = catalog states between cycles; non-trivial = at least one merge happened");
    rep.push_sample(json!(cs.get(cs.len() / 2)));
    if nontrivial.load(Ordering::SeqCst) == 0 {
        rep.machinery("vacuity guard: no case performed a merge");
    }
    for (sig, (msg, c, n)) in fails.into_inner().unwrap() {
        if sig.contains("machinery") {
            rep.machinery(format!("{sig}: {msg}"));
        } else {
            rep.violation_n(&sig, &format!("{c:?}: {msg}"), json!({"kind": "case", "case": c}), n);
        }
    }
    rep.finish()
}

pub fn replay(v: &serde_json::Value) -> i32 {
    let c: Case = serde_json::from_value(v["case"].clone()).expect("case");
    let e = crate::engine::env::EnvState::new();
    crate::engine::env::install(&e);
    let rt = tokio::runtime::Builder::new_current_thread().enable_all().start_paused(true).build().unwrap();
    let r = rt.block_on(run_case(&c));
    crate::engine::env::uninstall();
    match r {
        Ok((cycles, merges)) => {
            println!("case {c:?}: fixed point after {cycles} cycles, {merges} merges; no violation");
            0
        }
        Err(f) => {
            println!("violation [{}]: {}", f.sig, f.msg);
            1
        }
    }
}
