pub mod common;
pub mod c01;
pub mod c02;
pub mod c03;
pub mod c04;
pub mod c04_labels;
pub mod c05;
pub mod c06;
pub mod c07;
pub mod c08;
pub mod c09;
pub mod c10;
pub mod c11;
pub mod c12;
pub mod c13;
pub mod c14;
pub mod c15;
pub mod c16;
pub mod c17;
pub mod c18;
pub mod c19;
pub mod c20;

use crate::engine::sched::{Choice, Cost, ScenarioFactory};

macro_rules! dispatch {
    ($($id:literal => $m:ident),* $(,)?) => {
        pub fn run(id: &str, tier: &str) -> i32 {
            match id {
                $($id => $m::run(tier),)*
                _ => { eprintln!("MACHINERY: no check for {id}"); 2 }
            }
        }
        pub fn replay(id: &str, v: &serde_json::Value) -> i32 {
            match id {
                $($id => $m::replay(v),)*
                _ => { eprintln!("MACHINERY: no replay for {id}"); 2 }
            }
        }
    };
}

dispatch! {
    "C01" => c01,
    "C02" => c02,
    "C03" => c03,
    "C04" => c04,
    "C05" => c05,
    "C06" => c06,
    "C07" => c07,
    "C08" => c08,
    "C09" => c09,
    "C10" => c10,
    "C11" => c11,
    "C12" => c12,
    "C13" => c13,
    "C14" => c14,
    "C15" => c15,
    "C16" => c16,
    "C17" => c17,
    "C18" => c18,
    "C19" => c19,
    "C20" => c20,
}

/// Re-run one recorded schedule of an engine-A scenario without the explorer and print what happened.
pub fn replay_schedule(factory: ScenarioFactory, v: &serde_json::Value) -> i32 {
    let prefix: Vec<Choice> = serde_json::from_value(v["prefix"].clone()).expect("prefix");
    let big = Cost { preempt: 100000, fault: 100000, crash: 100000, clock: 100000 };
    let r = crate::engine::sched::replay(&factory, &prefix, big);
    for l in &r.trace {
        println!("{l}");
    }
    if let Some(e) = &r.machinery_error {
        println!("MACHINERY: {e}");
        return 2;
    }
    let mut vs = r.step_violations.clone();
    if let Some(f) = &r.finish {
        vs.extend(f.violations.clone());
        println!("outcome: {}", f.outcome);
    }
    for v in &vs {
        println!("violation [{}]: {}", v.sig, v.msg);
    }
    if vs.is_empty() {
        println!("no violation on this schedule");
        0
    } else {
        1
    }
}
