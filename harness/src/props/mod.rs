pub mod common;
pub mod c02;

pub fn run(id: &str, tier: &str) -> i32 {
    match id {
        "C02" => c02::run(tier),
        _ => {
            eprintln!("MACHINERY: no check for {id}");
            2
        }
    }
}

pub fn replay(id: &str, v: &serde_json::Value) -> i32 {
    match id {
        "C02" => c02::replay(v),
        _ => {
            eprintln!("MACHINERY: no replay for {id}");
            2
        }
    }
}
