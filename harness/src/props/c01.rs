//! C01 — acknowledged writes survive crashes and storage faults (engine A + crash / fault transitions).
//! The subject (`IngestScenario`) is shared with C06, which runs it without deviations and with an exact oracle.

use super::c03::storage_config;
use super::common::*;
use crate::engine::meta::GatedMeta;
use crate::engine::report::Report;
use crate::engine::sched::*;
use crate::engine::store::{GatedStore, StoreLog};
use arrow_array::RecordBatch;
use async_trait::async_trait;
use cardinalsin::ingester::{load_flushed_seq, Ingester, IngesterConfig, WalConfig, WalSyncMode, WriteAheadLog};
use cardinalsin::metadata::{LocalMetadataClient, MetadataClient};
use cardinalsin::schema::MetricSchema;
use object_store::ObjectStore;
use serde_json::json;
use std::collections::{BTreeMap, BTreeSet};
use std::path::PathBuf;
use std::sync::atomic::{AtomicU64, Ordering};
use std::sync::{Arc, Mutex};
use std::time::Duration;

#[derive(Debug, Clone, serde::Serialize, serde::Deserialize)]
pub struct Params {
    pub name: String,
    /// writers: each a list of (id, schema variant) single-row writes
    pub writers: Vec<Vec<(i64, u8)>>,
    /// write issued by the restarted incarnation after recovery (thorough)
    pub after_restart: Vec<(i64, u8)>,
    pub flush_row_count: usize,
    pub max_segment_size: usize,
    /// timer ticks the explorer may grant
    pub ticks: usize,
    pub hooks: Vec<String>,
    pub crash: bool,
    pub faults: bool,
    /// attach subscribers and check delivery (C06)
    pub subscribers: bool,
    /// how many crash + restart rounds one execution may contain (bounded by the crash budget as well)
    #[serde(default = "one")]
    pub max_crashes: usize,
    /// write issued by the incarnation started after the second crash
    #[serde(default)]
    pub after_restart2: Vec<(i64, u8)>,
    /// back-pressure limit in units of one single-row batch's in-memory size (0 = practically unlimited)
    #[serde(default)]
    pub max_buffer_batches: usize,
    /// a crash may also catch a write that was never acknowledged in the middle of its WAL append: the first bytes of its
    /// entry are on disk (in a freshly rotated segment if the current one is full), the rest is not
    #[serde(default)]
    pub torn_append: bool,
}

fn one() -> usize {
    1
}

static DIR_CTR: AtomicU64 = AtomicU64::new(0);

pub fn scratch_dir(tag: &str) -> PathBuf {
    let base = if std::path::Path::new("/dev/shm").is_dir() { PathBuf::from("/dev/shm") } else { std::env::temp_dir() };
    base.join(format!("csverif-{}", std::process::id())).join(format!("{tag}-{}", DIR_CTR.fetch_add(1, Ordering::SeqCst)))
}

pub fn one_row_batch(id: i64, variant: u8) -> RecordBatch {
    // timestamps inside the last hour, distinct per id
    let ts = crate::engine::env::EPOCH_NS - 600 * 1_000_000_000 + id * 1_000;
    let mut r = row(ts, id);
    r.metric = if id % 2 == 0 { "mem".into() } else { "cpu".into() };
    rows_to_batch(&[r], variant == 0)
}

#[derive(Default)]
pub struct Shared {
    /// ids whose write() returned Ok
    pub acked: BTreeSet<i64>,
    /// ids whose write() returned Err
    pub rejected: BTreeMap<i64, String>,
    /// the live incarnation
    pub ingester: Option<Arc<Ingester>>,
    pub recovery_done: bool,
    pub recovery_error: Option<String>,
    /// batches delivered to the legacy / topic subscriber: ids per delivery
    pub legacy_deliveries: Vec<Vec<i64>>,
    pub topic_deliveries: Vec<Vec<i64>>,
}

pub struct IngestScenario {
    pub p: Params,
    pub mem: Arc<dyn ObjectStore>,
    pub local: Arc<LocalMetadataClient>,
    pub log: Arc<StoreLog>,
    pub dir: PathBuf,
    pub shared: Arc<Mutex<Shared>>,
    pub ticks_granted: usize,
    pub crashed: bool,
    pub crashes: usize,
    pub incarnation: usize,
    /// facts captured at the crash: persisted flushed_seq, WAL seq of every id
    pub flushed_at_crash: Option<u64>,
    pub seq_of_id: BTreeMap<i64, u64>,
    pub gmeta: Option<Arc<GatedMeta>>,
    /// task that was granted last, and the task during whose step the persisted flushed mark last changed
    pub last_granted: Option<String>,
    pub mark_value: u64,
    pub mark_writer: Option<String>,
}

impl IngestScenario {
    pub fn new(p: Params) -> Self {
        Self {
            p,
            mem: new_mem(),
            local: Arc::new(LocalMetadataClient::new()),
            log: StoreLog::new(),
            dir: scratch_dir("c01"),
            shared: Arc::new(Mutex::new(Shared::default())),
            ticks_granted: 0,
            crashed: false,
            crashes: 0,
            incarnation: 0,
            flushed_at_crash: None,
            seq_of_id: BTreeMap::new(),
            gmeta: None,
            last_granted: None,
            mark_value: 0,
            mark_writer: None,
        }
    }

    fn config(&self) -> IngesterConfig {
        IngesterConfig {
            flush_interval: Duration::from_secs(1),
            flush_row_count: self.p.flush_row_count,
            flush_size_bytes: usize::MAX / 4,
            max_buffer_size_bytes: if self.p.max_buffer_batches == 0 { usize::MAX / 4 } else { one_row_batch(1, 0).get_array_memory_size() * self.p.max_buffer_batches + 8 },
            wal: WalConfig { wal_dir: self.dir.clone(), max_segment_size: self.p.max_segment_size, sync_mode: WalSyncMode::EveryWrite, enabled: true },
            ..IngesterConfig::default()
        }
    }

    /// Build an incarnation (ensure_wal runs inside the spawned actor, it may reach gates) and start its tasks.
    fn start_incarnation(&mut self, ctl: &Ctl, writers: Vec<Vec<(i64, u8)>>, with_timer: bool) {
        self.incarnation += 1;
        let node = "I";
        let gs = GatedStore::with_filter(self.mem.clone(), node, ctl, &self.log, |kind, _| kind == "PUT");
        let gm = GatedMeta::with_filter(self.local.clone(), node, ctl, |m| m == "register_chunk" || m == "get_split_state");
        self.gmeta = Some(gm.clone());
        let cfg = self.config();
        let shared = self.shared.clone();
        let ctl2 = ctl.clone();
        let subscribers = self.p.subscribers;
        let inc = self.incarnation;
        ctl.spawn(node, &format!("R{inc}"), async move {
            let mut ing = Ingester::new(cfg, gs as Arc<dyn ObjectStore>, gm as Arc<dyn MetadataClient>, storage_config(), MetricSchema::default_metrics());
            if let Err(e) = ing.ensure_wal().await {
                let mut s = shared.lock().unwrap();
                s.recovery_error = Some(e.to_string());
                s.recovery_done = true;
                return;
            }
            let ing = Arc::new(ing);
            if subscribers {
                let mut rx = ing.subscribe();
                let sh = shared.clone();
                ctl2.spawn("I", "SubL", async move {
                    while let Ok(b) = rx.recv().await {
                        let ids = batch_ids(&b);
                        sh.lock().unwrap().legacy_deliveries.push(ids);
                    }
                });
                let mut frx = ing.subscribe_filtered(cardinalsin::ingester::TopicFilter::All).await;
                let sh = shared.clone();
                ctl2.spawn("I", "SubT", async move {
                    while let Ok(tb) = frx.recv().await {
                        let ids = batch_ids(&tb);
                        sh.lock().unwrap().topic_deliveries.push(ids);
                    }
                });
            }
            {
                let mut s = shared.lock().unwrap();
                s.ingester = Some(ing.clone());
                s.recovery_done = true;
            }
            for (wi, ops) in writers.into_iter().enumerate() {
                let ing = ing.clone();
                let sh = shared.clone();
                ctl2.spawn("I", &format!("W{inc}.{wi}"), async move {
                    for (id, variant) in ops {
                        let r = ing.write(one_row_batch(id, variant)).await;
                        let mut s = sh.lock().unwrap();
                        match r {
                            Ok(()) => {
                                s.acked.insert(id);
                            }
                            Err(e) => {
                                s.rejected.insert(id, e.to_string());
                            }
                        }
                    }
                });
            }
            if with_timer {
                let ing = ing.clone();
                ctl2.spawn("I", &format!("T{inc}"), async move {
                    ing.run_flush_timer().await;
                });
            }
        });
    }

    /// ids stored in chunks the catalog lists (decoded from the raw store), per chunk
    pub async fn stored(&self) -> Result<BTreeMap<String, Vec<Row>>, String> {
        let mut out = BTreeMap::new();
        for e in self.local.list_chunks().await.map_err(|e| e.to_string())? {
            let data = crate::engine::store::raw_get(&self.mem, &e.chunk_path).await.ok_or_else(|| format!("listed chunk {} is not in the store", e.chunk_path))?;
            out.insert(e.chunk_path.clone(), decode_rows(data)?);
        }
        Ok(out)
    }

    /// Flush the live incarnation fault-free through the shutdown path of run_flush_timer.
    pub async fn final_flush(&mut self, ctl: &Ctl) {
        let ing = self.shared.lock().unwrap().ingester.clone();
        if let Some(ing) = ing {
            ing.shutdown_token().cancel();
            if self.p.ticks == 0 || self.crashed {
                // no timer task is running in this incarnation: run the shutdown path now
                let ing2 = ing.clone();
                ctl.spawn("I", "Tfinal", async move {
                    ing2.run_flush_timer().await;
                });
            }
            ctl.run_free(400).await;
        }
    }
}

pub fn batch_ids(b: &RecordBatch) -> Vec<i64> {
    use arrow_array::cast::AsArray;
    b.column_by_name("id").and_then(|c| c.as_primitive_opt::<arrow_array::types::Int64Type>().map(|a| a.values().to_vec())).unwrap_or_default()
}

impl Drop for IngestScenario {
    fn drop(&mut self) {
        self.shared.lock().unwrap().ingester = None;
        let _ = std::fs::remove_dir_all(&self.dir);
    }
}

#[async_trait(?Send)]
impl Scenario for IngestScenario {
    async fn setup(&mut self, ctl: &Ctl) {
        let hooks: BTreeSet<String> = self.p.hooks.iter().cloned().collect();
        ctl.set_hook_filter(move |l| hooks.contains(l));
        let writers = self.p.writers.clone();
        self.start_incarnation(ctl, writers, self.p.ticks > 0);
    }

    fn gate_enabled(&self, g: &GateInfo) -> bool {
        if g.kind == "HOOK" && g.what == "timer:tick" {
            return self.ticks_granted < self.p.ticks;
        }
        true
    }

    fn on_grant(&mut self, g: &GateInfo, _d: Decision) {
        if g.kind == "HOOK" && g.what == "timer:tick" {
            self.ticks_granted += 1;
        }
        self.last_granted = Some(g.actor.clone());
    }

    async fn step_check(&mut self, _ctl: &Ctl) -> Vec<Violation> {
        // who persisted the flushed mark: the task that ran in the step during which the file changed
        {
            let v = load_flushed_seq(&self.dir).unwrap_or(0);
            if v != self.mark_value {
                self.mark_value = v;
                self.mark_writer = self.last_granted.clone();
            }
        }
        Vec::new()
    }

    fn fault_modes(&self, g: &GateInfo) -> Vec<Decision> {
        if !self.p.faults {
            return vec![];
        }
        match (g.kind.as_str(), g.what.starts_with("register_chunk")) {
            ("PUT", _) | ("META", true) => vec![Decision::FailBefore, Decision::FailAfter],
            _ => vec![],
        }
    }

    fn extras(&self, _ctl: &Ctl) -> Vec<Extra> {
        if self.p.crash && self.crashes < self.p.max_crashes.max(1) && self.shared.lock().unwrap().recovery_done {
            let mut v = vec![Extra { label: "CRASH".into(), cost: Cost { crash: 1, ..Cost::ZERO } }];
            if self.p.torn_append {
                v.push(Extra { label: "CRASH+TORN-APPEND".into(), cost: Cost { crash: 1, ..Cost::ZERO } });
            }
            v
        } else {
            vec![]
        }
    }

    async fn apply_extra(&mut self, ctl: &Ctl, x: &Extra) {
        ctl.crash_node("I");
        ctl.settle().await;
        self.shared.lock().unwrap().ingester = None;
        if x.label == "CRASH+TORN-APPEND" {
            // what an unacknowledged write that died in the middle of its append leaves behind
            let mut segs: Vec<(u64, PathBuf)> = std::fs::read_dir(&self.dir)
                .map(|d| d.filter_map(|e| e.ok()).filter_map(|e| { let n = e.file_name().to_string_lossy().to_string(); n.strip_prefix("segment-").and_then(|r| r.strip_suffix(".wal")).and_then(|i| i.parse::<u64>().ok()).map(|i| (i, e.path())) }).collect())
                .unwrap_or_default();
            segs.sort();
            let torn = [0x57u8, 0x41, 0x4c, 0x00, 0x00, 0x00, 0x01, 0x00, 0x00];
            match segs.last() {
                Some((id, path)) if std::fs::metadata(path).map(|m| (m.len() as usize) < self.p.max_segment_size).unwrap_or(false) => {
                    use std::io::Write;
                    let _ = id;
                    if let Ok(mut f) = std::fs::OpenOptions::new().append(true).open(path) {
                        let _ = f.write_all(&torn);
                    }
                }
                Some((id, _)) => {
                    let _ = std::fs::write(self.dir.join(format!("segment-{:06}.wal", id + 1)), torn);
                }
                None => {
                    let _ = std::fs::write(self.dir.join("segment-000001.wal"), torn);
                }
            }
        }
        self.crashed = true;
        self.crashes += 1;
        // facts for the violation signature: what the disk says at the crash
        self.flushed_at_crash = load_flushed_seq(&self.dir).ok();
        if let Ok(wal) = WriteAheadLog::open(WalConfig { wal_dir: self.dir.clone(), max_segment_size: self.p.max_segment_size, sync_mode: WalSyncMode::EveryWrite, enabled: true }).await {
            if let Ok(entries) = wal.read_entries() {
                for e in entries {
                    if let Ok(bs) = e.batches() {
                        for b in bs {
                            for id in batch_ids(&b) {
                                self.seq_of_id.insert(id, e.seq);
                            }
                        }
                    }
                }
            }
        }
        ctl.revive_node("I");
        {
            let mut s = self.shared.lock().unwrap();
            s.recovery_done = false;
        }
        let after = if self.crashes <= 1 { self.p.after_restart.clone() } else { self.p.after_restart2.clone() };
        self.start_incarnation(ctl, if after.is_empty() { vec![] } else { vec![after] }, false);
    }

    async fn finish(&mut self, ctl: &Ctl) -> Finish {
        let mut f = Finish::default();
        for (a, m) in ctl.panics() {
            f.violations.push(Violation { sig: "C01:panic".into(), msg: format!("{a} panicked: {m}") });
        }
        if let Some(e) = self.shared.lock().unwrap().recovery_error.clone() {
            f.violations.push(Violation { sig: "C01:recovery-fails".into(), msg: format!("ensure_wal failed: {e}") });
            return f;
        }
        self.final_flush(ctl).await;
        let (acked, rejected) = {
            let s = self.shared.lock().unwrap();
            (s.acked.clone(), s.rejected.clone())
        };
        let stored = match self.stored().await {
            Ok(s) => s,
            Err(e) => {
                f.violations.push(Violation { sig: "C01:listed-chunk-unreadable".into(), msg: e });
                return f;
            }
        };
        let stored_ids: BTreeSet<i64> = stored.values().flat_map(|rows| rows.iter().map(|r| r.id)).collect();
        let lost: Vec<i64> = acked.difference(&stored_ids).copied().collect();
        let trace = ctl.trace();
        let faulted = trace.iter().any(|l| l.contains(" !Fail"));
        if !lost.is_empty() {
            // classify the cause from the trace
            let slog = self.log.snapshot();
            // id -> uploads that carried it: (uploading task, upload took effect, upload was faulted)
            let mut in_upload: BTreeMap<i64, Vec<(String, bool, bool)>> = BTreeMap::new();
            for e in slog.iter().filter(|e| e.kind == "PUT" && e.path.ends_with(".parquet")) {
                if let Some(p) = &e.payload {
                    if let Ok(rows) = decode_rows(p.clone()) {
                        for r in rows {
                            in_upload.entry(r.id).or_default().push((e.actor.clone(), e.ok, e.injected.is_some()));
                        }
                    }
                }
            }
            let register_faulted = trace.iter().any(|l| l.contains("register_chunk") && l.contains("!Fail"));
            let mark_writer = self.mark_writer.clone();
            for id in &lost {
                let ups = in_upload.get(id).cloned().unwrap_or_default();
                let mark_covers = self.seq_of_id.get(id).map(|s| self.flushed_at_crash.unwrap_or(0) >= *s).unwrap_or(false);
                let uploaded_by_mark_writer = mark_writer.as_ref().map(|w| ups.iter().any(|u| &u.0 == w)).unwrap_or(false);
                let sig = if faulted && !ups.is_empty() && (ups.iter().any(|u| u.2) || register_faulted) {
                    "C01:acked-row-lost:failed-flush-drops-the-taken-buffer".to_string()
                } else if !faulted && self.crashed && mark_covers && !uploaded_by_mark_writer {
                    // the persisted mark covers a row that the flush which wrote the mark did not upload
                    "C01:acked-row-lost:flushed-mark-covers-a-row-outside-the-flush-that-persisted-it".to_string()
                } else {
                    format!(
                        "C01:acked-row-lost:other(crash={},fault={},uploaded={},uploaded_by_mark_writer={},has_seq={},mark_covers={})",
                        self.crashed,
                        faulted,
                        !ups.is_empty(),
                        uploaded_by_mark_writer,
                        self.seq_of_id.contains_key(id),
                        mark_covers
                    )
                };
                f.violations.push(Violation {
                    sig,
                    msg: format!(
                        "write of id {id} returned Ok but the row is in no catalogued chunk after the final successful flush (acked {acked:?}, stored {stored_ids:?}, rejected {:?}, flushed_seq at crash {:?}, wal seq of id {:?})",
                        rejected.keys().collect::<Vec<_>>(),
                        self.flushed_at_crash,
                        self.seq_of_id.get(id)
                    ),
                });
            }
        }
        if self.crashed {
            f.flags.push("crashed".into());
        }
        if faulted {
            f.flags.push("faulted".into());
        }
        if !rejected.is_empty() {
            f.flags.push("write_rejected".into());
        }
        if stored.len() > 1 {
            f.flags.push("several_chunks".into());
        }
        let dup = stored.values().flat_map(|r| r.iter().map(|x| x.id)).count() > stored_ids.len();
        if dup {
            f.flags.push("duplicates_after_recovery".into());
        }
        f.outcome = format!("acked={acked:?} stored={stored_ids:?} chunks={} dup={dup} rejected={:?}", stored.len(), rejected.keys().collect::<Vec<_>>());
        f
    }
}

pub fn factory(p: Params) -> ScenarioFactory {
    Arc::new(move || Box::new(IngestScenario::new(p.clone())) as Box<dyn Scenario>)
}

fn hooks(full: bool) -> Vec<String> {
    let mut v = vec!["timer:tick", "write:after_wal_append", "flush:after_register", "flush:before_persist", "timer:after_take"];
    if full {
        v.extend(["write:after_seq_store", "append:before_lock", "flush:before_upload", "flush:before_seq_load", "flush:before_truncate", "flush:after_persist"]);
    }
    v.into_iter().map(|s| s.to_string()).collect()
}

pub fn plans(tier: &str) -> Vec<(Params, Cost)> {
    let t = tier == "thorough";
    let base = Params {
        name: String::new(),
        writers: vec![vec![(1, 0), (3, 0)], vec![(2, 0)]],
        after_restart: vec![],
        flush_row_count: 2,
        max_segment_size: 64 << 20,
        ticks: 1,
        hooks: hooks(false),
        crash: false,
        faults: false,
        subscribers: false,
        max_crashes: 1,
        after_restart2: vec![],
        max_buffer_batches: 0,
        torn_append: false,
    };
    let mut v = vec![
        (Params { name: "faults".into(), faults: true, ..base.clone() }, Cost { preempt: 1, fault: if t { 2 } else { 1 }, ..Cost::ZERO }),
        (Params { name: "crash".into(), crash: true, ..base.clone() }, Cost { preempt: 2, crash: 1, ..Cost::ZERO }),
        (Params { name: "fault+crash".into(), crash: true, faults: true, ..base.clone() }, Cost { preempt: if t { 1 } else { 0 }, fault: 1, crash: 1, ..Cost::ZERO }),
    ];
    // crash - restart - crash: a multi-segment log (rotation on every entry), one writer, a write after the first
    // restart; every placement of two crashes (recovery itself may be crashed)
    v.push((
        Params { name: "crash-restart-crash/rotate-every-entry".into(), crash: true, max_crashes: 2, writers: vec![vec![(1, 0), (2, 0), (3, 0), (4, 0)]], after_restart: vec![(5, 0)], max_segment_size: 1, ticks: 0, hooks: vec!["write:after_wal_append".to_string(), "flush:after_register".to_string(), "flush:before_persist".to_string()], ..base.clone() },
        Cost { preempt: 0, crash: 2, ..Cost::ZERO },
    ));
    v.push((
        Params { name: "crash-restart-crash/threshold-3/two-entries-per-segment".into(), crash: true, max_crashes: 2, writers: vec![vec![(1, 0), (2, 0), (3, 0), (4, 0), (5, 0)]], after_restart: vec![], after_restart2: vec![(6, 0)], flush_row_count: 3, max_segment_size: 2 * 700, ticks: 0, hooks: vec!["write:after_wal_append".to_string(), "flush:before_persist".to_string()], ..base.clone() },
        Cost { preempt: 0, crash: 2, ..Cost::ZERO },
    ));
    // the crash also catches an unacknowledged write in the middle of its WAL append (torn bytes at the tail of the log, in
    // a freshly rotated segment when every entry rotates); a write and a flush after the restart, then a second crash
    for (name, seg) in [("rotate-every-entry", 1usize), ("one-segment", 64 << 20)] {
        v.push((
            Params { name: format!("crash-with-torn-unacknowledged-append/{name}"), crash: true, torn_append: true, max_crashes: 2, writers: vec![vec![(1, 0), (2, 0), (3, 0)]], after_restart: vec![(4, 0)], flush_row_count: 4, max_segment_size: seg, ticks: 0, hooks: vec!["write:after_wal_append".to_string(), "flush:before_persist".to_string()], ..base.clone() },
            Cost { preempt: 0, crash: 2, ..Cost::ZERO },
        ));
    }
    // schema change (flush-before-append inside a write), a write after the restart, rotation on every entry: in both tiers
    v.push((
        Params { name: "crash/schema-change+write-after-restart+rotate-every-entry".into(), crash: true, writers: vec![vec![(1, 0), (3, 1)], vec![(2, 0)]], after_restart: vec![(4, 0)], max_segment_size: 1, ticks: 2, ..base.clone() },
        Cost { preempt: if t { 2 } else { 1 }, crash: 1, ..Cost::ZERO },
    ));
    v.push((
        Params { name: "fault+crash/schema-change".into(), crash: true, faults: true, writers: vec![vec![(1, 0), (3, 1)], vec![(2, 0)]], after_restart: vec![(4, 0)], ..base.clone() },
        Cost { preempt: if t { 1 } else { 0 }, fault: 1, crash: 1, ..Cost::ZERO },
    ));
    v.push((
        Params { name: "2 faults+crash/schema-change".into(), crash: true, faults: true, writers: vec![vec![(1, 0), (3, 1)], vec![(2, 0)]], after_restart: vec![], ticks: 1, ..base.clone() },
        Cost { preempt: 0, fault: 2, crash: 1, ..Cost::ZERO },
    ));
    // back-pressure: the buffer holds two single-row batches and only the timer flushes, so some writes are rejected
    // with BufferFull after they were logged; a rejected write need not survive, every accepted one must
    v.push((
        Params { name: "buffer-full rejections + crash".into(), crash: true, writers: vec![vec![(1, 0), (3, 0), (5, 0)], vec![(2, 0), (4, 0)]], after_restart: vec![(6, 0)], flush_row_count: 100, max_buffer_batches: 2, ticks: 1, ..base.clone() },
        Cost { preempt: 1, crash: 1, ..Cost::ZERO },
    ));
    v.push((
        Params { name: "buffer-full rejections + fault + crash".into(), crash: true, faults: true, writers: vec![vec![(1, 0), (3, 0), (5, 0)], vec![(2, 0), (4, 0)]], flush_row_count: 100, max_buffer_batches: 2, ticks: 2, ..base.clone() },
        Cost { preempt: 0, fault: 1, crash: 1, ..Cost::ZERO },
    ));
    if t {
        // torn unacknowledged append with two writers, a timer tick, the default pause points and one preemption; and
        // combined with a storage / catalog fault
        for (name, seg) in [("rotate-every-entry", 1usize), ("two-entries-per-segment", 2 * 700)] {
            v.push((
                Params { name: format!("crash-with-torn-unacknowledged-append/2-writers/{name}"), crash: true, torn_append: true, max_crashes: 2, writers: vec![vec![(1, 0), (3, 0)], vec![(2, 0), (4, 0)]], after_restart: vec![(5, 0)], after_restart2: vec![(6, 0)], flush_row_count: 3, max_segment_size: seg, ticks: 1, ..base.clone() },
                Cost { preempt: 1, crash: 2, ..Cost::ZERO },
            ));
        }
        v.push((
            Params { name: "fault+crash-with-torn-unacknowledged-append/rotate-every-entry".into(), crash: true, faults: true, torn_append: true, writers: vec![vec![(1, 0), (2, 0), (3, 0)]], after_restart: vec![(4, 0)], flush_row_count: 2, max_segment_size: 1, ticks: 1, ..base.clone() },
            Cost { preempt: 0, fault: 1, crash: 1, ..Cost::ZERO },
        ));
        v.push((
            Params { name: "crash-restart-crash/2-writers/rotate-every-entry".into(), crash: true, max_crashes: 2, writers: vec![vec![(1, 0), (3, 0)], vec![(2, 0), (4, 0)]], after_restart: vec![(5, 0)], after_restart2: vec![(6, 0)], max_segment_size: 1, ticks: 1, ..base.clone() },
            Cost { preempt: 1, crash: 2, ..Cost::ZERO },
        ));
        v.push((
            Params { name: "2 faults+crash/one-schema/4-writes".into(), crash: true, faults: true, writers: vec![vec![(1, 0), (3, 0), (4, 0)], vec![(2, 0)]], after_restart: vec![], ticks: 1, ..base.clone() },
            Cost { preempt: 0, fault: 2, crash: 1, ..Cost::ZERO },
        ));
        v.push((Params { name: "crash/all-hooks".into(), crash: true, hooks: hooks(true), ..base.clone() }, Cost { preempt: 2, crash: 1, ..Cost::ZERO }));
        v.push((Params { name: "crash/3-preemptions".into(), crash: true, ..base.clone() }, Cost { preempt: 3, crash: 1, ..Cost::ZERO }));
    }
    v
}

pub fn run(tier: &str) -> i32 {
    let mut rep = Report::new("C01", tier, "model_checking");
    rep.assume("WAL sync mode EveryWrite on tmpfs: a write() that returned is durable; crash = abort of every task of the ingester at a quiescent point (all tasks parked at a store request, a catalog call or a pause point; in-flight file operations complete first), then a new Ingester on the same directory / store / catalog with ensure_wal()");
    rep.assume("duplicates and rows of unacknowledged writes are allowed; rows whose write returned Err are not required; faults are injected into chunk uploads and register_chunk, before or after the effect");
    let mut seen = BTreeSet::new();
    for (p, bounds) in plans(tier) {
        if !scenario_selected(&p.name) {
            continue;
        }
        let cfg = ExploreConfig { bounds, use_cache: false, wall_cap: Duration::from_secs(if tier == "thorough" { 1200 } else { 60 }), max_steps: 500, ..Default::default() };
        let st = explore(factory(p.clone()), &cfg);
        for k in st.flags.keys() {
            seen.insert(k.clone());
        }
        println!(
            "  C01 {:<64} executions={:<8} transitions={:<9} depth={:<3} outcomes={:<4} violation-sigs={:<2} {:.1}s{}",
            p.name, st.executions, st.transitions, st.max_depth, st.outcomes.len(), st.violations.len(), st.wall_s, if st.capped { " CAPPED" } else { "" }
        );
        rep.absorb_explore(&p.name, &serde_json::to_value(&p).unwrap(), &st, bounds);
    }
    rep.set("rule", "an execution = one complete schedule of 2 writers (3 single-row writes) + flush timer at store-request / catalog-call / pause-point granularity with the stated deviations (preemptions, injected upload/registration errors before or after effect, one crash + restart placed anywhere), followed by a fault-free final flush; distinct outcomes = distinct (acked, stored, chunk count, duplicates) results");
    let d = rep.get_u64("distinct_outcomes");
    rep.set("distinct_nontrivial", d);
    rep.set("vacuity", json!({"observed": seen}));
    for need in ["crashed", "faulted", "several_chunks", "duplicates_after_recovery"] {
        if !seen.contains(need) {
            rep.machinery(format!("vacuity guard: no execution showed `{need}`"));
        }
    }
    rep.finish()
}

pub fn replay(v: &serde_json::Value) -> i32 {
    let p: Params = serde_json::from_value(v["params"].clone()).expect("params");
    super::replay_schedule(factory(p), v)
}
