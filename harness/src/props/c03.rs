//! C03 — compaction never loses or duplicates stored rows (engine A multi-node + crash / fault / clock).

use super::common::*;
use crate::engine::meta::GatedMeta;
use crate::engine::report::Report;
use crate::engine::sched::*;
use crate::engine::store::{GatedStore, StoreLog};
use async_trait::async_trait;
use cardinalsin::compactor::{Compactor, CompactorConfig};
use cardinalsin::metadata::{LocalMetadataClient, MetadataClient};
use cardinalsin::sharding::{HotShardConfig, ShardMonitor};
use cardinalsin::StorageConfig;
use object_store::ObjectStore;
use serde_json::json;
use std::collections::{BTreeMap, BTreeSet};
use std::sync::{Arc, Mutex};
use std::time::Duration;

#[derive(Debug, Clone, serde::Serialize, serde::Deserialize)]
pub struct Params {
    pub name: String,
    /// "object-store" | "in-memory"
    pub backend: String,
    /// number of compactor nodes
    pub nodes: usize,
    /// compaction cycles per node
    pub cycles: usize,
    /// dataset: number of L0 chunks in hour A, in hour B, and number of L1 chunks
    pub l0_a: usize,
    pub l0_b: usize,
    pub l1: usize,
    /// offer CRASH / CLOCK+301 / fault transitions (the budget is in the bounds)
    pub crash: bool,
    pub clock: bool,
    pub faults: bool,
    /// max lease-renewal requests of the background task per execution (horizon)
    pub renewals: usize,
    /// one more L0 chunk in hour A whose rows straddle the boundary to the next hour (the merged chunk then spans
    /// two hour buckets)
    #[serde(default)]
    pub straddle: bool,
}

pub fn compactor_config() -> CompactorConfig {
    CompactorConfig {
        l0_merge_threshold: 2,
        l0_target_size: 1,
        l1_target_size: 1_000_000, // two small L1 chunks form one group
        l2_target_size: 1,
        max_levels: 2,
        retention_days: 90,
        gc_grace_period: Duration::from_secs(300),
        sharding_enabled: false,
        ..CompactorConfig::default()
    }
}

pub fn storage_config() -> StorageConfig {
    StorageConfig { provider: cardinalsin::CloudProvider::Memory, container: "b".into(), tenant_id: "t".into() }
}

#[derive(Default)]
struct Shared {
    /// (node, cycle index, result)
    cycle_results: Vec<(String, usize, Result<(), String>)>,
}

pub struct C03Scenario {
    p: Params,
    mem: Arc<dyn ObjectStore>,
    local: Arc<LocalMetadataClient>,
    log: Arc<StoreLog>,
    shared: Arc<Mutex<Shared>>,
    original: Vec<i64>,
    original_levels: BTreeMap<String, u32>,
    decoded: BTreeMap<String, Vec<i64>>,
    /// level of every path ever seen in the catalog
    levels_seen: BTreeMap<String, u32>,
    prev_paths: BTreeSet<String>,
    crashed: BTreeSet<String>,
    renewals_granted: usize,
    incarnation: usize,
    stores: Vec<Arc<GatedStore>>,
    /// the live compactor object of every node (a crash replaces it)
    compactors: BTreeMap<String, Arc<Compactor>>,
}

impl C03Scenario {
    pub fn new(p: Params) -> Self {
        Self {
            p,
            mem: new_mem(),
            local: Arc::new(LocalMetadataClient::new()),
            log: StoreLog::new(),
            shared: Arc::new(Mutex::new(Shared::default())),
            original: Vec::new(),
            original_levels: BTreeMap::new(),
            decoded: BTreeMap::new(),
            levels_seen: BTreeMap::new(),
            prev_paths: BTreeSet::new(),
            crashed: BTreeSet::new(),
            renewals_granted: 0,
            incarnation: 0,
            stores: Vec::new(),
            compactors: BTreeMap::new(),
        }
    }
    fn is_os(&self) -> bool {
        self.p.backend == "object-store"
    }

    fn start_node(&mut self, ctl: &Ctl, node: &str, cycles: usize) {
        self.incarnation += 1;
        let gs = GatedStore::new(self.mem.clone(), node, ctl, &self.log);
        self.stores.push(gs.clone());
        let meta: Arc<dyn MetadataClient> = if self.is_os() {
            Arc::new(os_client(gs.clone() as Arc<dyn ObjectStore>))
        } else {
            GatedMeta::new(self.local.clone(), node, ctl)
        };
        let compactor = Arc::new(Compactor::new(
            compactor_config(),
            gs as Arc<dyn ObjectStore>,
            meta,
            storage_config(),
            Arc::new(ShardMonitor::new(HotShardConfig::default())),
        ));
        self.compactors.insert(node.to_string(), compactor.clone());
        let shared = self.shared.clone();
        let node2 = node.to_string();
        ctl.spawn(node, node, async move {
            for c in 0..cycles {
                let r = compactor.run_compaction_cycle().await.map_err(|e| e.to_string());
                shared.lock().unwrap().cycle_results.push((node2.clone(), c, r));
            }
        });
    }

    /// (paths, levels) currently listed by the catalog (read raw, no caches)
    async fn catalog_now(&self) -> Result<BTreeMap<String, u32>, String> {
        if self.is_os() {
            match crate::engine::store::raw_get(&self.mem, CATALOG).await {
                Some(b) => Ok(parse_catalog(&b)?.chunks.iter().map(|(p, e)| (p.clone(), e.level)).collect()),
                None => Ok(BTreeMap::new()),
            }
        } else {
            let mut m = BTreeMap::new();
            for e in self.local.list_chunks().await.map_err(|e| e.to_string())? {
                m.insert(e.chunk_path, 0u32);
            }
            // (levels of the in-memory backend are not observable; the level rule is checked on the object-store backend)
            Ok(m)
        }
    }
}

fn multiset_diff(have: &[i64], want: &[i64]) -> (Vec<i64>, Vec<i64>) {
    // (missing, extra) as multisets
    let mut h: BTreeMap<i64, i64> = BTreeMap::new();
    for x in have {
        *h.entry(*x).or_default() += 1;
    }
    for x in want {
        *h.entry(*x).or_default() -= 1;
    }
    let mut missing = Vec::new();
    let mut extra = Vec::new();
    for (k, v) in h {
        if v < 0 {
            missing.push(k);
        } else if v > 0 {
            extra.push(k);
        }
    }
    (missing, extra)
}

#[async_trait(?Send)]
impl Scenario for C03Scenario {
    async fn setup(&mut self, ctl: &Ctl) {
        let now = crate::engine::env::EPOCH_NS;
        let meta: Arc<dyn MetadataClient> = if self.is_os() { Arc::new(os_client(self.mem.clone())) } else { self.local.clone() };
        let mut id = 0i64;
        let mut mk = |n: usize, base_ts: i64, prefix: &str| -> Vec<(String, Vec<Row>)> {
            (0..n)
                .map(|i| {
                    let rows: Vec<Row> = (0..2)
                        .map(|k| {
                            id += 1;
                            row(base_ts + (i as i64) * 1_000_000 + k, id)
                        })
                        .collect();
                    (format!("t/data/{prefix}_{i}.parquet"), rows)
                })
                .collect()
        };
        let hour_a = hour_bucket(now) - HOUR + 60_000_000_000; // previous hour
        let hour_b = hour_bucket(now) - 3 * HOUR + 60_000_000_000;
        let mut all = Vec::new();
        for (p, rows) in mk(self.p.l0_a, hour_a, "l0a") {
            put_chunk(&self.mem, meta.as_ref(), &p, &rows, true).await;
            self.original_levels.insert(p.clone(), 0);
            all.extend(rows.iter().map(|r| r.id));
        }
        if self.p.straddle {
            let end_a = hour_bucket(now);
            let rows = vec![row(end_a - 1, 9001), row(end_a, 9002), row(end_a + 1_000_000, 9003)];
            let p = "t/data/l0a_straddle.parquet".to_string();
            put_chunk(&self.mem, meta.as_ref(), &p, &rows, true).await;
            self.original_levels.insert(p.clone(), 0);
            all.extend(rows.iter().map(|r| r.id));
        }
        for (p, rows) in mk(self.p.l0_b, hour_b, "l0b") {
            put_chunk(&self.mem, meta.as_ref(), &p, &rows, true).await;
            self.original_levels.insert(p.clone(), 0);
            all.extend(rows.iter().map(|r| r.id));
        }
        for (p, rows) in mk(self.p.l1, hour_b - HOUR, "l1") {
            put_chunk(&self.mem, meta.as_ref(), &p, &rows, true).await;
            promote_to_level(meta.as_ref(), &p, 1).await;
            self.original_levels.insert(p.clone(), 1);
            all.extend(rows.iter().map(|r| r.id));
        }
        all.sort();
        self.original = all;
        self.levels_seen = self.original_levels.clone();
        self.prev_paths = self.original_levels.keys().cloned().collect();
        for n in 0..self.p.nodes {
            let node = format!("C{n}");
            self.start_node(ctl, &node, self.p.cycles);
        }
    }

    fn gate_enabled(&self, g: &GateInfo) -> bool {
        // horizon for the lease-renewal background task
        if g.actor.ends_with("/bg") {
            return self.renewals_granted < self.p.renewals;
        }
        true
    }

    fn on_grant(&mut self, g: &GateInfo, _d: Decision) {
        if g.actor.ends_with("/bg") {
            self.renewals_granted += 1;
        }
    }

    fn fault_modes(&self, g: &GateInfo) -> Vec<Decision> {
        if !self.p.faults || g.actor.ends_with("/bg") {
            return vec![];
        }
        match g.kind.as_str() {
            "PUT" | "DELETE" => vec![Decision::FailBefore, Decision::FailAfter],
            "GET" => vec![Decision::FailBefore],
            "META" => {
                let m = g.what.split('(').next().unwrap_or("");
                if ["register_chunk", "complete_compaction", "complete_compaction_with_target", "acquire_lease", "complete_lease", "fail_lease", "delete_chunk", "create_compaction_job", "update_compaction_status"].contains(&m) {
                    vec![Decision::FailBefore, Decision::FailAfter]
                } else {
                    vec![Decision::FailBefore]
                }
            }
            _ => vec![],
        }
    }

    fn extras(&self, ctl: &Ctl) -> Vec<Extra> {
        let mut v = Vec::new();
        if self.p.crash {
            for n in 0..self.p.nodes {
                let node = format!("C{n}");
                if !self.crashed.contains(&node) && !ctl.is_done(&node) {
                    v.push(Extra { label: format!("CRASH {node}"), cost: Cost { crash: 1, ..Cost::ZERO } });
                }
            }
        }
        if self.p.clock {
            v.push(Extra { label: "CLOCK+301s".into(), cost: Cost { clock: 1, ..Cost::ZERO } });
        }
        v
    }

    async fn apply_extra(&mut self, ctl: &Ctl, x: &Extra) {
        if let Some(node) = x.label.strip_prefix("CRASH ") {
            ctl.crash_node(node);
            ctl.settle().await;
            self.crashed.insert(node.to_string());
            ctl.revive_node(node);
            // the restarted compactor runs one fresh cycle
            self.start_node(ctl, node, 1);
        } else {
            ctl.env().advance_wall_secs(301);
        }
    }

    async fn step_check(&mut self, _ctl: &Ctl) -> Vec<Violation> {
        let mut out = Vec::new();
        let cat = match self.catalog_now().await {
            Ok(c) => c,
            Err(e) => return vec![Violation { sig: "C03:catalog-unreadable".into(), msg: e }],
        };
        let paths: Vec<String> = cat.keys().cloned().collect();
        match reachable_ids(&self.mem, &paths, &mut self.decoded).await {
            Err(p) => out.push(Violation {
                sig: "C03:listed-chunk-missing-from-store".into(),
                msg: format!("the catalog lists {p}, but the object does not exist (or does not decode)"),
            }),
            Ok(ids) => {
                let (missing, _extra) = multiset_diff(&ids, &self.original);
                if !missing.is_empty() {
                    out.push(Violation {
                        sig: "C03:rows-unqueryable".into(),
                        msg: format!("rows with ids {missing:?} are no longer reachable through the catalog (listed: {paths:?})"),
                    });
                }
            }
        }
        // level rule (object-store backend exposes levels): a chunk that replaces others is one level above the highest
        if self.is_os() {
            let now_paths: BTreeSet<String> = paths.iter().cloned().collect();
            let removed: Vec<String> = self.prev_paths.difference(&now_paths).cloned().collect();
            let added: Vec<String> = now_paths.difference(&self.prev_paths).cloned().collect();
            for (p, l) in &cat {
                if let Some(old) = self.levels_seen.get(p) {
                    if l < old {
                        out.push(Violation { sig: "C03:level-decreased".into(), msg: format!("{p} went from level {old} to {l}") });
                    }
                }
            }
            if !removed.is_empty() {
                let max_removed = removed.iter().filter_map(|p| self.levels_seen.get(p)).max().copied().unwrap_or(0);
                // the replacing chunk: one that holds the removed chunks' ids
                let removed_ids: BTreeSet<i64> = removed.iter().flat_map(|p| self.decoded.get(p).cloned().unwrap_or_default()).collect();
                for (p, l) in &cat {
                    if removed.contains(p) {
                        continue;
                    }
                    let ids: BTreeSet<i64> = self.decoded.get(p).cloned().unwrap_or_default().into_iter().collect();
                    if !removed_ids.is_empty() && removed_ids.is_subset(&ids) && (added.contains(p) || self.levels_seen.get(p) != Some(l)) && *l != max_removed + 1 {
                        out.push(Violation {
                            sig: "C03:merged-chunk-level".into(),
                            msg: format!("{p} replaced {removed:?} (highest level {max_removed}) but has level {l}"),
                        });
                    }
                }
            }
            for (p, l) in &cat {
                self.levels_seen.insert(p.clone(), *l);
            }
            self.prev_paths = now_paths;
        }
        out
    }

    async fn finish(&mut self, ctl: &Ctl) -> Finish {
        let mut f = Finish::default();
        for (a, m) in ctl.panics() {
            f.violations.push(Violation { sig: "C03:panic".into(), msg: format!("{a} panicked: {m}") });
        }
        let unfinished: Vec<String> = ctl.unfinished_actors().into_iter().filter(|a| !a.ends_with("/bg")).collect();
        if !unfinished.is_empty() {
            f.violations.push(Violation { sig: "C03:stuck".into(), msg: format!("compactors never finished their cycle: {unfinished:?}; parked: {:?}", ctl.parked_infos().iter().map(|g| g.label()).collect::<Vec<_>>()) });
            return f;
        }
        // no compaction in progress: the reachable rows are exactly the original ones, each once
        let cat = self.catalog_now().await.unwrap_or_default();
        let paths: Vec<String> = cat.keys().cloned().collect();
        let results = self.shared.lock().unwrap().cycle_results.clone();
        if let Ok(ids) = reachable_ids(&self.mem, &paths, &mut self.decoded).await {
            let (missing, extra) = multiset_diff(&ids, &self.original);
            if !missing.is_empty() {
                f.violations.push(Violation { sig: "C03:rows-lost-at-quiescence".into(), msg: format!("ids {missing:?} missing; listed {paths:?}; cycles {results:?}") });
            }
            if !extra.is_empty() {
                // classify the cause as narrowly as the trace allows
                let trace = ctl.trace();
                let crashed = trace.iter().any(|l| l.contains("*CRASH"));
                let faulted = trace.iter().any(|l| l.contains(" !Fail"));
                let clock = trace.iter().any(|l| l.contains("*CLOCK"));
                let cause = if crashed {
                    "after-crash"
                } else if faulted {
                    "after-fault"
                } else if clock {
                    "after-lease-expiry"
                } else {
                    "no-deviation"
                };
                f.violations.push(Violation {
                    sig: format!("C03:rows-duplicated-at-quiescence:{cause}:{}", self.p.backend),
                    msg: format!("ids {extra:?} are reachable more than once; listed {paths:?}; cycles {results:?}"),
                });
            }
        }
        // every row is found by a point lookup of its own timestamp (time index of the merged chunks)
        if f.violations.is_empty() {
            let fresh: Arc<dyn MetadataClient> = if self.is_os() { Arc::new(os_client(self.mem.clone())) } else { self.local.clone() };
            if let Err((p, id, ts, got)) = rows_found_by_time(&self.mem, fresh.as_ref(), &paths, &mut BTreeMap::new()).await {
                f.violations.push(Violation {
                    sig: format!("C03:row-not-found-by-time-range:{}", self.p.backend),
                    msg: format!("row id {id} (timestamp {ts}) lives in the listed chunk {p}, but get_chunks([{ts},{ts}]) returns {got:?}: the row is unqueryable by time"),
                });
            }
        }
        // Epilogue: let the grace period pass and give every live compactor one more (fault-free) cycle, so that
        // whatever the explored cycle scheduled for deletion is actually deleted; then the catalog must still only
        // list objects that exist, and the reachable rows must still be exactly the original ones.
        if f.violations.is_empty() {
            ctl.env().advance_wall_secs(301);
            let nodes: Vec<(String, Arc<Compactor>)> = self.compactors.iter().map(|(n, c)| (n.clone(), c.clone())).collect();
            for (n, c) in nodes {
                let shared = self.shared.clone();
                let n2 = n.clone();
                ctl.spawn(&n, &format!("{n}-gc"), async move {
                    let r = c.run_compaction_cycle().await.map_err(|e| e.to_string());
                    shared.lock().unwrap().cycle_results.push((format!("{n2}-gc"), 99, r));
                });
            }
            ctl.run_free(3000).await;
            let cat2 = self.catalog_now().await.unwrap_or_default();
            let paths2: Vec<String> = cat2.keys().cloned().collect();
            let deletes: Vec<String> = self.log.snapshot().iter().filter(|e| e.kind == "DELETE" && e.ok).map(|e| e.path.clone()).collect();
            match reachable_ids(&self.mem, &paths2, &mut BTreeMap::new()).await {
                Err(p) => f.violations.push(Violation {
                    sig: "C03:gc-deleted-a-listed-chunk".into(),
                    msg: format!("after the grace period and one more cycle the catalog lists {p}, but the object is gone; deletes sent: {deletes:?}; cycles {:?}", self.shared.lock().unwrap().cycle_results),
                }),
                Ok(ids) => {
                    let (missing, extra) = multiset_diff(&ids, &self.original);
                    if !missing.is_empty() {
                        f.violations.push(Violation { sig: "C03:rows-lost-after-gc-cycle".into(), msg: format!("ids {missing:?} missing after the grace period and one more cycle; listed {paths2:?}; deletes sent: {deletes:?}") });
                    }
                    if !extra.is_empty() && !ctl.trace().iter().any(|l| l.contains("*CRASH") || l.contains(" !Fail") || l.contains("*CLOCK")) {
                        f.violations.push(Violation { sig: format!("C03:rows-duplicated-after-gc-cycle:{}", self.p.backend), msg: format!("ids {extra:?} reachable more than once after one more cycle; listed {paths2:?}") });
                    }
                }
            }
            if !deletes.is_empty() {
                f.flags.push("gc_deleted_sources".into());
            }
        }
        let compacted = paths.iter().any(|p| p.contains("/compacted/"));
        if compacted {
            f.flags.push("compaction_completed".into());
        }
        if results.iter().any(|r| r.2.is_err()) {
            f.flags.push("cycle_error".into());
        }
        if self.log.snapshot().iter().any(|e| e.kind == "PUT" && !e.ok && e.injected.is_none()) {
            f.flags.push("cas_conflict".into());
        }
        let lv: Vec<(String, u32)> = cat.iter().map(|(p, l)| (if p.contains("/compacted/") { format!("merged@{}", self.decoded.get(p).map(|v| v.len()).unwrap_or(0)) } else { p.clone() }, *l)).collect();
        f.outcome = format!("{lv:?}|{:?}", results.iter().map(|r| (r.0.clone(), r.1, r.2.is_ok())).collect::<Vec<_>>());
        f
    }
}

pub fn factory(p: Params) -> ScenarioFactory {
    Arc::new(move || Box::new(C03Scenario::new(p.clone())) as Box<dyn Scenario>)
}

fn base(name: &str, backend: &str, nodes: usize) -> Params {
    Params { name: name.into(), backend: backend.into(), nodes, cycles: 1, l0_a: 3, l0_b: 0, l1: 0, crash: false, clock: false, faults: false, renewals: 1, straddle: false }
}

pub fn plans(tier: &str) -> Vec<(Params, Cost)> {
    let mut v = Vec::new();
    let t = tier == "thorough";
    for backend in ["object-store", "in-memory"] {
        // single compactor: every fault / crash / expiry position
        v.push((Params { faults: true, ..base(&format!("one-compactor/faults/{backend}"), backend, 1) }, Cost { fault: if t { 2 } else { 1 }, ..Cost::ZERO }));
        v.push((Params { crash: true, ..base(&format!("one-compactor/crash/{backend}"), backend, 1) }, Cost { crash: 1, preempt: 1, ..Cost::ZERO }));
        // merged chunk spanning two hour buckets; two levels in two cycles (L0 -> L1 -> L2 across hours)
        v.push((Params { straddle: true, crash: true, ..base(&format!("one-compactor/straddling-chunk/crash/{backend}"), backend, 1) }, Cost { crash: 1, ..Cost::ZERO }));
        v.push((Params { straddle: true, l0_a: 2, l0_b: 2, l1: 1, cycles: 2, ..base(&format!("one-compactor/straddling-chunk+two-hours+l1/two-cycles/{backend}"), backend, 1) }, Cost::ZERO));
        // two compactors: interleavings
        v.push((base(&format!("two-compactors/interleavings/{backend}"), backend, 2), Cost { preempt: if t { 3 } else { 2 }, ..Cost::ZERO }));
        v.push((Params { clock: true, ..base(&format!("two-compactors/lease-expiry/{backend}"), backend, 2) }, Cost { preempt: if t { 2 } else { 1 }, clock: 1, ..Cost::ZERO }));
        v.push((Params { crash: true, ..base(&format!("two-compactors/crash/{backend}"), backend, 2) }, Cost { preempt: 1, crash: 1, ..Cost::ZERO }));
        if t {
            v.push((Params { faults: true, ..base(&format!("two-compactors/faults/{backend}"), backend, 2) }, Cost { preempt: 1, fault: 1, ..Cost::ZERO }));
            v.push((Params { l0_a: 2, l0_b: 2, l1: 2, cycles: 2, ..base(&format!("two-compactors/l0+l1-two-cycles/{backend}"), backend, 2) }, Cost { preempt: 2, ..Cost::ZERO }));
            v.push((Params { l0_a: 2, l0_b: 0, l1: 2, cycles: 1, crash: true, clock: true, ..base(&format!("two-compactors/l0+l1-crash+expiry/{backend}"), backend, 2) }, Cost { preempt: if backend == "object-store" { 0 } else { 1 }, crash: 1, clock: 1, ..Cost::ZERO }));
        }
    }
    v
}

pub fn run(tier: &str) -> i32 {
    let mut rep = Report::new("C03", tier, "model_checking");
    rep.assume("interleavings at object-store-request / catalog-call granularity; crash = abort of every task of the node at a quiescent point, followed by a new compactor running one fresh cycle; lease expiry = wall clock +301 s at any quiescent point; faults = error before or after the request took effect");
    rep.assume("duplicates are tolerated while a compaction is in flight; exact equality of the reachable row multiset is required once every cycle has ended");
    let mut seen = BTreeSet::new();
    for (p, bounds) in plans(tier) {
        if !scenario_selected(&p.name) {
            continue;
        }
        let cfg = ExploreConfig { bounds, use_cache: false, wall_cap: Duration::from_secs(if tier == "thorough" { 900 } else { 60 }), max_steps: 600, ..Default::default() };
        let st = explore(factory(p.clone()), &cfg);
        for k in st.flags.keys() {
            seen.insert(format!("{}:{k}", p.backend));
        }
        println!(
            "  C03 {:<52} executions={:<7} transitions={:<8} depth={:<3} outcomes={:<4} violations={:<2} {:.1}s{}",
            p.name, st.executions, st.transitions, st.max_depth, st.outcomes.len(), st.violations.len(), st.wall_s, if st.capped { " CAPPED" } else { "" }
        );
        rep.absorb_explore(&p.name, &serde_json::to_value(&p).unwrap(), &st, bounds);
    }
    rep.set("rule", "an execution = one complete schedule of the compactors' requests with the stated deviations (preemptions, one crash / fault / lease expiry placed anywhere); states = quiescent points at which the conservation invariant was evaluated");
    let d = rep.get_u64("distinct_outcomes");
    rep.set("distinct_nontrivial", d);
    rep.set("vacuity", json!({"observed": seen}));
    for need in ["object-store:compaction_completed", "in-memory:compaction_completed", "object-store:gc_deleted_sources", "in-memory:gc_deleted_sources"] {
        if !seen.contains(need) {
            rep.machinery(format!("vacuity guard: no execution showed `{need}` (no compaction ever completed)"));
        }
    }
    rep.finish()
}

pub fn replay(v: &serde_json::Value) -> i32 {
    let p: Params = serde_json::from_value(v["params"].clone()).expect("params");
    super::replay_schedule(factory(p), v)
}
