//! C03 — compaction never loses or duplicates stored rows (engine A multi-node + crash / fault / clock).

use super::common::*;
use crate::engine::meta::GatedMeta;
use crate::engine::report::Report;
use crate::engine::sched::*;
use crate::engine::store::{GatedStore, StoreLog};
use async_trait::async_trait;
use cardinalsin::compactor::{Compactor, CompactorConfig};
use cardinalsin::ingester::ChunkMetadata;
use cardinalsin::metadata::{LocalMetadataClient, MetadataClient};
use cardinalsin::sharding::{HotShardConfig, ShardMonitor};
use cardinalsin::StorageConfig;
use object_store::ObjectStore;
use serde_json::json;
use std::collections::{BTreeMap, BTreeSet};
use std::sync::{Arc, Mutex};
use std::time::Duration;

#[derive(Debug, Clone, serde::Serialize, serde::Deserialize)]
pub struct Params {
    pub name: String,
    /// "object-store" | "in-memory"
    pub backend: String,
    /// number of compactor nodes
    pub nodes: usize,
    /// compaction cycles per node
    pub cycles: usize,
    /// dataset: number of L0 chunks in hour A, in hour B, and number of L1 chunks
    pub l0_a: usize,
    pub l0_b: usize,
    pub l1: usize,
    /// offer CRASH / CLOCK+301 / fault transitions (the budget is in the bounds)
    pub crash: bool,
    pub clock: bool,
    pub faults: bool,
    /// max lease-renewal requests of the background task per execution (horizon)
    pub renewals: usize,
    /// one more L0 chunk in hour A whose rows straddle the boundary to the next hour (the merged chunk then spans
    /// two hour buckets)
    #[serde(default)]
    pub straddle: bool,
}

pub fn compactor_config() -> CompactorConfig {
    CompactorConfig {
        l0_merge_threshold: 2,
        l0_target_size: 1,
        l1_target_size: 1_000_000, // two small L1 chunks form one group
        l2_target_size: 1,
        max_levels: 2,
        retention_days: 90,
        gc_grace_period: Duration::from_secs(300),
        sharding_enabled: false,
        ..CompactorConfig::default()
    }
}

pub fn storage_config() -> StorageConfig {
    StorageConfig { provider: cardinalsin::CloudProvider::Memory, container: "b".into(), tenant_id: "t".into() }
}

#[derive(Default)]
struct Shared {
    /// (node, cycle index, result)
    cycle_results: Vec<(String, usize, Result<(), String>)>,
}

pub struct C03Scenario {
    p: Params,
    mem: Arc<dyn ObjectStore>,
    local: Arc<LocalMetadataClient>,
    log: Arc<StoreLog>,
    shared: Arc<Mutex<Shared>>,
    original: Vec<i64>,
    original_levels: BTreeMap<String, u32>,
    decoded: BTreeMap<String, Vec<i64>>,
    /// level of every path ever seen in the catalog
    levels_seen: BTreeMap<String, u32>,
    prev_paths: BTreeSet<String>,
    crashed: BTreeSet<String>,
    renewals_granted: usize,
    incarnation: usize,
    stores: Vec<Arc<GatedStore>>,
    /// the live compactor object of every node (a crash replaces it)
    compactors: BTreeMap<String, Arc<Compactor>>,
}

impl C03Scenario {
    pub fn new(p: Params) -> Self {
        Self {
            p,
            mem: new_mem(),
            local: Arc::new(LocalMetadataClient::new()),
            log: StoreLog::new(),
            shared: Arc::new(Mutex::new(Shared::default())),
            original: Vec::new(),
            original_levels: BTreeMap::new(),
            decoded: BTreeMap::new(),
            levels_seen: BTreeMap::new(),
            prev_paths: BTreeSet::new(),
            crashed: BTreeSet::new(),
            renewals_granted: 0,
            incarnation: 0,
            stores: Vec::new(),
            compactors: BTreeMap::new(),
        }
    }
    fn is_os(&self) -> bool {
        self.p.backend == "object-store"
    }

    fn start_node(&mut self, ctl: &Ctl, node: &str, cycles: usize) {
        self.incarnation += 1;
        let gs = GatedStore::new(self.mem.clone(), node, ctl, &self.log);
        self.stores.push(gs.clone());
        let meta: Arc<dyn MetadataClient> = if self.is_os() {
            Arc::new(os_client(gs.clone() as Arc<dyn ObjectStore>))
        } else {
            GatedMeta::new(self.local.clone(), node, ctl)
        };
        let compactor = Arc::new(Compactor::new(
            compactor_config(),
            gs as Arc<dyn ObjectStore>,
            meta,
            storage_config(),
            Arc::new(ShardMonitor::new(HotShardConfig::default())),
        ));
        self.compactors.insert(node.to_string(), compactor.clone());
        let shared = self.shared.clone();
        let node2 = node.to_string();
        ctl.spawn(node, node, async move {
            for c in 0..cycles {
                let r = compactor.run_compaction_cycle().await.map_err(|e| e.to_string());
                shared.lock().unwrap().cycle_results.push((node2.clone(), c, r));
            }
        });
    }

    /// (paths, levels) currently listed by the catalog (read raw, no caches)
    async fn catalog_now(&self) -> Result<BTreeMap<String, u32>, String> {
        if self.is_os() {
            match crate::engine::store::raw_get(&self.mem, CATALOG).await {
                Some(b) => Ok(parse_catalog(&b)?.chunks.iter().map(|(p, e)| (p.clone(), e.level)).collect()),
                None => Ok(BTreeMap::new()),
            }
        } else {
            let mut m = BTreeMap::new();
            for e in self.local.list_chunks().await.map_err(|e| e.to_string())? {
                m.insert(e.chunk_path, 0u32);
            }
            // (levels of the in-memory backend are not observable; the level rule is checked on the object-store backend)
            Ok(m)
        }
    }
}

fn multiset_diff(have: &[i64], want: &[i64]) -> (Vec<i64>, Vec<i64>) {
    // (missing, extra) as multisets
    let mut h: BTreeMap<i64, i64> = BTreeMap::new();
    for x in have {
        *h.entry(*x).or_default() += 1;
    }
    for x in want {
        *h.entry(*x).or_default() -= 1;
    }
    let mut missing = Vec::new();
    let mut extra = Vec::new();
    for (k, v) in h {
        if v < 0 {
            missing.push(k);
        } else if v > 0 {
            extra.push(k);
        }
    }
    (missing, extra)
}

#[async_trait(?Send)]
impl Scenario for C03Scenario {
    async fn setup(&mut self, ctl: &Ctl) {
        let now = crate::engine::env::EPOCH_NS;
        let meta: Arc<dyn MetadataClient> = if self.is_os() { Arc::new(os_client(self.mem.clone())) } else { self.local.clone() };
        let mut id = 0i64;
        let mut mk = |n: usize, base_ts: i64, prefix: &str| -> Vec<(String, Vec<Row>)> {
            (0..n)
                .map(|i| {
                    let rows: Vec<Row> = (0..2)
                        .map(|k| {
                            id += 1;
                            row(base_ts + (i as i64) * 1_000_000 + k, id)
                        })
                        .collect();
                    (format!("t/data/{prefix}_{i}.parquet"), rows)
                })
                .collect()
        };
        let hour_a = hour_bucket(now) - HOUR + 60_000_000_000; // previous hour
        let hour_b = hour_bucket(now) - 3 * HOUR + 60_000_000_000;
        let mut all = Vec::new();
        for (p, rows) in mk(self.p.l0_a, hour_a, "l0a") {
            put_chunk(&self.mem, meta.as_ref(), &p, &rows, true).await;
            self.original_levels.insert(p.clone(), 0);
            all.extend(rows.iter().map(|r| r.id));
        }
        if self.p.straddle {
            let end_a = hour_bucket(now);
            let rows = vec![row(end_a - 1, 9001), row(end_a, 9002), row(end_a + 1_000_000, 9003)];
            let p = "t/data/l0a_straddle.parquet".to_string();
            put_chunk(&self.mem, meta.as_ref(), &p, &rows, true).await;
            self.original_levels.insert(p.clone(), 0);
            all.extend(rows.iter().map(|r| r.id));
        }
        for (p, rows) in mk(self.p.l0_b, hour_b, "l0b") {
            put_chunk(&self.mem, meta.as_ref(), &p, &rows, true).await;
            self.original_levels.insert(p.clone(), 0);
            all.extend(rows.iter().map(|r| r.id));
        }
        for (p, rows) in mk(self.p.l1, hour_b - HOUR, "l1") {
            put_chunk(&self.mem, meta.as_ref(), &p, &rows, true).await;
            promote_to_level(meta.as_ref(), &p, 1).await;
            self.original_levels.insert(p.clone(), 1);
            all.extend(rows.iter().map(|r| r.id));
        }
        all.sort();
        self.original = all;
        self.levels_seen = self.original_levels.clone();
        self.prev_paths = self.original_levels.keys().cloned().collect();
        for n in 0..self.p.nodes {
            let node = format!("C{n}");
            self.start_node(ctl, &node, self.p.cycles);
        }
    }

    fn gate_enabled(&self, g: &GateInfo) -> bool {
        // horizon for the lease-renewal background task
        if g.actor.ends_with("/bg") {
            return self.renewals_granted < self.p.renewals;
        }
        true
    }

    fn on_grant(&mut self, g: &GateInfo, _d: Decision) {
        if g.actor.ends_with("/bg") {
            self.renewals_granted += 1;
        }
    }

    fn fault_modes(&self, g: &GateInfo) -> Vec<Decision> {
        if !self.p.faults || g.actor.ends_with("/bg") {
            return vec![];
        }
        match g.kind.as_str() {
            "PUT" | "DELETE" => vec![Decision::FailBefore, Decision::FailAfter],
            "GET" => vec![Decision::FailBefore],
            "META" => {
                let m = g.what.split('(').next().unwrap_or("");
                if ["register_chunk", "complete_compaction", "complete_compaction_with_target", "acquire_lease", "complete_lease", "fail_lease", "delete_chunk", "create_compaction_job", "update_compaction_status"].contains(&m) {
                    vec![Decision::FailBefore, Decision::FailAfter]
                } else {
                    vec![Decision::FailBefore]
                }
            }
            _ => vec![],
        }
    }

    fn extras(&self, ctl: &Ctl) -> Vec<Extra> {
        let mut v = Vec::new();
        if self.p.crash {
            for n in 0..self.p.nodes {
                let node = format!("C{n}");
                if !self.crashed.contains(&node) && !ctl.is_done(&node) {
                    v.push(Extra { label: format!("CRASH {node}"), cost: Cost { crash: 1, ..Cost::ZERO } });
                }
            }
        }
        if self.p.clock {
            v.push(Extra { label: "CLOCK+301s".into(), cost: Cost { clock: 1, ..Cost::ZERO } });
        }
        v
    }

    async fn apply_extra(&mut self, ctl: &Ctl, x: &Extra) {
        if let Some(node) = x.label.strip_prefix("CRASH ") {
            ctl.crash_node(node);
            ctl.settle().await;
            self.crashed.insert(node.to_string());
            ctl.revive_node(node);
            // the restarted compactor runs one fresh cycle
            self.start_node(ctl, node, 1);
        } else {
            ctl.env().advance_wall_secs(301);
        }
    }

    async fn step_check(&mut self, _ctl: &Ctl) -> Vec<Violation> {
        let mut out = Vec::new();
        let cat = match self.catalog_now().await {
            Ok(c) => c,
            Err(e) => return vec![Violation { sig: "C03:catalog-unreadable".into(), msg: e }],
        };
        let paths: Vec<String> = cat.keys().cloned().collect();
        match reachable_ids(&self.mem, &paths, &mut self.decoded).await {
            Err(p) => out.push(Violation {
                sig: "C03:listed-chunk-missing-from-store".into(),
                msg: format!("the catalog lists {p}, but the object does not exist (or does not decode)"),
            }),
            Ok(ids) => {
                let (missing, _extra) = multiset_diff(&ids, &self.original);
                if !missing.is_empty() {
                    out.push(Violation {
                        sig: "C03:rows-unqueryable".into(),
                        msg: format!("rows with ids {missing:?} are no longer reachable through the catalog (listed: {paths:?})"),
                    });
                }
            }
        }
        // level rule (object-store backend exposes levels): a chunk that replaces others is one level above the highest
        if self.is_os() {
            let now_paths: BTreeSet<String> = paths.iter().cloned().collect();
            let removed: Vec<String> = self.prev_paths.difference(&now_paths).cloned().collect();
            let added: Vec<String> = now_paths.difference(&self.prev_paths).cloned().collect();
            for (p, l) in &cat {
                if let Some(old) = self.levels_seen.get(p) {
                    if l < old {
                        out.push(Violation { sig: "C03:level-decreased".into(), msg: format!("{p} went from level {old} to {l}") });
                    }
                }
            }
            if !removed.is_empty() {
                let max_removed = removed.iter().filter_map(|p| self.levels_seen.get(p)).max().copied().unwrap_or(0);
                // the replacing chunk: one that holds the removed chunks' ids
                let removed_ids: BTreeSet<i64> = removed.iter().flat_map(|p| self.decoded.get(p).cloned().unwrap_or_default()).collect();
                for (p, l) in &cat {
                    if removed.contains(p) {
                        continue;
                    }
                    let ids: BTreeSet<i64> = self.decoded.get(p).cloned().unwrap_or_default().into_iter().collect();
                    if !removed_ids.is_empty() && removed_ids.is_subset(&ids) && (added.contains(p) || self.levels_seen.get(p) != Some(l)) && *l != max_removed + 1 {
                        out.push(Violation {
                            sig: "C03:merged-chunk-level".into(),
                            msg: format!("{p} replaced {removed:?} (highest level {max_removed}) but has level {l}"),
                        });
                    }
                }
            }
            for (p, l) in &cat {
                self.levels_seen.insert(p.clone(), *l);
            }
            self.prev_paths = now_paths;
        }
        out
    }

    async fn finish(&mut self, ctl: &Ctl) -> Finish {
        let mut f = Finish::default();
        for (a, m) in ctl.panics() {
            f.violations.push(Violation { sig: "C03:panic".into(), msg: format!("{a} panicked: {m}") });
        }
        let unfinished: Vec<String> = ctl.unfinished_actors().into_iter().filter(|a| !a.ends_with("/bg")).collect();
        if !unfinished.is_empty() {
            f.violations.push(Violation { sig: "C03:stuck".into(), msg: format!("compactors never finished their cycle: {unfinished:?}; parked: {:?}", ctl.parked_infos().iter().map(|g| g.label()).collect::<Vec<_>>()) });
            return f;
        }
        // no compaction in progress: the reachable rows are exactly the original ones, each once
        let cat = self.catalog_now().await.unwrap_or_default();
        let paths: Vec<String> = cat.keys().cloned().collect();
        let results = self.shared.lock().unwrap().cycle_results.clone();
        if let Ok(ids) = reachable_ids(&self.mem, &paths, &mut self.decoded).await {
            let (missing, extra) = multiset_diff(&ids, &self.original);
            if !missing.is_empty() {
                f.violations.push(Violation { sig: "C03:rows-lost-at-quiescence".into(), msg: format!("ids {missing:?} missing; listed {paths:?}; cycles {results:?}") });
            }
            if !extra.is_empty() {
                // classify the cause as narrowly as the trace allows
                let trace = ctl.trace();
                let crashed = trace.iter().any(|l| l.contains("*CRASH"));
                let faulted = trace.iter().any(|l| l.contains(" !Fail"));
                let clock = trace.iter().any(|l| l.contains("*CLOCK"));
                let cause = if crashed {
                    "after-crash"
                } else if faulted {
                    "after-fault"
                } else if clock {
                    "after-lease-expiry"
                } else {
                    "no-deviation"
                };
                f.violations.push(Violation {
                    sig: format!("C03:rows-duplicated-at-quiescence:{cause}:{}", self.p.backend),
                    msg: format!("ids {extra:?} are reachable more than once; listed {paths:?}; cycles {results:?}"),
                });
            }
        }
        // every row is found by a point lookup of its own timestamp (time index of the merged chunks)
        if f.violations.is_empty() {
            let fresh: Arc<dyn MetadataClient> = if self.is_os() { Arc::new(os_client(self.mem.clone())) } else { self.local.clone() };
            if let Err((p, id, ts, got)) = rows_found_by_time(&self.mem, fresh.as_ref(), &paths, &mut BTreeMap::new()).await {
                f.violations.push(Violation {
                    sig: format!("C03:row-not-found-by-time-range:{}", self.p.backend),
                    msg: format!("row id {id} (timestamp {ts}) lives in the listed chunk {p}, but get_chunks([{ts},{ts}]) returns {got:?}: the row is unqueryable by time"),
                });
            }
        }
        // Epilogue: let the grace period pass and give every live compactor one more (fault-free) cycle, so that
        // whatever the explored cycle scheduled for deletion is actually deleted; then the catalog must still only
        // list objects that exist, and the reachable rows must still be exactly the original ones.
        if f.violations.is_empty() {
            ctl.env().advance_wall_secs(301);
            let nodes: Vec<(String, Arc<Compactor>)> = self.compactors.iter().map(|(n, c)| (n.clone(), c.clone())).collect();
            for (n, c) in nodes {
                let shared = self.shared.clone();
                let n2 = n.clone();
                ctl.spawn(&n, &format!("{n}-gc"), async move {
                    let r = c.run_compaction_cycle().await.map_err(|e| e.to_string());
                    shared.lock().unwrap().cycle_results.push((format!("{n2}-gc"), 99, r));
                });
            }
            ctl.run_free(3000).await;
            let cat2 = self.catalog_now().await.unwrap_or_default();
            let paths2: Vec<String> = cat2.keys().cloned().collect();
            let deletes: Vec<String> = self.log.snapshot().iter().filter(|e| e.kind == "DELETE" && e.ok).map(|e| e.path.clone()).collect();
            match reachable_ids(&self.mem, &paths2, &mut BTreeMap::new()).await {
                Err(p) => f.violations.push(Violation {
                    sig: "C03:gc-deleted-a-listed-chunk".into(),
                    msg: format!("after the grace period and one more cycle the catalog lists {p}, but the object is gone; deletes sent: {deletes:?}; cycles {:?}", self.shared.lock().unwrap().cycle_results),
                }),
                Ok(ids) => {
                    let (missing, extra) = multiset_diff(&ids, &self.original);
                    if !missing.is_empty() {
                        f.violations.push(Violation { sig: "C03:rows-lost-after-gc-cycle".into(), msg: format!("ids {missing:?} missing after the grace period and one more cycle; listed {paths2:?}; deletes sent: {deletes:?}") });
                    }
                    if !extra.is_empty() && !ctl.trace().iter().any(|l| l.contains("*CRASH") || l.contains(" !Fail") || l.contains("*CLOCK")) {
                        f.violations.push(Violation { sig: format!("C03:rows-duplicated-after-gc-cycle:{}", self.p.backend), msg: format!("ids {extra:?} reachable more than once after one more cycle; listed {paths2:?}") });
                    }
                }
            }
            if !deletes.is_empty() {
                f.flags.push("gc_deleted_sources".into());
            }
        }
        let compacted = paths.iter().any(|p| p.contains("/compacted/"));
        if compacted {
            f.flags.push("compaction_completed".into());
        }
        if results.iter().any(|r| r.2.is_err()) {
            f.flags.push("cycle_error".into());
        }
        if self.log.snapshot().iter().any(|e| e.kind == "PUT" && !e.ok && e.injected.is_none()) {
            f.flags.push("cas_conflict".into());
        }
        let lv: Vec<(String, u32)> = cat.iter().map(|(p, l)| (if p.contains("/compacted/") { format!("merged@{}", self.decoded.get(p).map(|v| v.len()).unwrap_or(0)) } else { p.clone() }, *l)).collect();
        f.outcome = format!("{lv:?}|{:?}", results.iter().map(|r| (r.0.clone(), r.1, r.2.is_ok())).collect::<Vec<_>>());
        f
    }
}

pub fn factory(p: Params) -> ScenarioFactory {
    Arc::new(move || Box::new(C03Scenario::new(p.clone())) as Box<dyn Scenario>)
}

fn base(name: &str, backend: &str, nodes: usize) -> Params {
    Params { name: name.into(), backend: backend.into(), nodes, cycles: 1, l0_a: 3, l0_b: 0, l1: 0, crash: false, clock: false, faults: false, renewals: 1, straddle: false }
}

pub fn plans(tier: &str) -> Vec<(Params, Cost)> {
    let mut v = Vec::new();
    let t = tier == "thorough";
    for backend in ["object-store", "in-memory"] {
        // single compactor: every fault / crash / expiry position
        v.push((Params { faults: true, ..base(&format!("one-compactor/faults/{backend}"), backend, 1) }, Cost { fault: if t { 2 } else { 1 }, ..Cost::ZERO }));
        v.push((Params { crash: true, ..base(&format!("one-compactor/crash/{backend}"), backend, 1) }, Cost { crash: 1, preempt: 1, ..Cost::ZERO }));
        // merged chunk spanning two hour buckets; two levels in two cycles (L0 -> L1 -> L2 across hours)
        v.push((Params { straddle: true, crash: true, ..base(&format!("one-compactor/straddling-chunk/crash/{backend}"), backend, 1) }, Cost { crash: 1, ..Cost::ZERO }));
        v.push((Params { straddle: true, l0_a: 2, l0_b: 2, l1: 1, cycles: 2, ..base(&format!("one-compactor/straddling-chunk+two-hours+l1/two-cycles/{backend}"), backend, 1) }, Cost::ZERO));
        // two compactors: interleavings
        v.push((base(&format!("two-compactors/interleavings/{backend}"), backend, 2), Cost { preempt: if t { 3 } else { 2 }, ..Cost::ZERO }));
        v.push((Params { clock: true, ..base(&format!("two-compactors/lease-expiry/{backend}"), backend, 2) }, Cost { preempt: if t { 2 } else { 1 }, clock: 1, ..Cost::ZERO }));
        v.push((Params { crash: true, ..base(&format!("two-compactors/crash/{backend}"), backend, 2) }, Cost { preempt: 1, crash: 1, ..Cost::ZERO }));
        if t {
            v.push((Params { faults: true, ..base(&format!("two-compactors/faults/{backend}"), backend, 2) }, Cost { preempt: 1, fault: 1, ..Cost::ZERO }));
            v.push((Params { l0_a: 2, l0_b: 2, l1: 2, cycles: 2, ..base(&format!("two-compactors/l0+l1-two-cycles/{backend}"), backend, 2) }, Cost { preempt: 2, ..Cost::ZERO }));
            v.push((Params { l0_a: 2, l0_b: 0, l1: 2, cycles: 1, crash: true, clock: true, ..base(&format!("two-compactors/l0+l1-crash+expiry/{backend}"), backend, 2) }, Cost { preempt: if backend == "object-store" { 0 } else { 1 }, crash: 1, clock: 1, ..Cost::ZERO }));
        }
    }
    v
}

pub fn run(tier: &str) -> i32 {
    let mut rep = Report::new("C03", tier, "model_checking");
    rep.assume("interleavings at object-store-request / catalog-call granularity; crash = abort of every task of the node at a quiescent point, followed by a new compactor running one fresh cycle; lease expiry = wall clock +301 s at any quiescent point; faults = error before or after the request took effect");
    rep.assume("duplicates are tolerated while a compaction is in flight; exact equality of the reachable row multiset is required once every cycle has ended");
    let mut seen = BTreeSet::new();
    for (p, bounds) in plans(tier) {
        if !scenario_selected(&p.name) {
            continue;
        }
        let cfg = ExploreConfig { bounds, use_cache: false, wall_cap: Duration::from_secs(if tier == "thorough" { 900 } else { 60 }), max_steps: 600, ..Default::default() };
        let st = explore(factory(p.clone()), &cfg);
        for k in st.flags.keys() {
            seen.insert(format!("{}:{k}", p.backend));
        }
        println!(
            "  C03 {:<52} executions={:<7} transitions={:<8} depth={:<3} outcomes={:<4} violations={:<2} {:.1}s{}",
            p.name, st.executions, st.transitions, st.max_depth, st.outcomes.len(), st.violations.len(), st.wall_s, if st.capped { " CAPPED" } else { "" }
        );
        rep.absorb_explore(&p.name, &serde_json::to_value(&p).unwrap(), &st, bounds);
    }
    rep.set("rule", "an execution = one complete schedule of the compactors' requests with the stated deviations (preemptions, one crash / fault / lease expiry placed anywhere); states = quiescent points at which the conservation invariant was evaluated");
    let d = rep.get_u64("distinct_outcomes");
    rep.set("distinct_nontrivial", d);
    rep.set("vacuity", json!({"observed": seen}));
    if scenario_selected("mixed-schemas") {
        schema_space(&mut rep, tier);
    }
    for need in ["object-store:compaction_completed", "in-memory:compaction_completed", "object-store:gc_deleted_sources", "in-memory:gc_deleted_sources"] {
        if !seen.contains(need) {
            rep.machinery(format!("vacuity guard: no execution showed `{need}` (no compaction ever completed)"));
        }
    }
    rep.finish()
}

pub fn replay(v: &serde_json::Value) -> i32 {
    if v["kind"] == "schema-case" {
        let c: SchemaCase = serde_json::from_value(v["case"].clone()).expect("case");
        return match run_schema_case_blocking(&c) {
            Ok((merged, failed)) => {
                println!("case {c:?}: rows conserved (merged={merged}, a cycle refused or failed={failed}); no violation");
                0
            }
            Err((sig, msg)) => {
                println!("violation [{sig}]: {msg}");
                1
            }
        };
    }
    let p: Params = serde_json::from_value(v["params"].clone()).expect("params");
    super::replay_schedule(factory(p), v)
}

// ---------------------------------------------------------------------------------------------------------------------
// C03 (b): datasets whose chunks do not share one schema (different label sets, column orders, timestamp types).
// The ingester starts a new chunk whenever the schema of the incoming batch differs, so such chunks sit side by side
// in one hour. Sequential, fault-free (engine B): every multiset of 2..3 chunk shapes x both back ends x L0 / L1
// merge, two real compaction cycles; the oracle compares whole rows (every non-null column value), not only row ids.
// ---------------------------------------------------------------------------------------------------------------------

#[derive(Debug, Clone, serde::Serialize, serde::Deserialize)]
pub struct SchemaCase {
    pub backend: String,
    /// one entry per chunk: index into `shapes()`
    pub chunks: Vec<usize>,
    /// the chunks sit on level 1 (merged by the level pass) instead of level 0
    pub level1: bool,
}

/// (label columns in schema order, timestamp column is Timestamp(ns, UTC) rather than Int64)
fn shapes() -> Vec<(Vec<&'static str>, bool)> {
    vec![
        (vec!["host"], true),
        (vec!["region"], true),
        (vec!["host", "region"], true),
        (vec!["region", "host"], true),
        (vec![], true),
        (vec!["host"], false),
    ]
}

fn shape_batch(shape: usize, chunk_no: usize, base_ts: i64) -> arrow_array::RecordBatch {
    use arrow_array::{Array, Float64Array, Int64Array, StringArray, TimestampNanosecondArray};
    use arrow_schema::{DataType, Field, Schema, TimeUnit};
    let (labels, ts_type) = shapes()[shape].clone();
    let n = 2usize;
    let ids: Vec<i64> = (0..n).map(|k| (chunk_no * 10 + k + 1) as i64).collect();
    let ts: Vec<i64> = (0..n).map(|k| base_ts + (chunk_no as i64) * 1_000_000 + k as i64).collect();
    let mut fields = vec![
        if ts_type { Field::new("timestamp", DataType::Timestamp(TimeUnit::Nanosecond, Some("UTC".into())), false) } else { Field::new("timestamp", DataType::Int64, false) },
        Field::new("metric_name", DataType::Utf8, false),
        Field::new("value_f64", DataType::Float64, true),
        Field::new("id", DataType::Int64, false),
    ];
    let mut cols: Vec<Arc<dyn Array>> = vec![
        if ts_type { Arc::new(TimestampNanosecondArray::from(ts).with_timezone("UTC")) } else { Arc::new(Int64Array::from(ts)) },
        Arc::new(StringArray::from(vec!["cpu"; n])),
        Arc::new(Float64Array::from(ids.iter().map(|i| *i as f64).collect::<Vec<_>>())),
        Arc::new(Int64Array::from(ids.clone())),
    ];
    for l in labels {
        fields.push(Field::new(l, DataType::Utf8, true));
        // the second row of a chunk has no value for its last label
        cols.push(Arc::new(StringArray::from(ids.iter().enumerate().map(|(k, i)| if k == 1 && fields.len() % 2 == 0 { None } else { Some(format!("{l}-of-{i}")) }).collect::<Vec<_>>())));
    }
    arrow_array::RecordBatch::try_new(Arc::new(Schema::new(fields)), cols).expect("shape batch")
}

async fn whole_rows_of_catalog(mem: &Arc<dyn ObjectStore>, meta: &dyn MetadataClient) -> Result<Vec<String>, String> {
    let mut all = Vec::new();
    for c in meta.list_chunks().await.map_err(|e| e.to_string())? {
        let data = mem.get(&object_store::path::Path::from(c.chunk_path.as_str())).await.map_err(|e| format!("{}: {e}", c.chunk_path))?.bytes().await.map_err(|e| e.to_string())?;
        all.extend(whole_rows(data)?);
    }
    all.sort();
    Ok(all)
}

async fn run_schema_case(c: &SchemaCase) -> Result<(bool, bool), (String, String)> {
    let mem = new_mem();
    let local = Arc::new(LocalMetadataClient::new());
    let meta: Arc<dyn MetadataClient> = if c.backend == "object-store" { Arc::new(os_client(mem.clone())) } else { local.clone() };
    let base_ts = hour_bucket(crate::engine::env::EPOCH_NS) - HOUR + 60_000_000_000;
    for (i, s) in c.chunks.iter().enumerate() {
        let b = shape_batch(*s, i, base_ts);
        let bytes = encode_parquet(&b);
        let p = format!("t/data/s{i}.parquet");
        let m = ChunkMetadata { path: p.clone(), min_timestamp: base_ts + (i as i64) * 1_000_000, max_timestamp: base_ts + (i as i64) * 1_000_000 + 1, row_count: 2, size_bytes: bytes.len() as u64 };
        mem.put(&object_store::path::Path::from(p.as_str()), bytes.into()).await.expect("put");
        meta.register_chunk(&p, &m).await.expect("register");
        if c.level1 {
            promote_to_level(meta.as_ref(), &p, 1).await;
        }
    }
    let before = whole_rows_of_catalog(&mem, meta.as_ref()).await.map_err(|e| ("C03:machinery:decode".to_string(), e))?;
    let cfg = CompactorConfig {
        l0_merge_threshold: c.chunks.len(),
        l0_target_size: 1,
        l1_target_size: 1,
        l2_target_size: 1,
        max_levels: 3,
        retention_days: 90,
        gc_grace_period: Duration::from_secs(300),
        sharding_enabled: false,
        ..CompactorConfig::default()
    };
    let compactor = Arc::new(Compactor::new(cfg, mem.clone(), meta.clone(), storage_config(), Arc::new(ShardMonitor::new(HotShardConfig::default()))));
    let mut merged = false;
    let mut failed = false;
    for cycle in 0..2 {
        let c2 = compactor.clone();
        // a panic inside the cycle must not take the harness down: run it as a task
        match tokio::spawn(async move { c2.run_compaction_cycle().await }).await {
            Ok(Ok(())) => {}
            Ok(Err(_)) => failed = true,
            Err(_) => failed = true,
        }
        let after = whole_rows_of_catalog(&mem, meta.as_ref()).await.map_err(|e| ("C03:listed-chunk-unreadable".to_string(), format!("cycle {cycle}: {e}")))?;
        if meta.list_chunks().await.map(|l| l.iter().any(|e| e.chunk_path.contains("/compacted/"))).unwrap_or(false) {
            merged = true;
        }
        if after != before {
            let lost: Vec<&String> = before.iter().filter(|r| !after.contains(r)).collect();
            let new: Vec<&String> = after.iter().filter(|r| !before.contains(r)).collect();
            let kind = if after.len() != before.len() { "row-count-changed" } else { "row-content-changed" };
            return Err((format!("C03:mixed-schemas:{kind}"), format!("cycle {cycle}: rows no longer reachable {lost:?}; rows that were not there before {new:?}")));
        }
    }
    Ok((merged, failed))
}

pub fn schema_cases(tier: &str) -> Vec<SchemaCase> {
    let n = shapes().len();
    let mut v = Vec::new();
    for backend in ["in-memory", "object-store"] {
        for level1 in [false, true] {
            for a in 0..n {
                for b in 0..n {
                    v.push(SchemaCase { backend: backend.into(), chunks: vec![a, b], level1 });
                    if tier == "thorough" || (backend == "in-memory" && !level1) {
                        for c in 0..n {
                            v.push(SchemaCase { backend: backend.into(), chunks: vec![a, b, c], level1 });
                        }
                    }
                }
            }
        }
    }
    v
}

fn run_schema_case_blocking(c: &SchemaCase) -> Result<(bool, bool), (String, String)> {
    let c = c.clone();
    std::thread::spawn(move || {
        let e = crate::engine::env::EnvState::new();
        crate::engine::env::install(&e);
        let rt = tokio::runtime::Builder::new_current_thread().enable_all().start_paused(true).build().unwrap();
        let r = rt.block_on(run_schema_case(&c));
        drop(rt);
        crate::engine::env::uninstall();
        r
    })
    .join()
    .unwrap_or_else(|_| Err(("C03:machinery:case-panicked".into(), "the case panicked outside the compaction task".into())))
}

fn schema_space(rep: &mut Report, tier: &str) {
    let cs = schema_cases(tier);
    let next = std::sync::atomic::AtomicUsize::new(0);
    let res: Mutex<Vec<(usize, Result<(bool, bool), (String, String)>)>> = Mutex::new(Vec::new());
    let t0 = std::time::Instant::now();
    // panics inside compaction tasks are expected outcomes here: keep their messages out of the output
    let hook = std::panic::take_hook();
    std::panic::set_hook(Box::new(|_| {}));
    std::thread::scope(|s| {
        for _ in 0..default_workers() {
            s.spawn(|| loop {
                let i = next.fetch_add(1, std::sync::atomic::Ordering::SeqCst);
                if i >= cs.len() {
                    return;
                }
                let r = run_schema_case_blocking(&cs[i]);
                res.lock().unwrap().push((i, r));
            });
        }
    });
    std::panic::set_hook(hook);
    let mut res = res.into_inner().unwrap();
    res.sort_by_key(|x| x.0);
    let (mut merged, mut failed, mut mixed_merged) = (0u64, 0u64, 0u64);
    let mut viol: BTreeMap<String, (String, SchemaCase, u64)> = BTreeMap::new();
    for (i, r) in res {
        let c = &cs[i];
        if std::env::var("VERIF_C03_VERBOSE").is_ok() {
            println!("    {:?} -> {:?}", c, r.as_ref().map_err(|e| &e.0));
        }
        match r {
            Ok((m, f)) => {
                merged += m as u64;
                failed += f as u64;
                if m && c.chunks.iter().any(|s| *s != c.chunks[0]) {
                    mixed_merged += 1;
                }
            }
            Err((sig, msg)) => {
                let e = viol.entry(sig).or_insert((msg, c.clone(), 0));
                e.2 += 1;
            }
        }
    }
    println!(
        "  C03 (b) mixed-schema datasets: cases={} merged={} (of differing shapes: {}) cycle-refused-or-failed={} violation-sigs={} {:.1}s",
        cs.len(),
        merged,
        mixed_merged,
        failed,
        viol.len(),
        t0.elapsed().as_secs_f64()
    );
    rep.add_u64("executions", cs.len() as u64);
    rep.add_u64("evaluations", cs.len() as u64);
    rep.set("mixed_schema_cases", json!({"cases": cs.len(), "merged": merged, "merged_with_differing_shapes": mixed_merged, "cycle_refused_or_failed": failed,
        "rule": "every sequence of 2 (quick: also 3 on the in-memory back end at L0; thorough: 3 everywhere) chunk shapes out of 6 (label columns [host] / [region] / [host,region] / [region,host] / none, timestamp as Timestamp(ns) or Int64) in one hour x both back ends x L0 / L1; two real compaction cycles; whole-row multiset (every non-null column value) before vs after"}));
    rep.push_sample(json!({"mixed_schema_case": cs.get(cs.len() / 3)}));
    if merged == 0 {
        rep.machinery("vacuity guard: no mixed-schema case performed a merge");
    }
    for (sig, (msg, c, n)) in viol {
        if sig.contains("machinery") {
            rep.machinery(format!("{sig}: {msg}"));
        } else {
            rep.violation_n(&sig, &format!("{c:?} (shapes {:?}): {msg}", c.chunks.iter().map(|s| shapes()[*s].clone()).collect::<Vec<_>>()), json!({"kind": "schema-case", "case": c}), n);
        }
    }
}
