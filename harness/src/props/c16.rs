//! C16 — the tiered cache is transparent.
//!
//! (a) explicit-state search over operation histories: for every configuration (L1 bytes; disk tier
//!     absent / 4096 / 8192 / 128 MiB) and preloaded content of a *space*, every sequence of the
//!     space's operations (new-object writes through the wrapper or directly on the backing store,
//!     whole / ranged / conditional / head reads of present and missing keys with related names,
//!     1-second clock ticks, and — disk tier — "settle") up to the space's depth is executed against a
//!     freshly built `TieredCache` + `CachedObjectStore` + backing `InMemory`; after every operation the
//!     wrapper's answer is compared with the backing store's answer to the identical request.
//!     Nothing is pruned: the abstract states are only counted.
//! (b) concurrent readers under the controlled scheduler (engine A): the backing store is a
//!     `GatedStore` (every backing GET / PUT / HEAD is a scheduling point), the real
//!     `CachedObjectStore` sits on top, 2–3 tasks read (one may write new objects), optional clock
//!     jumps; all interleavings; L1-only configurations (foyer does its I/O on threads the scheduler
//!     does not own, so disk-tier configurations are checked sequentially only).
//!
//! Debug knobs: VERIF_C16_ONLY=<substring of a space name> (runs only those spaces of part (a), skips
//! (b) and the vacuity guards), VERIF_C16_L2=<sizes> (disk-tier sizes), VERIF_C16_EXT_STRICT=1 (judge
//! wrong answers for objects the history deleted through the wrapper).

use crate::engine::env::{self, EnvState};
use crate::engine::report::Report;
use crate::engine::sched::*;
use crate::engine::store::{GatedStore, StoreLog};
use async_trait::async_trait;
use bytes::Bytes;
use cardinalsin::query::{CacheConfig, CachedObjectStore, TieredCache};
use futures::stream::BoxStream;
use object_store::memory::InMemory;
use object_store::path::Path;
use object_store::{
    GetOptions, GetRange, GetResult, ListResult, MultipartUpload, ObjectMeta, ObjectStore, PutMultipartOpts, PutOptions,
    PutPayload, PutResult, Result as OsResult,
};
use serde_json::{json, Value};
use std::collections::{BTreeMap, BTreeSet, HashSet};
use std::ops::Range;
use std::panic::AssertUnwindSafe;
use std::sync::atomic::{AtomicU64, AtomicUsize, Ordering};
use std::sync::{Arc, Mutex};
use std::time::{Duration, Instant};

// ------------------------------------------------------------------------------------------------
// The object universe
// ------------------------------------------------------------------------------------------------

/// Key pool. The names are related on purpose: 0 and 1 share the last path segment, 2 is that bare
/// last segment (a string suffix of 0 and 1), 3 is a path prefix of 0.
pub const KEYS: [&str; 4] = ["t/a/c1", "t/b/c1", "c1", "t/a"];
pub const SIZES: [usize; 3] = [1, 100, 5000];

pub fn content(key: usize, size: usize) -> Bytes {
    let mut v = Vec::with_capacity(size);
    for i in 0..size {
        v.push(((i * 31 + key * 97 + 7 + (i >> 8) * 3) & 0xff) as u8);
    }
    Bytes::from(v)
}

fn path(key: usize) -> Path {
    Path::from(KEYS[key])
}

fn name_relation(a: usize, b: usize) -> &'static str {
    let (x, y) = (KEYS[a], KEYS[b]);
    let last = |s: &str| s.rsplit('/').next().unwrap_or("").to_string();
    if x == y {
        "same"
    } else if last(x) == last(y) {
        "same-last-segment"
    } else if x.starts_with(y) || y.starts_with(x) {
        "prefix"
    } else if x.ends_with(y) || y.ends_with(x) {
        "suffix"
    } else {
        "unrelated"
    }
}

/// Ranges used by `get_range` / `get_ranges` (clamped / rejected by the store depending on the size).
const RANGES: [(usize, usize); 3] = [(0, 1), (1, 60), (90, 5000)];

#[derive(Debug, Clone, Copy, PartialEq, Eq, Hash, PartialOrd, Ord, serde::Serialize, serde::Deserialize)]
pub enum Rd {
    /// `store.get(k)`
    Get,
    /// `store.get_opts(k, GetOptions::default())`
    GetOptsPlain,
    /// `store.get_range(k, RANGES[i])`
    Range(u8),
    /// `store.get_ranges(k, [RANGES[0], RANGES[1]])`
    Ranges,
    /// `get_opts(range = Bounded(RANGES[i]))`
    OptBounded(u8),
    /// `get_opts(range = Offset(1))`
    OptOffset,
    /// `get_opts(range = Suffix(3))`
    OptSuffix,
    /// `get_opts(if_match = the object's current ETag)`
    IfMatchGood,
    IfMatchBad,
    /// `get_opts(if_none_match = the object's current ETag)`
    IfNoneMatchGood,
    IfNoneMatchBad,
    /// `get_opts(if_modified_since = now + 1h)`: the backing store answers NotModified
    IfModifiedSinceLater,
    /// `get_opts(if_unmodified_since = now - 1h)`: the backing store answers Precondition
    IfUnmodifiedSinceEarlier,
    /// `get_opts(head = true)`
    OptHead,
    /// `store.head(k)`
    Head,
}

impl Rd {
    fn class(&self) -> &'static str {
        match self {
            Rd::Get | Rd::GetOptsPlain | Rd::OptHead => "whole",
            Rd::Range(_) | Rd::Ranges | Rd::OptBounded(_) | Rd::OptOffset | Rd::OptSuffix => "ranged",
            Rd::IfMatchGood | Rd::IfMatchBad | Rd::IfNoneMatchGood | Rd::IfNoneMatchBad | Rd::IfModifiedSinceLater | Rd::IfUnmodifiedSinceEarlier => "conditional",
            Rd::Head => "head",
        }
    }
}

pub const ALL_RDS: [Rd; 17] = [
    Rd::Get,
    Rd::GetOptsPlain,
    Rd::Range(0),
    Rd::Range(1),
    Rd::Range(2),
    Rd::Ranges,
    Rd::OptBounded(1),
    Rd::OptOffset,
    Rd::OptSuffix,
    Rd::IfMatchGood,
    Rd::IfMatchBad,
    Rd::IfNoneMatchGood,
    Rd::IfNoneMatchBad,
    Rd::IfModifiedSinceLater,
    Rd::IfUnmodifiedSinceEarlier,
    Rd::OptHead,
    Rd::Head,
];

#[derive(Debug, Clone, Copy, PartialEq, Eq, Hash, serde::Serialize, serde::Deserialize)]
pub enum Op {
    /// write a NEW object (key not yet present) of SIZES[size], through the wrapper or directly on the backing store
    Put { key: u8, size: u8, via_wrapper: bool },
    Read { key: u8, rd: Rd },
    /// one second passes on the monotonic clock (moka runs its pending admission / eviction work on the next access)
    Tick,
    /// (disk-tier configurations) wait until the runtime is idle: foyer's flusher has written what was queued
    Settle,
    /// extension beyond the quantifier: delete through the wrapper (the anchor says delete invalidates)
    Delete { key: u8 },
    /// extension: rename through the wrapper to a fresh key
    Rename { from: u8, to: u8 },
}

#[derive(Debug, Clone, Copy, PartialEq, Eq, Hash, serde::Serialize, serde::Deserialize)]
pub struct Cfg {
    pub l1: usize,
    /// disk tier size in bytes (None = no disk tier)
    pub l2: Option<usize>,
}

// ------------------------------------------------------------------------------------------------
// Counting backing store
// ------------------------------------------------------------------------------------------------

#[derive(Debug)]
pub struct CountingStore {
    inner: Arc<dyn ObjectStore>,
    pub gets: AtomicU64,
    pub heads: AtomicU64,
}

impl CountingStore {
    fn new(inner: Arc<dyn ObjectStore>) -> Arc<Self> {
        Arc::new(Self { inner, gets: AtomicU64::new(0), heads: AtomicU64::new(0) })
    }
}

impl std::fmt::Display for CountingStore {
    fn fmt(&self, f: &mut std::fmt::Formatter<'_>) -> std::fmt::Result {
        write!(f, "CountingStore")
    }
}

#[async_trait]
impl ObjectStore for CountingStore {
    async fn put_opts(&self, location: &Path, payload: PutPayload, opts: PutOptions) -> OsResult<PutResult> {
        self.inner.put_opts(location, payload, opts).await
    }
    async fn put_multipart_opts(&self, location: &Path, opts: PutMultipartOpts) -> OsResult<Box<dyn MultipartUpload>> {
        self.inner.put_multipart_opts(location, opts).await
    }
    async fn get_opts(&self, location: &Path, options: GetOptions) -> OsResult<GetResult> {
        if options.head {
            self.heads.fetch_add(1, Ordering::SeqCst);
        } else {
            self.gets.fetch_add(1, Ordering::SeqCst);
        }
        self.inner.get_opts(location, options).await
    }
    async fn delete(&self, location: &Path) -> OsResult<()> {
        self.inner.delete(location).await
    }
    fn list(&self, prefix: Option<&Path>) -> BoxStream<'_, OsResult<ObjectMeta>> {
        self.inner.list(prefix)
    }
    async fn list_with_delimiter(&self, prefix: Option<&Path>) -> OsResult<ListResult> {
        self.inner.list_with_delimiter(prefix).await
    }
    async fn copy(&self, from: &Path, to: &Path) -> OsResult<()> {
        self.inner.copy(from, to).await
    }
    async fn copy_if_not_exists(&self, from: &Path, to: &Path) -> OsResult<()> {
        self.inner.copy_if_not_exists(from, to).await
    }
}

// ------------------------------------------------------------------------------------------------
// Requests, answers, the oracle
// ------------------------------------------------------------------------------------------------

#[derive(Debug, Clone, PartialEq, Eq)]
pub struct Ans {
    /// payload(s); one element except for get_ranges
    pub bytes: Vec<Bytes>,
    /// GetResult.range (None for get_range / get_ranges / head)
    pub range: Option<Range<usize>>,
    /// meta.size / meta.location where the call returns an ObjectMeta
    pub meta_size: Option<usize>,
    pub meta_loc: Option<String>,
}

pub type Outcome = Result<Ans, (String, String)>; // Err((kind, text))

fn err_kind(e: &object_store::Error) -> String {
    use object_store::Error as E;
    match e {
        E::Generic { .. } => "Generic",
        E::NotFound { .. } => "NotFound",
        E::InvalidPath { .. } => "InvalidPath",
        E::JoinError { .. } => "JoinError",
        E::NotSupported { .. } => "NotSupported",
        E::AlreadyExists { .. } => "AlreadyExists",
        E::Precondition { .. } => "Precondition",
        E::NotModified { .. } => "NotModified",
        E::NotImplemented => "NotImplemented",
        _ => "Other",
    }
    .to_string()
}

fn short(s: &str) -> String {
    let s = s.replace('\n', " ");
    if s.len() > 160 {
        format!("{}…", &s[..160])
    } else {
        s
    }
}

async fn get_result_to_ans(r: OsResult<GetResult>) -> Outcome {
    match r {
        Ok(g) => {
            let range = g.range.clone();
            let ms = g.meta.size;
            let ml = g.meta.location.to_string();
            match g.bytes().await {
                Ok(b) => Ok(Ans { bytes: vec![b], range: Some(range), meta_size: Some(ms), meta_loc: Some(ml) }),
                Err(e) => Err((format!("payload:{}", err_kind(&e)), short(&e.to_string()))),
            }
        }
        Err(e) => Err((err_kind(&e), short(&e.to_string()))),
    }
}

fn epoch_plus_secs(s: i64) -> chrono::DateTime<chrono::Utc> {
    chrono::DateTime::<chrono::Utc>::from_timestamp_nanos(env::EPOCH_NS + s * 1_000_000_000)
}

/// Issue read `rd` for `key` against `store`. `etag` is the object's current ETag at the backing store
/// (harness knowledge, used to build the conditional requests).
pub async fn issue(store: &dyn ObjectStore, key: usize, rd: Rd, etag: &str) -> Outcome {
    let p = path(key);
    let opts = |f: &dyn Fn(&mut GetOptions)| {
        let mut o = GetOptions::default();
        f(&mut o);
        o
    };
    match rd {
        Rd::Get => get_result_to_ans(store.get(&p).await).await,
        Rd::GetOptsPlain => get_result_to_ans(store.get_opts(&p, GetOptions::default()).await).await,
        Rd::Range(i) => {
            let (a, b) = RANGES[i as usize];
            match store.get_range(&p, a..b).await {
                Ok(b) => Ok(Ans { bytes: vec![b], range: None, meta_size: None, meta_loc: None }),
                Err(e) => Err((err_kind(&e), short(&e.to_string()))),
            }
        }
        Rd::Ranges => {
            let rs = [RANGES[0].0..RANGES[0].1, RANGES[1].0..RANGES[1].1];
            match store.get_ranges(&p, &rs).await {
                Ok(v) => Ok(Ans { bytes: v, range: None, meta_size: None, meta_loc: None }),
                Err(e) => Err((err_kind(&e), short(&e.to_string()))),
            }
        }
        Rd::OptBounded(i) => {
            let (a, b) = RANGES[i as usize];
            get_result_to_ans(store.get_opts(&p, opts(&|o| o.range = Some(GetRange::Bounded(a..b)))).await).await
        }
        Rd::OptOffset => get_result_to_ans(store.get_opts(&p, opts(&|o| o.range = Some(GetRange::Offset(1)))).await).await,
        Rd::OptSuffix => get_result_to_ans(store.get_opts(&p, opts(&|o| o.range = Some(GetRange::Suffix(3)))).await).await,
        Rd::IfMatchGood => get_result_to_ans(store.get_opts(&p, opts(&|o| o.if_match = Some(etag.to_string()))).await).await,
        Rd::IfMatchBad => get_result_to_ans(store.get_opts(&p, opts(&|o| o.if_match = Some("no-such-etag".to_string()))).await).await,
        Rd::IfNoneMatchGood => get_result_to_ans(store.get_opts(&p, opts(&|o| o.if_none_match = Some(etag.to_string()))).await).await,
        Rd::IfNoneMatchBad => get_result_to_ans(store.get_opts(&p, opts(&|o| o.if_none_match = Some("no-such-etag".to_string()))).await).await,
        Rd::IfModifiedSinceLater => get_result_to_ans(store.get_opts(&p, opts(&|o| o.if_modified_since = Some(epoch_plus_secs(3600)))).await).await,
        Rd::IfUnmodifiedSinceEarlier => {
            get_result_to_ans(store.get_opts(&p, opts(&|o| o.if_unmodified_since = Some(epoch_plus_secs(-3600)))).await).await
        }
        Rd::OptHead => get_result_to_ans(store.get_opts(&p, opts(&|o| o.head = true)).await).await,
        Rd::Head => match store.head(&p).await {
            Ok(m) => Ok(Ans { bytes: vec![], range: None, meta_size: Some(m.size), meta_loc: Some(m.location.to_string()) }),
            Err(e) => Err((err_kind(&e), short(&e.to_string()))),
        },
    }
}

#[derive(Debug, Clone, Copy, PartialEq, Eq, Hash, PartialOrd, Ord)]
pub enum Served {
    /// the call returned an error or did not touch the cache statistics
    NoTier,
    L1,
    L2,
    Backing,
    /// request passed to the backing store without consulting the cache
    Bypass,
}

impl Served {
    fn tag(&self) -> &'static str {
        match self {
            Served::NoTier => "none",
            Served::L1 => "L1",
            Served::L2 => "L2",
            Served::Backing => "backing",
            Served::Bypass => "bypass",
        }
    }
}

/// Soft facts (not violations): where the property is silent.
#[derive(Debug, Default, Clone)]
pub struct Soft {
    /// the wrapper failed as required but with another error kind than the backing store
    pub error_kind_differs: u64,
    /// the backing store rejected a precondition (NotModified / Precondition) but the wrapper returned the object's bytes
    pub precondition_ignored: u64,
}

/// Whose content is this? (any key of the pool, any size: also objects that were deleted or never written)
fn whose(b: &Bytes) -> Option<(usize, usize)> {
    if b.is_empty() {
        return None;
    }
    for k in 0..KEYS.len() {
        for s in SIZES {
            if s == b.len() && content(k, s) == *b {
                return Some((k, s));
            }
        }
    }
    None
}

/// The oracle: `got` = the wrapper's answer, `want` = the answer of the backing store (through a
/// do-nothing forwarding wrapper) to the identical request; `whole` = the object's content if the
/// backing store has it. Signatures name the symptom and the path that produced the answer.
pub fn judge(key: usize, rd: Rd, got: &Outcome, want: &Outcome, whole: Option<&Bytes>, served: Served, soft: &mut Soft) -> Option<(String, String)> {
    // whole-object requests: which tier answered; requests the wrapper is meant to pass through: did they take the cache path?
    let via = match (rd.class(), served) {
        ("whole", s) => s.tag(),
        (_, Served::L1 | Served::L2 | Served::Backing) => "cache-path",
        (_, s) => s.tag(),
    };
    let req = format!("{rd:?}({})", KEYS[key]);
    let lens = |a: &Ans| a.bytes.iter().map(|b| b.len()).collect::<Vec<_>>();
    match (got, want) {
        (Ok(g), Ok(w)) => {
            if g.bytes != w.bytes {
                let g0 = g.bytes.first().cloned().unwrap_or_default();
                if let Some((ok, osz)) = whose(&g0) {
                    if ok != key {
                        return Some((
                            format!("C16:read-answered-with-another-objects-content:via={via}"),
                            format!(
                                "{req} returned the {osz}-byte content of {} (name relation: {}); the backing store answers {:?} byte(s) to the same request",
                                KEYS[ok],
                                name_relation(key, ok),
                                lens(w)
                            ),
                        ));
                    }
                }
                let how = match whole {
                    _ if g.bytes.iter().all(|b| b.is_empty()) => "empty",
                    Some(wb) if g.bytes.len() == 1 && wb.len() >= g0.len() && wb.windows(g0.len()).any(|w| w == &g0[..]) => "another-part-of-the-object",
                    _ => "other-bytes",
                };
                return Some((
                    format!("C16:{}-read-wrong-bytes:{how}:via={via}", rd.class()),
                    format!("{req} returned {:?} byte(s) [{how}], the backing store answers {:?} byte(s) to the same request", lens(g), lens(w)),
                ));
            }
            if g.range != w.range {
                return Some((
                    format!("C16:read-wrong-range-field:via={via}"),
                    format!("{req} returned GetResult.range {:?}, the backing store says {:?}", g.range, w.range),
                ));
            }
            if g.meta_size != w.meta_size {
                return Some((
                    format!("C16:read-wrong-meta-size:via={via}"),
                    format!("{req} returned meta.size {:?}, the backing store says {:?}", g.meta_size, w.meta_size),
                ));
            }
            if g.meta_loc != w.meta_loc {
                return Some((
                    format!("C16:read-wrong-meta-location:via={via}"),
                    format!("{req} returned meta.location {:?}, the backing store says {:?}", g.meta_loc, w.meta_loc),
                ));
            }
            None
        }
        (Err((gk, _)), Err((wk, _))) => {
            if gk != wk {
                soft.error_kind_differs += 1;
            }
            None
        }
        (Err((gk, gt)), Ok(_)) => Some((
            format!("C16:read-of-present-object-fails:{gk}"),
            format!("{req} failed with {gk} ({gt}) although the backing store holds the object and answers the same request"),
        )),
        (Ok(g), Err((wk, wt))) => {
            let g0 = g.bytes.first().cloned().unwrap_or_default();
            if wk == "NotFound" {
                return Some(match whose(&g0) {
                    Some((ok, osz)) if ok != key => (
                        format!("C16:read-answered-with-another-objects-content:via={via}"),
                        format!(
                            "{req}: the backing store does not have the object ({wt}) but the wrapper returned the {osz}-byte content of {} (name relation: {})",
                            KEYS[ok],
                            name_relation(key, ok)
                        ),
                    ),
                    Some((_, osz)) => (
                        format!("C16:read-of-missing-object-answered:its-former-content:via={via}"),
                        format!("{req}: the backing store does not have the object ({wt}) but the wrapper returned {osz} byte(s), the content the object had before it was removed"),
                    ),
                    None => (
                        format!("C16:read-of-missing-object-answered:{}:via={via}", if g0.is_empty() && rd != Rd::Head { "empty" } else { "other-bytes" }),
                        format!("{req}: the backing store does not have the object ({wt}) but the wrapper answered Ok with {:?} byte(s), meta.size {:?}", lens(g), g.meta_size),
                    ),
                });
            }
            if (wk == "NotModified" || wk == "Precondition") && g.bytes.len() == 1 && whole.map(|w| *w == g0).unwrap_or(false) {
                // the bytes are exactly the object's; whether a cached answer honours HTTP preconditions is not judged
                soft.precondition_ignored += 1;
                return None;
            }
            Some((
                format!("C16:read-answered-where-backing-store-fails:{wk}:via={via}"),
                format!("{req}: the backing store fails with {wk} ({wt}) but the wrapper returned {:?} byte(s)", lens(g)),
            ))
        }
    }
}

// ------------------------------------------------------------------------------------------------
// Part (a): one history against freshly built objects
// ------------------------------------------------------------------------------------------------

pub struct World {
    pub backing: Arc<InMemory>,
    /// the reference: a forwarding wrapper that does nothing (so that trait-default methods such as
    /// get_ranges / head take the same route as through the wrapper under test)
    pub reference: Arc<CountingStore>,
    pub counting: Arc<CountingStore>,
    pub cache: Arc<TieredCache>,
    pub store: CachedObjectStore,
}

pub async fn build_world(cfg: &Cfg, init: &[(u8, u8)], l2_dir: Option<&str>) -> Result<World, String> {
    let backing = Arc::new(InMemory::new());
    for (k, s) in init {
        backing
            .put(&path(*k as usize), PutPayload::from(content(*k as usize, SIZES[*s as usize])))
            .await
            .map_err(|e| format!("preload: {e}"))?;
    }
    let counting = CountingStore::new(backing.clone() as Arc<dyn ObjectStore>);
    let cache = TieredCache::new(CacheConfig {
        l1_size: cfg.l1,
        l2_size: cfg.l2.unwrap_or(0),
        l2_dir: if cfg.l2.is_some() { Some(l2_dir.ok_or("l2 dir missing")?.to_string()) } else { None },
    })
    .await
    .map_err(|e| format!("TieredCache::new failed: {e}"))?;
    let cache = Arc::new(cache);
    let store = CachedObjectStore::new(counting.clone() as Arc<dyn ObjectStore>, cache.clone());
    let reference = CountingStore::new(backing.clone() as Arc<dyn ObjectStore>);
    Ok(World { backing, reference, counting, cache, store })
}

#[derive(Debug, Clone)]
pub struct StepObs {
    pub op: Op,
    pub served: Served,
    /// "ok" / error kind of the wrapper's answer (reads), "-" otherwise
    pub result: String,
    pub backing_gets: u64,
    pub state_fp: u64,
}

#[derive(Debug, Default)]
pub struct HistResult {
    pub steps: Vec<StepObs>,
    /// (step index, sig, msg)
    pub violations: Vec<(usize, String, String)>,
    pub soft: Soft,
    pub machinery: Option<String>,
    // facts for coverage / vacuity
    pub l1_hits: u64,
    pub l2_hits: u64,
    pub l2_disk_hits: u64,
    pub backing_fetches: u64,
    pub refetch_after_cached: u64,
    pub promotions: u64,
    pub missing_reads: u64,
    pub bypass_reads: u64,
    pub not_retained: u64,
}

async fn present_objects(backing: &InMemory) -> BTreeMap<usize, Bytes> {
    let mut m = BTreeMap::new();
    for k in 0..KEYS.len() {
        if let Ok(r) = backing.get(&path(k)).await {
            if let Ok(b) = r.bytes().await {
                m.insert(k, b);
            }
        }
    }
    m
}

/// Execute `ops` on a fresh world. Must run inside a tokio runtime with the environment installed.
pub async fn run_history(cfg: &Cfg, init: &[(u8, u8)], ops: &[Op], l2_dir: Option<&str>, envs: &Arc<EnvState>) -> HistResult {
    let mut hr = HistResult::default();
    let w = match build_world(cfg, init, l2_dir).await {
        Ok(w) => w,
        Err(e) => {
            hr.machinery = Some(e);
            return hr;
        }
    };
    // last tier that served a whole read of each key
    let mut last: BTreeMap<usize, Served> = BTreeMap::new();
    let mut ever_cached: BTreeSet<usize> = BTreeSet::new();
    // step of the last Settle, and per key the step at which it last entered foyer (fetch or disk hit)
    let mut last_settle: Option<usize> = None;
    let mut entered_l2: BTreeMap<usize, usize> = BTreeMap::new();
    for (i, op) in ops.iter().enumerate() {
        let s0 = w.cache.stats();
        let g0 = w.counting.gets.load(Ordering::SeqCst);
        let mut served = Served::NoTier;
        let mut result = "-".to_string();
        match *op {
            Op::Put { key, size, via_wrapper } => {
                let body = PutPayload::from(content(key as usize, SIZES[size as usize]));
                let r = if via_wrapper { w.store.put(&path(key as usize), body).await } else { w.backing.put(&path(key as usize), body).await };
                if let Err(e) = r {
                    hr.violations.push((i, "C16:put-of-new-object-fails".into(), format!("{op:?} failed: {e}")));
                }
            }
            Op::Delete { key } => {
                let r = w.store.delete(&path(key as usize)).await;
                if let Err(e) = r {
                    hr.violations.push((i, "C16:ext:delete-fails".into(), format!("{op:?} failed: {e}")));
                }
                last.remove(&(key as usize));
            }
            Op::Rename { from, to } => {
                let r = w.store.rename(&path(from as usize), &path(to as usize)).await;
                if let Err(e) = r {
                    hr.violations.push((i, "C16:ext:rename-fails".into(), format!("{op:?} failed: {e}")));
                }
                last.remove(&(from as usize));
            }
            Op::Tick => envs.advance_mono_secs(1),
            // one virtual second: the paused clock only advances while the runtime is idle and no blocking I/O is in
            // flight, so this returns after foyer's flusher / reclaimer have gone quiet (with a single region the
            // reclaimer polls every 10 ms for ever, which is why this is not a far-future sleep)
            Op::Settle => {
                tokio::time::sleep(Duration::from_secs(1)).await;
                last_settle = Some(i);
            }
            Op::Read { key, rd } => {
                let key = key as usize;
                let present = present_objects(&w.backing).await;
                let etag = match w.backing.head(&path(key)).await {
                    Ok(m) => m.e_tag.unwrap_or_else(|| "none".into()),
                    Err(_) => "0".to_string(),
                };
                let got = issue(&w.store, key, rd, &etag).await;
                let want = issue(w.reference.as_ref(), key, rd, &etag).await;
                let s1 = w.cache.stats();
                let g1 = w.counting.gets.load(Ordering::SeqCst);
                let consulted = s1.l1_hits + s1.l1_misses > s0.l1_hits + s0.l1_misses;
                served = if s1.l1_hits > s0.l1_hits {
                    Served::L1
                } else if s1.l2_hits > s0.l2_hits {
                    Served::L2
                } else if consulted && g1 > g0 {
                    Served::Backing
                } else if !consulted && (g1 > g0 || rd == Rd::Head) {
                    Served::Bypass
                } else {
                    Served::NoTier
                };
                result = match &got {
                    Ok(_) => "ok".to_string(),
                    Err((k, _)) => k.clone(),
                };
                if let Some((sig, msg)) = judge(key, rd, &got, &want, present.get(&key), served, &mut hr.soft) {
                    hr.violations.push((i, sig, msg));
                }
                // coverage facts
                if !present.contains_key(&key) {
                    hr.missing_reads += 1;
                }
                match served {
                    Served::L1 => {
                        hr.l1_hits += 1;
                        if last.get(&key) == Some(&Served::L2) {
                            hr.promotions += 1;
                        }
                    }
                    Served::L2 => {
                        hr.l2_hits += 1;
                        // foyer's memory tier has capacity l1 (8 shards) and keeps an entry only while the flusher still
                        // holds it: an object that does not fit there, read after the flusher went quiet, comes from disk
                        let too_big = present.get(&key).map(|b| b.len() > cfg.l1 / 8).unwrap_or(false);
                        let settled = match (last_settle, entered_l2.get(&key)) {
                            (Some(s), Some(e)) => s > *e,
                            _ => false,
                        };
                        if too_big && settled {
                            hr.l2_disk_hits += 1;
                        }
                        entered_l2.insert(key, i);
                    }
                    Served::Backing => {
                        if got.is_ok() {
                            hr.backing_fetches += 1;
                            entered_l2.insert(key, i);
                            let fits = present.get(&key).map(|b| b.len() <= cfg.l1).unwrap_or(false);
                            if ever_cached.contains(&key) || (last.contains_key(&key) && fits) {
                                // was in a cache tier (served from it, or inserted after a fetch and small enough to stay) and is gone
                                hr.refetch_after_cached += 1;
                            } else if last.contains_key(&key) {
                                hr.not_retained += 1;
                            }
                        }
                    }
                    Served::Bypass => hr.bypass_reads += 1,
                    Served::NoTier => {}
                }
                if matches!(served, Served::L1 | Served::L2) {
                    ever_cached.insert(key);
                }
                if matches!(served, Served::L1 | Served::L2 | Served::Backing) && got.is_ok() {
                    last.insert(key, served);
                }
            }
        }
        let s1 = w.cache.stats();
        let g1 = w.counting.gets.load(Ordering::SeqCst);
        // abstract state: configuration, backing content (key -> size), L1 weighted size, last serving tier per key
        let sizes: Vec<(usize, usize)> = present_objects(&w.backing).await.iter().map(|(k, b)| (*k, b.len())).collect();
        let fp = super::common::hash_of(&(cfg, sizes, s1.l1_size_bytes, last.iter().map(|(k, s)| (*k, *s)).collect::<Vec<_>>()));
        hr.steps.push(StepObs { op: *op, served, result, backing_gets: g1 - g0, state_fp: fp });
    }
    drop(w);
    hr
}

// ------------------------------------------------------------------------------------------------
// Part (a): the history spaces
// ------------------------------------------------------------------------------------------------

#[derive(Debug, Clone)]
pub struct Alphabet {
    pub nkeys: usize,
    pub put_sizes: Vec<u8>,
    pub put_via: Vec<bool>,
    pub rds: Vec<Rd>,
    pub tick: bool,
    pub settle: bool,
    pub delete: bool,
    pub rename: bool,
}

#[derive(Debug, Clone)]
pub struct Space {
    pub name: String,
    pub cfgs: Vec<Cfg>,
    pub inits: Vec<Vec<(u8, u8)>>,
    pub alpha: Alphabet,
    pub depth: usize,
}

/// keys that have ever been written (a deleted / renamed-away key is never written again: write-once)
fn used_keys(init: &[(u8, u8)], ops: &[Op]) -> (BTreeSet<u8>, BTreeSet<u8>) {
    let mut used: BTreeSet<u8> = init.iter().map(|(k, _)| *k).collect();
    let mut present = used.clone();
    for op in ops {
        match op {
            Op::Put { key, .. } => {
                used.insert(*key);
                present.insert(*key);
            }
            Op::Delete { key } => {
                present.remove(key);
            }
            Op::Rename { from, to } => {
                present.remove(from);
                used.insert(*to);
                present.insert(*to);
            }
            _ => {}
        }
    }
    (used, present)
}

fn next_ops(a: &Alphabet, init: &[(u8, u8)], prefix: &[Op]) -> Vec<Op> {
    let (used, present) = used_keys(init, prefix);
    let mut v = Vec::new();
    for k in 0..a.nkeys as u8 {
        for rd in &a.rds {
            v.push(Op::Read { key: k, rd: *rd });
        }
    }
    if a.tick {
        v.push(Op::Tick);
    }
    if a.settle && !matches!(prefix.last(), Some(Op::Settle)) {
        v.push(Op::Settle);
    }
    for k in 0..a.nkeys as u8 {
        if !used.contains(&k) {
            for s in &a.put_sizes {
                for via in &a.put_via {
                    v.push(Op::Put { key: k, size: *s, via_wrapper: *via });
                }
            }
        }
    }
    if a.delete {
        for k in &present {
            v.push(Op::Delete { key: *k });
        }
    }
    if a.rename {
        for f in &present {
            if let Some(t) = (0..a.nkeys as u8).find(|t| !used.contains(t)) {
                v.push(Op::Rename { from: *f, to: t });
            }
        }
    }
    v
}

#[derive(Default)]
struct Agg {
    executions: u64,
    ops_executed: u64,
    tree_edges: u64,
    nontrivial: u64,
    states: HashSet<u64>,
    l1_hits: u64,
    l2_hits: u64,
    l2_disk_hits: u64,
    backing_fetches: u64,
    refetch_after_cached: u64,
    promotions: u64,
    missing_reads: u64,
    bypass_reads: u64,
    not_retained: u64,
    soft: Soft,
    /// sig -> (history length, msg, replay, count)
    violations: BTreeMap<String, (usize, String, Value, u64)>,
    /// same shape: failures that involve an object deleted / renamed away through the wrapper (outside the quantifier)
    ext_observations: BTreeMap<String, (usize, String, Value, u64)>,
    machinery: Vec<String>,
    samples: Vec<Value>,
    capped: bool,
}

impl Agg {
    fn merge(&mut self, o: Agg) {
        self.executions += o.executions;
        self.ops_executed += o.ops_executed;
        self.tree_edges += o.tree_edges;
        self.nontrivial += o.nontrivial;
        self.states.extend(o.states);
        self.l1_hits += o.l1_hits;
        self.l2_hits += o.l2_hits;
        self.l2_disk_hits += o.l2_disk_hits;
        self.backing_fetches += o.backing_fetches;
        self.refetch_after_cached += o.refetch_after_cached;
        self.promotions += o.promotions;
        self.missing_reads += o.missing_reads;
        self.bypass_reads += o.bypass_reads;
        self.not_retained += o.not_retained;
        self.soft.error_kind_differs += o.soft.error_kind_differs;
        self.soft.precondition_ignored += o.soft.precondition_ignored;
        for (dst, src) in [(&mut self.violations, o.violations), (&mut self.ext_observations, o.ext_observations)] {
            for (sig, (len, msg, rp, n)) in src {
                match dst.get_mut(&sig) {
                    Some(e) => {
                        e.3 += n;
                        if len < e.0 {
                            e.0 = len;
                            e.1 = msg;
                            e.2 = rp;
                        }
                    }
                    None => {
                        dst.insert(sig, (len, msg, rp, n));
                    }
                }
            }
        }
        self.machinery.extend(o.machinery);
        if self.samples.is_empty() {
            self.samples.extend(o.samples.into_iter().take(1));
        }
        self.capped |= o.capped;
    }
}

fn new_rt() -> tokio::runtime::Runtime {
    tokio::runtime::Builder::new_current_thread().enable_all().start_paused(true).build().expect("runtime")
}

static DIR_SEQ: AtomicU64 = AtomicU64::new(0);

fn l2_base() -> std::path::PathBuf {
    let base = if std::path::Path::new("/dev/shm").is_dir() { "/dev/shm" } else { "/tmp" };
    std::path::PathBuf::from(base).join(format!("csverif-c16-{}", std::process::id()))
}

/// One complete execution of a history on freshly built objects (fresh environment; for disk-tier
/// configurations also a fresh runtime and a fresh directory).
fn execute(rt: &mut tokio::runtime::Runtime, cfg: &Cfg, init: &[(u8, u8)], ops: &[Op]) -> HistResult {
    let envs = EnvState::new();
    env::install(&envs);
    let res = if cfg.l2.is_some() {
        let dir = l2_base().join(format!("d{}", DIR_SEQ.fetch_add(1, Ordering::SeqCst)));
        let _ = std::fs::create_dir_all(&dir);
        let dirs = dir.to_string_lossy().to_string();
        let rt2 = new_rt();
        let r = std::panic::catch_unwind(AssertUnwindSafe(|| rt2.block_on(run_history(cfg, init, ops, Some(&dirs), &envs))));
        // let the runtime drop normally (no shutdown_timeout: foyer's flusher tasks must not see a dying runtime)
        drop(rt2);
        let _ = std::fs::remove_dir_all(&dir);
        r
    } else {
        let r = std::panic::catch_unwind(AssertUnwindSafe(|| rt.block_on(run_history(cfg, init, ops, None, &envs))));
        if r.is_err() {
            *rt = new_rt();
        }
        r
    };
    env::uninstall();
    match res {
        Ok(h) => h,
        Err(p) => {
            let msg = if let Some(s) = p.downcast_ref::<&str>() {
                s.to_string()
            } else if let Some(s) = p.downcast_ref::<String>() {
                s.clone()
            } else {
                "panic".into()
            };
            let mut h = HistResult::default();
            h.violations.push((ops.len().saturating_sub(1), "C16:panic".into(), format!("panic while executing the history: {}", short(&msg))));
            h
        }
    }
}

/// Is the operation at `step` a read of an object that the history itself deleted / renamed away
/// through the wrapper before (or the delete / rename itself)?
fn removed_here(ops: &[Op], step: usize) -> bool {
    match ops.get(step) {
        Some(Op::Read { key, .. }) => ops[..step].iter().any(|o| matches!(o, Op::Delete { key: k } | Op::Rename { from: k, .. } if k == key)),
        Some(Op::Delete { .. }) | Some(Op::Rename { .. }) => true,
        _ => false,
    }
}

/// Are failures on objects deleted / renamed away through the wrapper verdicts? Default: no (the
/// property quantifies over growing key sets only).
fn ext_strict() -> bool {
    std::env::var("VERIF_C16_EXT_STRICT").map(|v| v == "1").unwrap_or(false)
}

fn replay_json(space: &str, cfg: &Cfg, init: &[(u8, u8)], ops: &[Op], step: usize) -> Value {
    json!({"kind": "history", "space": space, "cfg": cfg, "init": init, "ops": &ops[..=step.min(ops.len().saturating_sub(1))],
           "keys": KEYS, "sizes": SIZES})
}

fn absorb(agg: &mut Agg, space: &Space, cfg: &Cfg, init: &[(u8, u8)], ops: &[Op], h: HistResult) {
    agg.executions += 1;
    agg.ops_executed += h.steps.len() as u64;
    for s in &h.steps {
        agg.states.insert(s.state_fp);
    }
    if h.l1_hits + h.l2_hits > 0 {
        agg.nontrivial += 1;
    }
    agg.l1_hits += h.l1_hits;
    agg.l2_hits += h.l2_hits;
    agg.l2_disk_hits += h.l2_disk_hits;
    agg.backing_fetches += h.backing_fetches;
    agg.refetch_after_cached += h.refetch_after_cached;
    agg.promotions += h.promotions;
    agg.missing_reads += h.missing_reads;
    agg.bypass_reads += h.bypass_reads;
    agg.not_retained += h.not_retained;
    agg.soft.error_kind_differs += h.soft.error_kind_differs;
    agg.soft.precondition_ignored += h.soft.precondition_ignored;
    if let Some(m) = h.machinery {
        if agg.machinery.len() < 5 {
            agg.machinery.push(format!("[{}] cfg {:?}: {m}", space.name, cfg));
        }
    }
    for (step, sig, msg) in h.violations {
        let len = step + 1 + init.len();
        // Outside the quantifier ("growing key set"): a failure on an object that this history deleted or renamed
        // away through the wrapper is recorded as an observation, not as a verdict (unless VERIF_C16_EXT_STRICT=1).
        let removed_here = removed_here(ops, step);
        let (map, sig) = if removed_here && !ext_strict() {
            (&mut agg.ext_observations, sig.replacen("C16:", "C16:ext-after-delete:", 1))
        } else if removed_here {
            (&mut agg.violations, sig.replacen("C16:", "C16:ext-after-delete:", 1))
        } else {
            (&mut agg.violations, sig)
        };
        let e = map.entry(sig).or_insert_with(|| (usize::MAX, String::new(), Value::Null, 0));
        e.3 += 1;
        if len < e.0 {
            e.0 = len;
            e.1 = format!(
                "{msg}\nconfiguration L1={} B, disk tier={:?}; preloaded {:?}; history (failing step last): {:?}",
                cfg.l1,
                cfg.l2,
                init.iter().map(|(k, s)| (KEYS[*k as usize], SIZES[*s as usize])).collect::<Vec<_>>(),
                &ops[..=step.min(ops.len() - 1)]
            );
            e.2 = replay_json(&space.name, cfg, init, ops, step);
        }
    }
    let rich = if cfg.l2.is_some() {
        h.steps.iter().any(|s| s.served == Served::L2) && h.steps.iter().any(|s| s.served == Served::L1)
    } else {
        h.steps.iter().any(|s| s.served == Served::L1) && h.steps.iter().filter(|s| s.served == Served::Backing).count() >= 2
    };
    if agg.samples.is_empty() && rich && h.steps.len() >= 3 {
        agg.samples.push(json!({
            "space": space.name, "cfg": cfg, "preloaded": init.iter().map(|(k, s)| (KEYS[*k as usize], SIZES[*s as usize])).collect::<Vec<_>>(),
            "history": h.steps.iter().map(|s| format!("{:?} -> {} served-by={} backing-GETs={}", s.op, s.result, s.served.tag(), s.backing_gets)).collect::<Vec<_>>(),
        }));
    }
}

/// Exhaustive enumeration of the history tree of `space` (all configurations × preloaded contents ×
/// operation sequences of exactly `depth` operations; every prefix is judged on the way).
fn explore_space(space: &Space, deadline: Instant) -> Agg {
    // work items: (cfg, init, prefix of length <= 2)
    let mut items: Vec<(usize, usize, Vec<Op>)> = Vec::new();
    let mut root_edges = 0u64;
    for ci in 0..space.cfgs.len() {
        for ii in 0..space.inits.len() {
            let init = &space.inits[ii];
            if space.depth == 0 {
                items.push((ci, ii, vec![]));
                continue;
            }
            for o1 in next_ops(&space.alpha, init, &[]) {
                root_edges += 1;
                if space.depth == 1 {
                    items.push((ci, ii, vec![o1]));
                    continue;
                }
                for o2 in next_ops(&space.alpha, init, &[o1]) {
                    root_edges += 1;
                    items.push((ci, ii, vec![o1, o2]));
                }
            }
        }
    }
    let next = AtomicUsize::new(0);
    let total = Mutex::new(Agg::default());
    let workers = default_workers().max(1);
    std::thread::scope(|s| {
        for _ in 0..workers {
            s.spawn(|| {
                let mut rt = new_rt();
                let mut agg = Agg::default();
                loop {
                    let i = next.fetch_add(1, Ordering::SeqCst);
                    if i >= items.len() {
                        break;
                    }
                    if Instant::now() > deadline {
                        agg.capped = true;
                        break;
                    }
                    let (ci, ii, prefix) = &items[i];
                    let cfg = &space.cfgs[*ci];
                    let init = &space.inits[*ii];
                    let mut stack: Vec<Vec<Op>> = vec![prefix.clone()];
                    while let Some(h) = stack.pop() {
                        let nx = if h.len() < space.depth { next_ops(&space.alpha, init, &h) } else { Vec::new() };
                        if nx.is_empty() {
                            let r = execute(&mut rt, cfg, init, &h);
                            absorb(&mut agg, space, cfg, init, &h, r);
                            if agg.executions % 256 == 0 && Instant::now() > deadline {
                                agg.capped = true;
                                break;
                            }
                        } else {
                            agg.tree_edges += nx.len() as u64;
                            for o in nx.into_iter().rev() {
                                let mut n = h.clone();
                                n.push(o);
                                stack.push(n);
                            }
                        }
                    }
                    if agg.capped {
                        break;
                    }
                }
                total.lock().unwrap().merge(agg);
            });
        }
    });
    let mut t = total.into_inner().unwrap();
    t.tree_edges += root_edges;
    t
}

fn cfgs(l1s: &[usize], l2s: &[Option<usize>]) -> Vec<Cfg> {
    let mut v = Vec::new();
    for l2 in l2s {
        for l1 in l1s {
            v.push(Cfg { l1: *l1, l2: *l2 });
        }
    }
    v
}

const MIB: usize = 1 << 20;

fn alpha(nkeys: usize, put_sizes: &[u8], put_via: &[bool], rds: &[Rd]) -> Alphabet {
    Alphabet {
        nkeys,
        put_sizes: put_sizes.to_vec(),
        put_via: put_via.to_vec(),
        rds: rds.to_vec(),
        tick: true,
        settle: false,
        delete: false,
        rename: false,
    }
}

pub fn spaces(tier: &str) -> Vec<Space> {
    let t = tier == "thorough";
    // L1 sizes: nothing fits / only the 1-byte object / exactly one 100-byte object / two of them /
    // exactly the 5000-byte object / everything
    let l1_all = [0usize, 1, 100, 200, 5000, MIB];
    let mut v = Vec::new();
    // ---- no disk tier
    // every request kind, from an empty store
    v.push(Space {
        name: "all-requests/from-empty".into(),
        cfgs: cfgs(if t { &l1_all } else { &[0, 100, MIB] }, &[None]),
        inits: vec![vec![]],
        alpha: alpha(3, &[0, 1, 2], &[true, false], &ALL_RDS),
        depth: 3,
    });
    if t {
        v.push(Space {
            name: "all-requests/from-empty/2-keys".into(),
            cfgs: cfgs(&[0, 100, MIB], &[None]),
            inits: vec![vec![]],
            alpha: alpha(2, &[0, 1, 2], &[true, false], &ALL_RDS),
            depth: 4,
        });
    }
    // deep histories of whole-object reads over preloaded objects (eviction, re-admission, oversized
    // objects, reads of a missing key), without and with one more new object appearing on the way
    let inits = vec![vec![(0, 1), (1, 1), (2, 1)], vec![(0, 0), (1, 1), (2, 2)], vec![(0, 1), (1, 2)]];
    v.push(Space {
        name: "whole-reads/preloaded".into(),
        cfgs: cfgs(&l1_all, &[None]),
        inits: inits.clone(),
        alpha: alpha(4, &[], &[], &[Rd::Get]),
        depth: if t { 8 } else { 6 },
    });
    v.push(Space {
        name: "whole-reads+new-object/preloaded".into(),
        cfgs: cfgs(&l1_all, &[None]),
        inits,
        alpha: alpha(4, &[1], &[false], &[Rd::Get]),
        depth: if t { 7 } else { 5 },
    });
    // ---- disk tier present (sequential only). One foyer region is min(l2_size, 64 MiB) and every entry
    // occupies a multiple of 4096 bytes: 4096 = one entry per tier (eviction on every insert; the
    // 5000-byte object is larger than the tier), 8192 = two small entries or the large one, 128 MiB = all.
    let l2_sizes: Vec<Option<usize>> = std::env::var("VERIF_C16_L2")
        .ok()
        .map(|s| s.split(',').map(|x| x.parse().ok()).collect())
        .unwrap_or(vec![Some(4096), Some(8192), Some(128 * MIB)]);
    let mut a = alpha(if t { 3 } else { 2 }, &[0, 1, 2], &[true], &[Rd::Get, Rd::Range(1)]);
    a.settle = true;
    v.push(Space {
        name: "disk-tier/from-empty".into(),
        cfgs: cfgs(&[0, 100, MIB], &l2_sizes),
        inits: vec![vec![]],
        alpha: a,
        depth: if t { 4 } else { 3 },
    });
    let mut a = alpha(3, &[], &[], &[Rd::Get]);
    a.settle = true;
    a.tick = false; // moka with capacity 0 never stores anything: time has nothing to do
    v.push(Space {
        name: "disk-tier/preloaded/L1=0".into(),
        cfgs: cfgs(&[0], &l2_sizes),
        inits: vec![vec![(0, 1), (1, 1)], vec![(0, 1), (1, 2)], vec![(0, 0), (1, 1), (2, 1)]],
        alpha: a.clone(),
        depth: if t { 7 } else { 5 },
    });
    a.tick = true;
    a.nkeys = 2;
    v.push(Space {
        name: "disk-tier/preloaded/L1=100".into(),
        cfgs: cfgs(&[100], &l2_sizes),
        inits: vec![vec![(0, 1), (1, 1)], vec![(0, 1), (1, 2)]],
        alpha: a,
        depth: if t { 8 } else { 6 },
    });
    // ---- extension beyond the quantifier (the anchor names it): delete / rename through the wrapper invalidate
    let mut a = alpha(3, &[], &[], &[Rd::Get]);
    a.delete = true;
    a.rename = true;
    v.push(Space {
        name: "ext-delete-rename/preloaded".into(),
        cfgs: cfgs(&[100, MIB], &[None]),
        inits: vec![vec![(0, 1), (1, 1)]],
        alpha: a.clone(),
        depth: if t { 6 } else { 4 },
    });
    a.settle = true;
    v.push(Space {
        name: "ext-delete-rename/disk-tier".into(),
        cfgs: cfgs(&[0, 100], &[Some(128 * MIB)]),
        inits: vec![vec![(0, 1), (1, 1)]],
        alpha: a,
        depth: if t { 5 } else { 3 },
    });
    if let Ok(only) = std::env::var("VERIF_C16_ONLY") {
        v.retain(|s| s.name.contains(&only));
    }
    v
}

// ------------------------------------------------------------------------------------------------
// Part (b): concurrent readers under the controlled scheduler
// ------------------------------------------------------------------------------------------------

#[derive(Debug, Clone, serde::Serialize, serde::Deserialize)]
pub struct ConcProgram {
    pub name: String,
    pub l1: usize,
    pub init: Vec<(u8, u8)>,
    /// per actor: operations (Read / Put only)
    pub actors: Vec<Vec<Op>>,
    pub clock_jumps: u32,
}

#[derive(Debug, Clone)]
struct ConcRec {
    actor: usize,
    idx: usize,
    op: Op,
    call: u64,
    ret: Option<u64>,
    got: Option<Outcome>,
    /// backing GETs issued by this actor during the op
    fetches: u64,
}

pub struct ConcScenario {
    prog: ConcProgram,
    mem: Arc<InMemory>,
    log: Arc<StoreLog>,
    recs: Arc<Mutex<Vec<ConcRec>>>,
    clock: Arc<AtomicU64>,
    cache: Option<Arc<TieredCache>>,
    jumps: u32,
    /// two backing GETs of the same object were pending at the same time
    concurrent_same_key_miss: bool,
    concurrent_misses: bool,
}

impl ConcScenario {
    pub fn new(prog: ConcProgram) -> Self {
        Self {
            prog,
            mem: Arc::new(InMemory::new()),
            log: StoreLog::new(),
            recs: Arc::new(Mutex::new(Vec::new())),
            clock: Arc::new(AtomicU64::new(0)),
            cache: None,
            jumps: 0,
            concurrent_same_key_miss: false,
            concurrent_misses: false,
        }
    }
}

#[async_trait(?Send)]
impl Scenario for ConcScenario {
    async fn setup(&mut self, ctl: &Ctl) {
        for (k, s) in &self.prog.init {
            self.mem.put(&path(*k as usize), PutPayload::from(content(*k as usize, SIZES[*s as usize]))).await.expect("preload");
        }
        let gs = GatedStore::with_filter(self.mem.clone() as Arc<dyn ObjectStore>, "B", ctl, &self.log, |kind, _| kind == "GET" || kind == "PUT" || kind == "HEAD");
        let cache = Arc::new(
            TieredCache::new(CacheConfig { l1_size: self.prog.l1, l2_size: 0, l2_dir: None }).await.expect("cache"),
        );
        self.cache = Some(cache.clone());
        let store = Arc::new(CachedObjectStore::new(gs.clone() as Arc<dyn ObjectStore>, cache));
        // ETags of preloaded objects (harness knowledge for conditional requests)
        let mut etags = BTreeMap::new();
        for k in 0..KEYS.len() {
            if let Ok(m) = self.mem.head(&path(k)).await {
                etags.insert(k, m.e_tag.unwrap_or_default());
            }
        }
        for (ai, ops) in self.prog.actors.iter().enumerate() {
            let name = format!("R{ai}");
            let ops = ops.clone();
            let recs = self.recs.clone();
            let clock = self.clock.clone();
            let store = store.clone();
            let log = self.log.clone();
            let etags = etags.clone();
            let name2 = name.clone();
            ctl.spawn("B", &name, async move {
                for (idx, op) in ops.into_iter().enumerate() {
                    let call = clock.fetch_add(1, Ordering::SeqCst);
                    let slot = {
                        let mut r = recs.lock().unwrap();
                        r.push(ConcRec { actor: ai, idx, op, call, ret: None, got: None, fetches: 0 });
                        r.len() - 1
                    };
                    let f0 = log.snapshot().iter().filter(|e| e.actor == name2 && e.kind == "GET").count() as u64;
                    let got = match op {
                        Op::Read { key, rd } => {
                            let etag = etags.get(&(key as usize)).cloned().unwrap_or_else(|| "0".into());
                            Some(issue(store.as_ref(), key as usize, rd, &etag).await)
                        }
                        Op::Put { key, size, .. } => {
                            let _ = store.put(&path(key as usize), PutPayload::from(content(key as usize, SIZES[size as usize]))).await;
                            None
                        }
                        _ => None,
                    };
                    let f1 = log.snapshot().iter().filter(|e| e.actor == name2 && e.kind == "GET").count() as u64;
                    let ret = clock.fetch_add(1, Ordering::SeqCst);
                    let mut r = recs.lock().unwrap();
                    r[slot].ret = Some(ret);
                    r[slot].got = got;
                    r[slot].fetches = f1 - f0;
                }
            });
        }
    }

    async fn step_check(&mut self, ctl: &Ctl) -> Vec<Violation> {
        let gets: Vec<GateInfo> = ctl.parked_infos().into_iter().filter(|g| g.kind == "GET").collect();
        if gets.len() >= 2 {
            self.concurrent_misses = true;
        }
        for (i, a) in gets.iter().enumerate() {
            if gets.iter().skip(i + 1).any(|b| b.what == a.what) {
                self.concurrent_same_key_miss = true;
            }
        }
        Vec::new()
    }

    fn extras(&self, _ctl: &Ctl) -> Vec<Extra> {
        if self.jumps < self.prog.clock_jumps {
            vec![Extra { label: "monotonic clock +1s".into(), cost: Cost { clock: 1, ..Cost::ZERO } }]
        } else {
            Vec::new()
        }
    }

    async fn apply_extra(&mut self, ctl: &Ctl, _x: &Extra) {
        self.jumps += 1;
        ctl.env().advance_mono_secs(1);
    }

    async fn finish(&mut self, ctl: &Ctl) -> Finish {
        let mut f = Finish::default();
        let unfinished = ctl.unfinished_actors();
        if !unfinished.is_empty() {
            f.violations.push(Violation { sig: "C16:conc:stuck".into(), msg: format!("readers never finished: {unfinished:?}") });
            return f;
        }
        for (a, m) in ctl.panics() {
            f.violations.push(Violation { sig: "C16:conc:panic".into(), msg: format!("actor {a} panicked: {}", short(&m)) });
        }
        let recs = self.recs.lock().unwrap().clone();
        let present = present_objects(&self.mem).await;
        let mut soft = Soft::default();
        let mut desc = Vec::new();
        let mut hits = 0;
        let mut total_fetches: BTreeMap<u8, u64> = BTreeMap::new();
        for r in &recs {
            if let (Op::Read { key, rd }, Some(got)) = (r.op, &r.got) {
                let k = key as usize;
                let etag = match self.mem.head(&path(k)).await {
                    Ok(m) => m.e_tag.unwrap_or_default(),
                    Err(_) => "0".into(),
                };
                // the object is write-once: what the backing store answers now is what it answered at any time the object existed
                let reference = CountingStore::new(self.mem.clone() as Arc<dyn ObjectStore>);
                let want = issue(reference.as_ref(), k, rd, &etag).await;
                // when was the object written? (None = preloaded or never)
                let put = recs.iter().find(|p| matches!(p.op, Op::Put { key: pk, .. } if pk == key));
                let preloaded = self.prog.init.iter().any(|(ik, _)| *ik == key);
                let existed_throughout = preloaded || put.map(|p| p.ret.unwrap_or(u64::MAX) < r.call).unwrap_or(false);
                let served = if got.is_ok() && rd.class() == "whole" {
                    if r.fetches == 0 {
                        hits += 1;
                        Served::L1
                    } else {
                        Served::Backing
                    }
                } else if got.is_ok() && r.fetches == 0 && rd != Rd::Head {
                    // answered without any backing-store request: only the cache can have done that
                    Served::L1
                } else {
                    Served::NoTier
                };
                // conditional requests built with a stale ETag guess (object written during the run) are not judged on the condition
                let cond_unknown = !preloaded && rd.class() == "conditional";
                let lenient_absent = got.is_err() && want.is_ok() && !existed_throughout;
                if !lenient_absent && !cond_unknown {
                    if let Some((sig, msg)) = judge(k, rd, got, &want, present.get(&k), served, &mut soft) {
                        f.violations.push(Violation { sig, msg: format!("{msg} [actor R{} op {}]", r.actor, r.idx) });
                    }
                }
                *total_fetches.entry(key).or_default() += r.fetches;
                desc.push(format!(
                    "R{}.{} {:?}({}) -> {} fetches={}",
                    r.actor,
                    r.idx,
                    rd,
                    KEYS[k],
                    match got {
                        Ok(a) => format!("ok[{}]", a.bytes.iter().map(|b| b.len()).sum::<usize>()),
                        Err((kd, _)) => kd.clone(),
                    },
                    r.fetches
                ));
            }
        }
        if hits > 0 {
            f.flags.push("served-from-cache".into());
        }
        if total_fetches.values().any(|n| *n >= 2) {
            f.flags.push("same-key-fetched-twice".into());
        }
        if self.concurrent_same_key_miss {
            f.flags.push("concurrent-misses-on-one-key".into());
        }
        if self.concurrent_misses {
            f.flags.push("concurrent-misses".into());
        }
        if self.jumps > 0 {
            f.flags.push("clock-jump".into());
        }
        if let Some(c) = &self.cache {
            let st = c.stats();
            if st.l1_hits > 0 {
                f.flags.push("l1-hit".into());
            }
        }
        f.flags.sort();
        f.flags.dedup();
        f.outcome = desc.join("; ");
        f
    }
}

pub fn conc_factory(prog: ConcProgram) -> ScenarioFactory {
    Arc::new(move || Box::new(ConcScenario::new(prog.clone())) as Box<dyn Scenario>)
}

pub fn conc_programs(tier: &str) -> Vec<ConcProgram> {
    let t = tier == "thorough";
    let g = |k: u8| Op::Read { key: k, rd: Rd::Get };
    let r = |k: u8, rd: Rd| Op::Read { key: k, rd };
    let mut shapes: Vec<(&str, Vec<(u8, u8)>, Vec<Vec<Op>>, u32)> = vec![
        ("same-key", vec![(0, 1)], vec![vec![g(0), g(0)], vec![g(0), g(0)]], 1),
        ("crossed-keys", vec![(0, 1), (1, 1)], vec![vec![g(0), g(1)], vec![g(1), g(0)]], 1),
        ("related-names-and-missing", vec![(0, 1), (1, 2)], vec![vec![g(2), g(0)], vec![g(1), g(2)]], 0),
        ("whole-vs-ranged", vec![(0, 1)], vec![vec![r(0, Rd::Range(1)), g(0)], vec![g(0), r(0, Rd::OptSuffix)]], 0),
        ("whole-vs-conditional", vec![(0, 1)], vec![vec![r(0, Rd::IfNoneMatchGood), g(0)], vec![g(0), r(0, Rd::IfMatchGood)]], 0),
        (
            "reader-vs-writer-of-new-object",
            vec![(0, 1)],
            vec![vec![g(1), g(1)], vec![Op::Put { key: 1, size: 1, via_wrapper: true }, g(1)]],
            0,
        ),
        ("mixed-sizes", vec![(0, 0), (1, 2)], vec![vec![g(0), g(1)], vec![g(1), g(0)]], 1),
    ];
    shapes.push(("3-readers-same-key", vec![(0, 1)], vec![vec![g(0), g(0)], vec![g(0), g(0)], vec![g(0), g(0)]], 0));
    if t {
        shapes.push(("3-readers-same-key+jump", vec![(0, 1)], vec![vec![g(0), g(0)], vec![g(0), g(0)], vec![g(0), g(0)]], 1));
        shapes.push((
            "3-readers-3-reads-rotating",
            vec![(0, 1), (1, 1), (2, 0)],
            vec![vec![g(0), g(1), g(2)], vec![g(1), g(2), g(0)], vec![g(2), g(0), g(1)]],
            1,
        ));
        shapes.push((
            "3-readers-all-request-kinds",
            vec![(0, 1), (1, 2)],
            vec![vec![g(0), r(1, Rd::Ranges)], vec![r(0, Rd::OptOffset), g(1)], vec![r(1, Rd::Head), r(0, Rd::GetOptsPlain), r(3, Rd::Get)]],
            1,
        ));
        shapes.push(("3-readers-rotating", vec![(0, 1), (1, 1), (2, 1)], vec![vec![g(0), g(1)], vec![g(1), g(2)], vec![g(2), g(0)]], 1));
        shapes.push((
            "3-readers-writer",
            vec![(0, 1)],
            vec![vec![g(1), g(0)], vec![g(0), g(1)], vec![Op::Put { key: 1, size: 1, via_wrapper: false }, g(1)]],
            0,
        ));
        shapes.push(("same-key-2-jumps", vec![(0, 1), (1, 1)], vec![vec![g(0), g(1), g(0)], vec![g(1), g(0), g(1)]], 2));
    }
    let l1s: Vec<usize> = if t { vec![0, 1, 100, 5000, MIB] } else { vec![0, 100, MIB] };
    let mut v = Vec::new();
    for (n, init, actors, jumps) in shapes {
        for l1 in &l1s {
            v.push(ConcProgram { name: format!("{n}/L1={l1}"), l1: *l1, init: init.clone(), actors: actors.clone(), clock_jumps: jumps });
        }
    }
    v
}

// ------------------------------------------------------------------------------------------------
// Entry points
// ------------------------------------------------------------------------------------------------

/// Panics that never reach a reader (foyer's background tasks) are observed, not judged: count them
/// and keep the first message.
static BG_PANICS: AtomicU64 = AtomicU64::new(0);
static BG_PANIC_MSG: Mutex<Option<String>> = Mutex::new(None);

fn install_panic_observer() {
    let prev = std::panic::take_hook();
    std::panic::set_hook(Box::new(move |info| {
        BG_PANICS.fetch_add(1, Ordering::SeqCst);
        if let Ok(mut g) = BG_PANIC_MSG.try_lock() {
            if g.is_none() {
                let payload = if let Some(s) = info.payload().downcast_ref::<&str>() {
                    s.to_string()
                } else if let Some(s) = info.payload().downcast_ref::<String>() {
                    s.clone()
                } else {
                    "?".to_string()
                };
                let loc = info.location().map(|l| format!("{}:{}", l.file().rsplit('/').take(3).collect::<Vec<_>>().into_iter().rev().collect::<Vec<_>>().join("/"), l.line())).unwrap_or_default();
                *g = Some(short(&format!("{loc}: {payload}")));
            }
        }
        prev(info);
    }));
}

pub fn run(tier: &str) -> i32 {
    let mut rep = Report::new("C16", tier, "model_checking");
    let t = tier == "thorough";
    let t0 = Instant::now();
    // soft wall cap for part (a) (a normal run needs a fraction of it); a capped run is reported as not exhaustive
    let deadline = t0 + Duration::from_secs(if t { 2700 } else { 150 });
    install_panic_observer();

    rep.assume("backing store = object_store::memory::InMemory; the oracle is the answer to the identical request issued through a do-nothing forwarding wrapper around the same backing store (so trait-default methods such as get_ranges / head take the same route), right after the wrapper's answer (sequential part) or at the end of the run (concurrent part: objects are write-once, so the answer does not depend on when it is asked; a read that failed is accepted when the object's PUT had not returned before the read was issued)");
    rep.assume("a read that must fail may fail with any error kind (the wrapper reports NotFound of a whole-object read as Generic); counted in coverage.sequential.error_kind_differs, not judged");
    rep.assume("whether an answer that took the cache path honours if_modified_since / if_unmodified_since is not judged when the bytes returned are exactly the object's bytes (coverage.sequential.precondition_ignored): the property speaks of bytes");
    rep.assume("time passing (which lets moka run its pending admission / eviction work on the next access) is modelled by 1-second jumps of the interposed monotonic clock between operations; moka and foyer are the real crates, exercised, not modelled; 64-bit key-hash collisions inside foyer are out of reach");
    rep.assume("disk-tier (foyer) configurations: sequential histories only, on a fresh paused current-thread runtime per history; foyer's I/O runs on the runtime's blocking threads, so whether a read is answered by foyer's memory tier, its write buffer or the disk can vary with thread timing (the hit counters of those spaces may differ slightly between runs; the verdict of each read does not depend on it); 'Settle' = one virtual second, which only elapses once the runtime is idle and no blocking I/O is in flight");
    rep.assume("concurrent part: L1-only configurations; scheduling points are the backing-store requests (GET / PUT / HEAD) and the clock jumps; everything a task does between two of them is one atomic step (single-threaded runtime): moka's internal thread-safety under true parallelism is trusted");
    rep.assume("delete / rename through the wrapper are outside the quantifier (growing key set): they are explored sequentially as an extension (spaces ext-*) because the anchor names them, and a wrong answer for an object the history itself deleted / renamed away is reported under coverage.observations, not as a violation; deletes that bypass the wrapper and concurrent deletes are not explored");
    rep.assume("of the ObjectMeta returned with a read only size and location are compared (on a cache hit the wrapper fabricates last_modified = now, e_tag = None, version = None)");

    // ---- part (a)
    let mut total = Agg::default();
    let mut space_summ = Vec::new();
    let mut l2_histories = 0u64;
    for sp in spaces(tier) {
        let s0 = Instant::now();
        let a = explore_space(&sp, deadline);
        let wall = s0.elapsed().as_secs_f64();
        println!(
            "  C16 (a) {:<34} depth={} cfgs={:<2} preloads={} histories={:<9} tree-edges={:<9} states={:<5} hits L1={} L2={} (disk {}) evicted-then-refetched={} promoted={} missing-reads={} pass-through-reads={} {:.1}s{}",
            sp.name,
            sp.depth,
            sp.cfgs.len(),
            sp.inits.len(),
            a.executions,
            a.tree_edges,
            a.states.len(),
            a.l1_hits,
            a.l2_hits,
            a.l2_disk_hits,
            a.refetch_after_cached,
            a.promotions,
            a.missing_reads,
            a.bypass_reads,
            wall,
            if a.capped { " CAPPED" } else { "" }
        );
        if sp.cfgs.iter().any(|c| c.l2.is_some()) {
            l2_histories += a.executions;
        }
        space_summ.push(json!({
            "space": sp.name, "depth": sp.depth, "configurations": sp.cfgs,
            "preloaded": sp.inits.iter().map(|i| i.iter().map(|(k, s)| (KEYS[*k as usize], SIZES[*s as usize])).collect::<Vec<_>>()).collect::<Vec<_>>(),
            "alphabet": {"keys": &KEYS[..sp.alpha.nkeys], "put_sizes": sp.alpha.put_sizes.iter().map(|s| SIZES[*s as usize]).collect::<Vec<_>>(), "put_via_wrapper": sp.alpha.put_via,
                         "reads": sp.alpha.rds.iter().map(|r| format!("{r:?}")).collect::<Vec<_>>(), "tick": sp.alpha.tick, "settle": sp.alpha.settle, "delete": sp.alpha.delete, "rename": sp.alpha.rename},
            "histories": a.executions, "tree_edges": a.tree_edges, "states": a.states.len(), "completed": !a.capped,
            "l1_hits": a.l1_hits, "l2_hits": a.l2_hits, "l2_hits_from_disk": a.l2_disk_hits, "evicted_then_refetched": a.refetch_after_cached, "promotions": a.promotions,
            "wall_s": (wall * 100.0).round() / 100.0,
        }));
        if ["whole-reads/preloaded", "disk-tier/preloaded/L1=100", "all-requests/from-empty"].contains(&sp.name.as_str()) {
            for smp in a.samples.iter().take(1) {
                rep.push_sample(smp.clone());
            }
        }
        total.merge(a);
    }
    let _ = std::fs::remove_dir_all(l2_base());
    rep.add_u64("evaluations", total.executions);
    rep.add_u64("executions", total.executions);
    rep.add_u64("traces_validated_against_impl", total.executions);
    rep.add_u64("states", total.states.len() as u64);
    rep.add_u64("transitions", total.tree_edges);
    rep.set("history_operations_executed", total.ops_executed);
    rep.set("history_spaces", json!(space_summ));
    rep.set(
        "sequential",
        json!({
            "histories": total.executions, "histories_on_disk_tier_configurations": l2_histories,
            "histories_with_a_read_served_by_a_cache_tier": total.nontrivial,
            "l1_hits": total.l1_hits, "l2_hits": total.l2_hits, "l2_hits_after_settle_of_objects_too_big_for_foyer_memory_ie_from_disk": total.l2_disk_hits,
            "reads_fetched_from_backing": total.backing_fetches, "evicted_or_rejected_then_refetched": total.refetch_after_cached,
            "l2_hit_then_l1_hit_promotions": total.promotions, "reads_of_missing_objects": total.missing_reads,
            "pass_through_reads": total.bypass_reads, "refetches_of_objects_larger_than_l1": total.not_retained,
            "error_kind_differs": total.soft.error_kind_differs, "precondition_ignored": total.soft.precondition_ignored,
        }),
    );
    for (sig, (_, msg, rp, n)) in &total.violations {
        rep.violation_n(sig, msg, rp.clone(), *n);
    }
    for m in &total.machinery {
        rep.machinery(m.clone());
    }
    let mut ext_obs = Vec::new();
    for (sig, (_, msg, rp, n)) in &total.ext_observations {
        println!("  C16 note (not judged, outside the quantifier): {sig} x{n}\n      {}", msg.replace('\n', "\n      "));
        ext_obs.push(json!({"sig": sig, "count": n, "what": msg, "replay": rp}));
    }
    if total.capped {
        rep.set("exhaustive", false);
        rep.set("not_exhaustive_because", "the wall cap of part (a) was reached: spaces marked completed=false in history_spaces were cut short");
    }
    let mut distinct_nontrivial = total.nontrivial;
    let bg_after_a = BG_PANICS.load(Ordering::SeqCst);

    // ---- part (b)
    let mut flags_seen: BTreeSet<String> = BTreeSet::new();
    let only = std::env::var("VERIF_C16_ONLY").is_ok();
    for prog in conc_programs(tier) {
        if only {
            break;
        }
        let cfg = ExploreConfig {
            bounds: Cost { preempt: 1000, clock: prog.clock_jumps, ..Cost::ZERO },
            use_cache: false,
            wall_cap: Duration::from_secs(if t { 600 } else { 60 }),
            selftest: 2,
            ..Default::default()
        };
        let st = explore(conc_factory(prog.clone()), &cfg);
        for k in st.flags.keys() {
            flags_seen.insert(k.clone());
        }
        println!(
            "  C16 (b) {:<44} interleavings={:<6} depth={:<3} outcomes={:<4} {:.1}s{}",
            prog.name,
            st.executions,
            st.max_depth,
            st.outcomes.len(),
            st.wall_s,
            if st.capped { " CAPPED" } else { "" }
        );
        distinct_nontrivial += st.outcomes.len() as u64;
        rep.absorb_explore(&prog.name, &serde_json::to_value(&prog).unwrap(), &st, cfg.bounds);
    }
    rep.set("concurrent_flags_seen", json!(flags_seen));
    rep.set("distinct_nontrivial", distinct_nontrivial);
    rep.set("rule", "part (a): for every configuration (L1 bytes, disk-tier bytes or none) and preloaded content of a space, every operation sequence of the stated depth over the space's alphabet (history_spaces) is executed on freshly built TieredCache + CachedObjectStore + InMemory, and after every operation the wrapper's answer is compared with the backing store's answer to the same request; a history counts as non-trivial when at least one of its reads was answered by a cache tier (the L1 / L2 hit counters of the real TieredCache moved); states = distinct (configuration, backing content, L1 weighted size, last serving tier per key) tuples, transitions = edges of the history trees. part (b): every interleaving of the actors' backing-store requests (plus the stated number of 1 s clock jumps) under the controlled scheduler; non-trivial = distinct outcomes (per-read result and whether it needed a backing fetch)");
    let bg = BG_PANICS.load(Ordering::SeqCst);
    rep.set(
        "observations",
        json!({
            "after_delete_or_rename_through_the_wrapper": ext_obs,
            "after_delete_note": "spaces ext-*: histories that also delete / rename objects through the wrapper. The property quantifies over growing key sets, so a wrong answer for an object the history itself removed is recorded here (with a replay) and is not a verdict; set VERIF_C16_EXT_STRICT=1 to judge it (signature prefix C16:ext-after-delete:).",
            "panics_observed_in_total": bg,
            "panics_during_sequential_part": bg_after_a,
            "first_panic_message": BG_PANIC_MSG.lock().map(|g| g.clone()).unwrap_or(None),
            "note": "panics that reach a reader are violations (C16:panic); the ones counted here beyond that happen in foyer's background flusher task when an object is larger than one disk-tier region (min(l2_size, 64 MiB)): the reader still gets the right bytes, the disk tier silently stops persisting. Not part of C16.",
        }),
    );

    // ---- vacuity guards
    if !only {
        if total.l1_hits == 0 || total.l2_hits == 0 {
            rep.machinery("vacuity guard: no read was ever served from L1 / from L2");
        }
        if total.l2_disk_hits == 0 {
            rep.machinery("vacuity guard: no L2 hit that can only have come from the disk");
        }
        if total.refetch_after_cached == 0 {
            rep.machinery("vacuity guard: no object was ever evicted (or refused) and fetched again");
        }
        if total.promotions == 0 {
            rep.machinery("vacuity guard: no L2 hit was ever followed by an L1 hit of the same key (promotion)");
        }
        if total.not_retained == 0 {
            rep.machinery("vacuity guard: no object larger than L1 was read twice");
        }
        if total.missing_reads == 0 || total.bypass_reads == 0 {
            rep.machinery("vacuity guard: no read of a missing object / no pass-through read");
        }
        for need in ["concurrent-misses-on-one-key", "concurrent-misses", "served-from-cache", "same-key-fetched-twice", "clock-jump"] {
            if !flags_seen.contains(need) {
                rep.machinery(format!("vacuity guard: concurrent part never observed '{need}'"));
            }
        }
    }
    rep.finish()
}

pub fn replay(v: &Value) -> i32 {
    if v["kind"] == "schedule" {
        let prog: ConcProgram = serde_json::from_value(v["params"].clone()).expect("params");
        return super::replay_schedule(conc_factory(prog), v);
    }
    let cfg: Cfg = serde_json::from_value(v["cfg"].clone()).expect("cfg");
    let init: Vec<(u8, u8)> = serde_json::from_value(v["init"].clone()).expect("init");
    let ops: Vec<Op> = serde_json::from_value(v["ops"].clone()).expect("ops");
    let h = std::thread::spawn(move || {
        let mut rt = new_rt();
        let r = execute(&mut rt, &cfg, &init, &ops);
        let _ = std::fs::remove_dir_all(l2_base());
        r
    })
    .join()
    .expect("replay thread");
    println!("configuration {:?}, preloaded {:?}", v["cfg"], v["init"]);
    for s in &h.steps {
        println!("  {:?} -> {} served-by={} backing-GETs={}", s.op, s.result, s.served.tag(), s.backing_gets);
    }
    if let Some(m) = &h.machinery {
        println!("MACHINERY: {m}");
        return 2;
    }
    let ops: Vec<Op> = serde_json::from_value(v["ops"].clone()).expect("ops");
    let mut verdicts = 0;
    for (i, sig, msg) in &h.violations {
        if removed_here(&ops, *i) && !ext_strict() {
            println!("observation at step {i}, not judged (object removed through the wrapper: outside the quantifier) [{}]: {msg}", sig.replacen("C16:", "C16:ext-after-delete:", 1));
        } else {
            verdicts += 1;
            println!("violation at step {i} [{sig}]: {msg}");
        }
    }
    if verdicts == 0 {
        println!("no violation on this history");
        0
    } else {
        1
    }
}
