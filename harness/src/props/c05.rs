//! C05 — WAL recovery is exact under torn writes; sequence numbers never regress.
//! Engine B (explicit-state search over operation histories on the real WriteAheadLog) with
//! crash images derived from directory snapshots, plus an every-byte sweep of the last crash.

use crate::engine::report::Report;
use arrow_array::{Int64Array, RecordBatch};
use arrow_schema::{DataType, Field, Schema};
use cardinalsin::ingester::{load_flushed_seq, persist_flushed_seq, WalConfig, WalSyncMode, WriteAheadLog};
use serde_json::json;
use std::collections::{BTreeMap, BTreeSet, HashSet};
use std::path::{Path, PathBuf};
use std::sync::atomic::{AtomicU64, Ordering};
use std::sync::{Arc, Mutex};

type Image = BTreeMap<String, Vec<u8>>;

#[derive(Debug, Clone, PartialEq, Eq, Hash, serde::Serialize, serde::Deserialize)]
pub enum Cut {
    /// append: bytes of (header ++ payload) that reached the file; `created` tells whether a freshly
    /// rotated segment file exists (only meaningful for a rotating append with 0 bytes)
    Append { bytes: usize, created: bool },
    /// truncate: number of segment files already removed
    Truncate { removed: usize },
    /// flushed_seq write: None = old content, Some(n) = first n bytes of the new content
    Persist { new_bytes: Option<usize> },
}

#[derive(Debug, Clone, PartialEq, Eq, Hash, serde::Serialize, serde::Deserialize)]
pub enum Op {
    /// append a batch of `rows` rows
    Append(usize),
    /// truncate_before(max acknowledged seq + delta)
    Truncate(u64),
    /// persist_flushed_seq(max acknowledged seq)
    Persist,
    /// clean restart: drop the instance, open again
    Reopen,
    /// the process dies during `op`, leaving the directory as described by `cut`; then restart
    Crash(Box<Op>, Cut),
}

#[derive(Debug, Clone, Default, PartialEq, Eq, Hash)]
struct Model {
    /// every completely written entry: seq -> payload row count marker
    written: BTreeMap<u64, usize>,
    /// highest sequence number ever returned by append()
    acked_max: u64,
    /// entries with seq >= min_keep have never been subject to truncation and must be readable
    min_keep: u64,
}

fn batch(rows: usize, tag: i64) -> RecordBatch {
    let schema = Arc::new(Schema::new(vec![Field::new("v", DataType::Int64, false)]));
    let a = Int64Array::from((0..rows as i64).map(|i| tag * 1000 + i).collect::<Vec<_>>());
    RecordBatch::try_new(schema, vec![Arc::new(a)]).unwrap()
}

fn snapshot(dir: &Path) -> Image {
    let mut m = Image::new();
    if let Ok(rd) = std::fs::read_dir(dir) {
        for e in rd.flatten() {
            if let Ok(b) = std::fs::read(e.path()) {
                m.insert(e.file_name().to_string_lossy().to_string(), b);
            }
        }
    }
    m
}

fn materialize(dir: &Path, img: &Image) {
    let _ = std::fs::remove_dir_all(dir);
    std::fs::create_dir_all(dir).unwrap();
    for (n, b) in img {
        std::fs::write(dir.join(n), b).unwrap();
    }
}

struct World {
    dir: PathBuf,
    cfg: WalConfig,
    wal: Option<WriteAheadLog>,
    model: Model,
    /// number of appends so far (payload tag)
    tag: i64,
}

#[derive(Debug, Clone)]
struct Fail {
    sig: String,
    msg: String,
}

static DIR_CTR: AtomicU64 = AtomicU64::new(0);

fn scratch_root() -> PathBuf {
    let base = if Path::new("/dev/shm").is_dir() { PathBuf::from("/dev/shm") } else { std::env::temp_dir() };
    base.join(format!("csverif-{}", std::process::id()))
}

impl World {
    async fn new(max_segment_size: usize) -> Result<Self, Fail> {
        let dir = scratch_root().join(format!("c05-{}", DIR_CTR.fetch_add(1, Ordering::SeqCst)));
        let _ = std::fs::remove_dir_all(&dir);
        let cfg = WalConfig { wal_dir: dir.clone(), max_segment_size, sync_mode: WalSyncMode::EveryWrite, enabled: true };
        let mut w = World { dir, cfg, wal: None, model: Model::default(), tag: 0 };
        w.open().await?;
        Ok(w)
    }

    async fn open(&mut self) -> Result<(), Fail> {
        self.wal = None;
        match WriteAheadLog::open(self.cfg.clone()).await {
            Ok(w) => {
                self.wal = Some(w);
                self.check_read("after open")
            }
            Err(e) => Err(Fail { sig: "C05:open-fails".into(), msg: format!("WriteAheadLog::open failed: {e}") }),
        }
    }

    /// read_entries() = exactly the completely written entries, in order, each once
    fn check_read(&self, when: &str) -> Result<(), Fail> {
        let wal = self.wal.as_ref().unwrap();
        let entries = match std::panic::catch_unwind(std::panic::AssertUnwindSafe(|| wal.read_entries())) {
            Ok(Ok(e)) => e,
            Ok(Err(e)) => return Err(Fail { sig: "C05:read-fails".into(), msg: format!("{when}: read_entries failed: {e}") }),
            Err(_) => return Err(Fail { sig: "C05:read-panics".into(), msg: format!("{when}: read_entries panicked") }),
        };
        let mut prev = 0u64;
        let mut seen = BTreeSet::new();
        for e in &entries {
            if e.seq <= prev {
                return Err(Fail {
                    sig: "C05:order-or-duplicate".into(),
                    msg: format!("{when}: sequence numbers returned {:?} are not strictly increasing", entries.iter().map(|e| e.seq).collect::<Vec<_>>()),
                });
            }
            prev = e.seq;
            seen.insert(e.seq);
            let rows = match e.batches() {
                Ok(b) => b.iter().map(|b| b.num_rows()).sum::<usize>(),
                Err(err) => return Err(Fail { sig: "C05:corrupt-entry-returned".into(), msg: format!("{when}: entry seq {} does not decode: {err}", e.seq) }),
            };
            match self.model.written.get(&e.seq) {
                Some(r) if *r == rows => {}
                other => {
                    return Err(Fail {
                        sig: "C05:phantom-or-wrong-entry".into(),
                        msg: format!("{when}: entry seq {} with {rows} rows returned, but the completely written entry with that seq is {other:?}", e.seq),
                    })
                }
            }
        }
        // read_entries_after(k) (the replay reader the ingester uses) = the entries above k of the same list, for
        // every k from 0 to one past the newest entry
        let all: Vec<u64> = entries.iter().map(|e| e.seq).collect();
        let top = all.last().copied().unwrap_or(0) + 1;
        for k in 0..=top {
            let got = match std::panic::catch_unwind(std::panic::AssertUnwindSafe(|| wal.read_entries_after(k))) {
                Ok(Ok(e)) => e,
                Ok(Err(e)) => return Err(Fail { sig: "C05:read-after-fails".into(), msg: format!("{when}: read_entries_after({k}) failed: {e}") }),
                Err(_) => return Err(Fail { sig: "C05:read-after-panics".into(), msg: format!("{when}: read_entries_after({k}) panicked") }),
            };
            let got_seqs: Vec<u64> = got.iter().map(|e| e.seq).collect();
            let want: Vec<u64> = all.iter().copied().filter(|s| *s > k).collect();
            if got_seqs != want {
                return Err(Fail {
                    sig: "C05:read-after-disagrees-with-read-all".into(),
                    msg: format!("{when}: read_entries_after({k}) returns {got_seqs:?}, read_entries() returns {all:?} (so {want:?} was expected)"),
                });
            }
            for (a, b) in got.iter().zip(entries.iter().filter(|e| e.seq > k)) {
                if a.batches().map(|b| b.iter().map(|b| b.num_rows()).sum::<usize>()).ok() != b.batches().map(|b| b.iter().map(|b| b.num_rows()).sum::<usize>()).ok() {
                    return Err(Fail { sig: "C05:read-after-disagrees-with-read-all".into(), msg: format!("{when}: read_entries_after({k}) returns another payload for seq {} than read_entries()", a.seq) });
                }
            }
        }
        for (s, _) in self.model.written.range(self.model.min_keep..) {
            if !seen.contains(s) {
                return Err(Fail {
                    sig: "C05:complete-entry-not-recovered".into(),
                    msg: format!(
                        "{when}: completely written entry seq {s} (never truncated; truncation point {}) is not returned; returned {:?}",
                        self.model.min_keep,
                        entries.iter().map(|e| e.seq).collect::<Vec<_>>()
                    ),
                });
            }
        }
        Ok(())
    }

    async fn do_append(&mut self, rows: usize) -> Result<u64, Fail> {
        // payload identity is a function of the reference state, so that equal states have equal futures
        self.tag = self.model.acked_max as i64 + 1 + self.model.written.len() as i64 * 7;
        let b = batch(rows, self.tag);
        let wal = self.wal.as_mut().unwrap();
        match wal.append(&b).await {
            Ok(seq) => {
                if seq <= self.model.acked_max {
                    return Err(Fail {
                        sig: "C05:sequence-regressed".into(),
                        msg: format!("append was given sequence number {seq}, but {} had already been acknowledged", self.model.acked_max),
                    });
                }
                if let Some(_old) = self.model.written.get(&seq) {
                    // an unacknowledged complete entry (written right before a crash) keeps its number
                    return Err(Fail {
                        sig: "C05:sequence-reused-for-complete-entry".into(),
                        msg: format!("append was given sequence number {seq}, which a completely written (recoverable) entry already carries"),
                    });
                }
                self.model.written.insert(seq, rows);
                self.model.acked_max = seq;
                Ok(seq)
            }
            Err(e) => Err(Fail { sig: "C05:append-fails".into(), msg: format!("append failed: {e}") }),
        }
    }

    async fn do_truncate(&mut self, delta: u64) -> Result<(), Fail> {
        let k = self.model.acked_max + delta;
        self.model.min_keep = self.model.min_keep.max(k);
        let wal = self.wal.as_mut().unwrap();
        wal.truncate_before(k).await.map_err(|e| Fail { sig: "C05:truncate-fails".into(), msg: format!("truncate_before({k}) failed: {e}") })
    }

    fn do_persist(&mut self) -> Result<(), Fail> {
        persist_flushed_seq(&self.dir, self.model.acked_max).map_err(|e| Fail { sig: "C05:persist-fails".into(), msg: e.to_string() })?;
        match load_flushed_seq(&self.dir) {
            Ok(v) if v == self.model.acked_max => Ok(()),
            other => Err(Fail { sig: "C05:flushed-seq-roundtrip".into(), msg: format!("persisted {} but loaded {other:?}", self.model.acked_max) }),
        }
    }

    /// Run `op` to completion on the live instance and return (before, after) directory images.
    async fn run_for_diff(&mut self, op: &Op) -> Result<(Image, Image, Model), Fail> {
        let before = snapshot(&self.dir);
        let model_before = self.model.clone();
        match op {
            Op::Append(r) => {
                self.do_append(*r).await?;
            }
            Op::Truncate(d) => self.do_truncate(*d).await?,
            Op::Persist => self.do_persist()?,
            _ => unreachable!(),
        }
        Ok((before, snapshot(&self.dir), model_before))
    }

    /// All crash cuts of `op` from the current state: (cut, image, model after the crash).
    /// `every_byte` = every byte offset, else only the structural ones.
    async fn crash_images(&mut self, op: &Op, every_byte: bool) -> Result<Vec<(Cut, Image, Model)>, Fail> {
        let (before, after, model_before) = self.run_for_diff(op).await?;
        let model_after = self.model.clone();
        let mut out = Vec::new();
        match op {
            Op::Append(_) => {
                // exactly one file grew or appeared
                let mut target = None;
                for (n, b) in &after {
                    match before.get(n) {
                        None => target = Some((n.clone(), 0usize, b.clone(), true)),
                        Some(old) if old.len() < b.len() => target = Some((n.clone(), old.len(), b.clone(), false)),
                        _ => {}
                    }
                }
                let (name, old_len, full, rotated) = target.ok_or_else(|| Fail { sig: "C05:append-wrote-nothing".into(), msg: "append changed no file".into() })?;
                let n = full.len() - old_len;
                let mut offs: BTreeSet<usize> = BTreeSet::new();
                if every_byte {
                    offs.extend(0..=n);
                } else {
                    offs.extend([0, 10.min(n), 22.min(n), 23.min(n), (22 + (n.saturating_sub(22)) / 2).min(n), n - 1, n]);
                }
                for o in offs {
                    let variants: Vec<bool> = if rotated && o == 0 { vec![false, true] } else { vec![true] };
                    for created in variants {
                        let mut img = before.clone();
                        if !(rotated && !created) {
                            img.insert(name.clone(), full[..old_len + o].to_vec());
                        }
                        let mut m = model_before.clone();
                        if o == n {
                            // completely written, never acknowledged
                            m.written = model_after.written.clone();
                        }
                        out.push((Cut::Append { bytes: o, created: rotated && created }, img, m));
                    }
                }
            }
            Op::Truncate(_) => {
                let removed: Vec<String> = before.keys().filter(|k| !after.contains_key(*k)).cloned().collect();
                for j in 0..=removed.len() {
                    let mut img = before.clone();
                    for r in removed.iter().take(j) {
                        img.remove(r);
                    }
                    out.push((Cut::Truncate { removed: j }, img, model_after.clone()));
                }
            }
            Op::Persist => {
                let newb = after.get("flushed_seq").cloned().unwrap_or_default();
                out.push((Cut::Persist { new_bytes: None }, before.clone(), model_after.clone()));
                let lens: Vec<usize> = if every_byte { (0..=newb.len()).collect() } else { vec![0, 4, newb.len()] };
                for l in lens {
                    let mut img = before.clone();
                    img.insert("flushed_seq".into(), newb[..l.min(newb.len())].to_vec());
                    out.push((Cut::Persist { new_bytes: Some(l) }, img, model_after.clone()));
                }
            }
            _ => unreachable!(),
        }
        Ok(out)
    }

    async fn apply(&mut self, op: &Op) -> Result<(), Fail> {
        match op {
            Op::Append(r) => {
                self.do_append(*r).await?;
                self.check_read("after append")
            }
            Op::Truncate(d) => {
                self.do_truncate(*d).await?;
                self.check_read("after truncate")
            }
            Op::Persist => self.do_persist(),
            Op::Reopen => self.open().await,
            Op::Crash(inner, cut) => {
                let imgs = self.crash_images(inner, true).await?;
                let (_, img, model) = imgs
                    .into_iter()
                    .find(|(c, _, _)| c == cut)
                    .ok_or_else(|| Fail { sig: "C05:machinery-cut-missing".into(), msg: format!("cut {cut:?} does not exist for {inner:?} here") })?;
                self.wal = None;
                materialize(&self.dir, &img);
                self.model = model;
                self.open().await
            }
        }
    }

    fn key(&self) -> (Image, Model, u64) {
        (snapshot(&self.dir), self.model.clone(), self.wal.as_ref().map(|w| w.next_seq()).unwrap_or(0))
    }
}

impl Drop for World {
    fn drop(&mut self) {
        self.wal = None;
        let _ = std::fs::remove_dir_all(&self.dir);
    }
}

async fn replay_history(seg: usize, hist: &[Op]) -> (Option<World>, Option<(usize, Fail)>) {
    let mut w = match World::new(seg).await {
        Ok(w) => w,
        Err(f) => return (None, Some((0, f))),
    };
    for (i, op) in hist.iter().enumerate() {
        if let Err(f) = w.apply(op).await {
            return (Some(w), Some((i, f)));
        }
    }
    (Some(w), None)
}

/// After a crash image has been installed: reopen, check, append one more entry, reopen, check.
async fn probe_recovery(seg: usize, img: &Image, model: &Model, tag: i64) -> Result<(), Fail> {
    let dir = scratch_root().join(format!("c05p-{}", DIR_CTR.fetch_add(1, Ordering::SeqCst)));
    materialize(&dir, img);
    let cfg = WalConfig { wal_dir: dir.clone(), max_segment_size: seg, sync_mode: WalSyncMode::EveryWrite, enabled: true };
    let mut w = World { dir, cfg, wal: None, model: model.clone(), tag };
    w.open().await?;
    w.do_append(1).await?;
    w.check_read("after reopen + append")?;
    w.open().await.map_err(|f| Fail { sig: format!("{}@second-reopen", f.sig), msg: format!("entry acknowledged after the first reopen: {}", f.msg) })?;
    // flushed_seq must load without error whatever its state
    if let Err(e) = load_flushed_seq(&w.dir) {
        return Err(Fail { sig: "C05:load-flushed-seq-fails".into(), msg: e.to_string() });
    }
    // what the ingester does on start-up when everything in the log is flushed: reopen, truncate below the next
    // sequence number, and - after another restart - carry on numbering. Run from the images whose newest segment
    // holds no complete entry (the states in which truncation has to decide which segment keeps the numbering alive).
    let newest_short = img.iter().filter(|(n, _)| n.starts_with("segment-")).next_back().map(|(_, b)| b.len() < 64).unwrap_or(false);
    if newest_short {
        let dir2 = scratch_root().join(format!("c05q-{}", DIR_CTR.fetch_add(1, Ordering::SeqCst)));
        materialize(&dir2, img);
        let cfg2 = WalConfig { wal_dir: dir2.clone(), max_segment_size: seg, sync_mode: WalSyncMode::EveryWrite, enabled: true };
        let mut w2 = World { dir: dir2, cfg: cfg2, wal: None, model: model.clone(), tag };
        let tagsig = |f: Fail| Fail { sig: format!("{}@reopen+truncate", f.sig), msg: format!("after reopen + truncate_before(next): {}", f.msg) };
        w2.open().await.map_err(tagsig)?;
        w2.do_truncate(1).await.map_err(tagsig)?;
        w2.open().await.map_err(tagsig)?;
        w2.do_append(1).await.map_err(tagsig)?;
        w2.check_read("after reopen + truncate + reopen + append").map_err(tagsig)?;
        let _ = std::fs::remove_dir_all(&w2.dir);
    }
    Ok(())
}

#[derive(Default)]
struct Stats {
    histories: u64,
    states: u64,
    transitions: u64,
    probes: u64,
    torn_probes: u64,
    max_depth: usize,
    capped: bool,
    fails: BTreeMap<String, (String, serde_json::Value, u64)>,
}

fn alphabet() -> Vec<Op> {
    vec![Op::Append(1), Op::Append(40), Op::Truncate(0), Op::Truncate(1), Op::Persist, Op::Reopen]
}

fn crashable() -> Vec<Op> {
    vec![Op::Append(1), Op::Append(40), Op::Truncate(1), Op::Persist]
}

fn explore_config(seg: usize, depth: usize, max_crashes: usize, every_byte_inner: bool, wall_cap: std::time::Duration) -> Stats {
    let t0 = std::time::Instant::now();
    let stats = Arc::new(Mutex::new(Stats::default()));
    let seen: Arc<Mutex<HashSet<u64>>> = Arc::new(Mutex::new(HashSet::new()));
    let workers = crate::engine::sched::default_workers();
    // level-synchronous BFS: a state is first reached at its minimal depth, so deduplication never
    // cuts an expansion short
    let mut frontier: Vec<Vec<Op>> = vec![vec![]];
    let mut level = 0usize;
    while !frontier.is_empty() {
        let next_frontier: Arc<Mutex<Vec<Vec<Op>>>> = Arc::new(Mutex::new(Vec::new()));
        let idx = Arc::new(AtomicU64::new(0));
        let frontier_ref = &frontier;
        std::thread::scope(|s| {
            for _ in 0..workers {
                let stats = stats.clone();
                let seen = seen.clone();
                let next_frontier = next_frontier.clone();
                let idx = idx.clone();
                s.spawn(move || {
                    let rt = tokio::runtime::Builder::new_current_thread().enable_all().build().unwrap();
                    loop {
                        let i = idx.fetch_add(1, Ordering::SeqCst) as usize;
                        if i >= frontier_ref.len() {
                            return;
                        }
                        if t0.elapsed() > wall_cap {
                            stats.lock().unwrap().capped = true;
                            return;
                        }
                        let hist = frontier_ref[i].clone();
                        rt.block_on(async {
                            let (w, fail) = replay_history(seg, &hist).await;
                            let mut st_local = Stats::default();
                            st_local.histories = 1;
                            st_local.max_depth = hist.len();
                            let mut succ: Vec<Vec<Op>> = Vec::new();
                            if let Some((i, f)) = fail {
                                st_local.fails.insert(f.sig.clone(), (f.msg.clone(), json!({"kind":"history","segment_limit":seg,"history":hist[..=i.min(hist.len().saturating_sub(1))].to_vec()}), 1));
                            } else if let Some(w) = w {
                                // the crash budget already used is part of the search state
                                let crashes_used = hist.iter().filter(|o| matches!(o, Op::Crash(..))).count();
                                let k = crate::props::common::hash_of(&(w.key(), crashes_used.min(max_crashes)));
                                let fresh = seen.lock().unwrap().insert(k);
                                if fresh {
                                    st_local.states = 1;
                                    if std::env::var("VERIF_C05_DEBUG").is_ok() {
                                        let k3 = w.key();
                                        eprintln!("STATE {:?} model={:?} next={} {k:x}", k3.0.iter().map(|(n, b)| format!("{n}:{}:{:x}", b.len(), crate::props::common::hash_bytes(b))).collect::<Vec<_>>(), k3.1, k3.2);
                                    }
                                    let crashes = hist.iter().filter(|o| matches!(o, Op::Crash(..))).count();
                                    // every-byte sweep of a crash in each crashable operation from this state
                                    // (the crash is the last operation of a history of length <= depth)
                                    // (every byte when the crash is the last operation of a history of length <= depth;
                                    // structural cuts only from the deepest states)
                                    for op in crashable() {
                                        let (w2, _) = replay_history(seg, &hist).await;
                                        let Some(mut w2) = w2 else { continue };
                                        match w2.crash_images(&op, hist.len() < depth).await {
                                            Ok(imgs) => {
                                                for (cut, img, model) in imgs {
                                                    st_local.probes += 1;
                                                    if matches!(cut, Cut::Append { bytes, .. } if bytes > 0) {
                                                        st_local.torn_probes += 1;
                                                    }
                                                    if let Err(f) = probe_recovery(seg, &img, &model, w2.tag + 100).await {
                                                        let mut h = hist.clone();
                                                        h.push(Op::Crash(Box::new(op.clone()), cut.clone()));
                                                        let sig = format!("{}@crash-in-{}", f.sig, match op { Op::Append(_) => "append", Op::Truncate(_) => "truncate", _ => "persist" });
                                                        let e = st_local.fails.entry(sig).or_insert((f.msg.clone(), json!({"kind":"history","segment_limit":seg,"history":h,"then":"reopen, append, reopen"}), 0));
                                                        e.2 += 1;
                                                    }
                                                }
                                            }
                                            Err(f) => {
                                                let e = st_local.fails.entry(f.sig.clone()).or_insert((f.msg.clone(), json!({"kind":"history","segment_limit":seg,"history":hist,"next":op}), 0));
                                                e.2 += 1;
                                            }
                                        }
                                    }
                                    // successors
                                    if hist.len() < depth {
                                        let mut next: Vec<Op> = alphabet();
                                        if crashes < max_crashes {
                                            for op in crashable() {
                                                let (w3, _) = replay_history(seg, &hist).await;
                                                let Some(mut w3) = w3 else { continue };
                                                if let Ok(imgs) = w3.crash_images(&op, every_byte_inner).await {
                                                    for (cut, _, _) in imgs {
                                                        next.push(Op::Crash(Box::new(op.clone()), cut));
                                                    }
                                                }
                                            }
                                        }
                                        for op in next {
                                            let mut h = hist.clone();
                                            h.push(op);
                                            succ.push(h);
                                            st_local.transitions += 1;
                                        }
                                    }
                                }
                            }
                            next_frontier.lock().unwrap().extend(succ);
                            let mut st = stats.lock().unwrap();
                            st.histories += st_local.histories;
                            st.states += st_local.states;
                            st.transitions += st_local.transitions;
                            st.probes += st_local.probes;
                            st.torn_probes += st_local.torn_probes;
                            st.max_depth = st.max_depth.max(st_local.max_depth);
                            for (k, v) in st_local.fails {
                                let e = st.fails.entry(k).or_insert((v.0.clone(), v.1.clone(), 0));
                                e.2 += v.2;
                            }
                        });
                    }
                });
            }
        });
        let mut nf = std::mem::take(&mut *next_frontier.lock().unwrap());
        // deterministic order inside a level
        nf.sort_by_key(|h| format!("{h:?}"));
        frontier = nf;
        level += 1;
        if stats.lock().unwrap().capped {
            break;
        }
    }
    let _ = level;
    let _ = std::fs::remove_dir_all(scratch_root());
    Arc::try_unwrap(stats).ok().unwrap().into_inner().unwrap()
}

pub fn run(tier: &str) -> i32 {
    let mut rep = Report::new("C05", tier, "model_checking");
    rep.assume("an operation that returned before the crash is durable (sync on every write); the interrupted operation leaves a prefix of what it would have written (appends are two sequential writes: header, payload); file creation and unlink are atomic and ordered");
    rep.assume("after truncate_before(k) entries with seq < k may or may not remain (segment-granular), entries with seq >= k must; persist_flushed_seq is always called with the highest acknowledged sequence number, as the ingester does");
    // segment limits: rotate on every entry, about two small entries per segment, never rotate
    let small_entry = 22 + {
        // measure the encoded size of a 1-row batch through the real WAL
        let rt = tokio::runtime::Builder::new_current_thread().enable_all().build().unwrap();
        rt.block_on(async {
            let mut w = World::new(0).await.ok().unwrap();
            let (b, a, _) = w.run_for_diff(&Op::Append(1)).await.ok().unwrap();
            a.values().map(|v| v.len()).sum::<usize>() - b.values().map(|v| v.len()).sum::<usize>() - 22
        })
    };
    let (depth, max_crashes, inner_every, cap) = if tier == "thorough" { (5, 2, false, 1500) } else { (3, 1, false, 40) };
    let mut total = Stats::default();
    for seg in [1usize, 2 * small_entry + 10, 0] {
        let st = explore_config(seg, depth, max_crashes, inner_every, std::time::Duration::from_secs(cap));
        println!(
            "  C05 segment_limit={:<6} histories={:<8} states={:<7} transitions={:<8} crash-recovery probes={:<9} (torn appends {:<8}) depth={} {}",
            seg, st.histories, st.states, st.transitions, st.probes, st.torn_probes, st.max_depth, if st.capped { "CAPPED" } else { "" }
        );
        rep.push_sample(json!({"segment_limit": seg, "example_history": [Op::Append(1), Op::Crash(Box::new(Op::Append(40)), Cut::Append{bytes: 23, created: true}), Op::Append(1), Op::Reopen]}));
        total.histories += st.histories;
        total.states += st.states;
        total.transitions += st.transitions;
        total.probes += st.probes;
        total.torn_probes += st.torn_probes;
        total.max_depth = total.max_depth.max(st.max_depth);
        total.capped |= st.capped;
        for (k, v) in st.fails {
            let e = total.fails.entry(k).or_insert((v.0.clone(), v.1.clone(), 0));
            e.2 += v.2;
        }
    }
    rep.set("states", total.states);
    rep.set("transitions", total.transitions + total.probes);
    rep.set("traces_validated_against_impl", total.histories + total.probes);
    rep.set("histories", total.histories);
    rep.set("crash_recovery_probes", total.probes);
    rep.set("evaluations", total.histories + total.probes);
    rep.set("distinct_nontrivial", total.torn_probes);
    rep.set("max_depth", total.max_depth as u64);
    rep.set("rule", "BFS over operation histories {append small/large, truncate_before(max acked [+1]), persist_flushed_seq, reopen, crash-during-op at a structural cut} deduplicated on (directory image, reference state, next_seq); from every distinct state, every byte offset of a crash in each of append small / append large / truncate / flushed_seq write is followed by reopen, check, append, reopen, check. distinct_nontrivial = recovery probes whose image contains a torn (non-empty, possibly complete-but-unacknowledged) last write");
    rep.set("bounds", json!({"history_depth": depth, "crashes_per_history_before_final": max_crashes, "final_crash": "every byte as the last operation of every history of length <= depth; structural cuts (nothing, segment created, inside header, header only, header+1, inside payload, len-1, complete) after histories of length depth+1", "segment_limits": [1, 2 * small_entry + 10, 0]}));
    if total.capped {
        rep.set("exhaustive", false);
    }
    if total.torn_probes == 0 {
        rep.machinery("vacuity guard: no torn-write recovery was probed");
    }
    for (sig, (msg, replay, n)) in total.fails {
        if sig.contains("machinery") {
            rep.machinery(format!("{sig}: {msg}"));
        } else {
            rep.violation_n(&sig, &msg, replay, n);
        }
    }
    rep.finish()
}

pub fn replay(v: &serde_json::Value) -> i32 {
    let seg = v["segment_limit"].as_u64().unwrap_or(0) as usize;
    let hist: Vec<Op> = serde_json::from_value(v["history"].clone()).expect("history");
    let rt = tokio::runtime::Builder::new_current_thread().enable_all().build().unwrap();
    rt.block_on(async {
        let mut w = World::new(seg).await.ok().unwrap();
        let (body, last) = if v.get("then").is_some() && !hist.is_empty() { (&hist[..hist.len() - 1], hist.last()) } else { (&hist[..], None) };
        for (i, op) in body.iter().enumerate() {
            let r = w.apply(op).await;
            println!("#{i} {op:?} -> {}", match &r { Ok(()) => "ok".to_string(), Err(f) => format!("FAIL [{}] {}", f.sig, f.msg) });
            println!("     dir: {:?}", snapshot(&w.dir).iter().map(|(k, v)| format!("{k}:{}B", v.len())).collect::<Vec<_>>());
            if r.is_err() {
                return 1;
            }
        }
        if let Some(Op::Crash(inner, cut)) = last {
            let imgs = match w.crash_images(inner, true).await {
                Ok(i) => i,
                Err(f) => {
                    println!("FAIL [{}] {}", f.sig, f.msg);
                    return 1;
                }
            };
            let Some((_, img, model)) = imgs.into_iter().find(|(c, _, _)| c == cut) else {
                println!("MACHINERY: cut {cut:?} does not exist here");
                return 2;
            };
            println!("crash during {inner:?} at {cut:?}; dir: {:?}", img.iter().map(|(k, v)| format!("{k}:{}B", v.len())).collect::<Vec<_>>());
            match probe_recovery(seg, &img, &model, w.tag + 100).await {
                Ok(()) => println!("then reopen, append, reopen -> ok"),
                Err(f) => {
                    println!("then reopen, append, reopen -> FAIL [{}] {}", f.sig, f.msg);
                    return 1;
                }
            }
        }
        println!("no violation on this history");
        0
    })
}
