//! C18 — live-tail delivery matches the subscription's filter (engine C: bounded-exhaustive enumeration).
//!
//! Four sub-spaces:
//!  A. row filter:  `QueryFilter::from_sql(sql).apply(batch, merge)` against DataFusion's own evaluation of the
//!     same WHERE clause over a `MemTable` holding the batch's rows (plus the merge-point cut, computed directly
//!     from the timestamp values);
//!  B. stream:      the same clauses end to end — a real `Ingester` flushes batches after a `QueryNode` has
//!     subscribed with `query_stream` (legacy broadcast) and `query_stream_filtered` (topic-filtered receiver);
//!     order and multiplicity of the delivered batches are checked;
//!  C. topic:       all `TopicFilter` trees of depth <= 2 x all batch metadata, `TopicFilter::matches`, the
//!     `and()` builder and delivery through `TopicBroadcastChannel` / `FilteredReceiver` (incl. `resubscribe`);
//!  D. websocket:   the documented `/api/v1/stream` endpoint with `{"query": .., "live": true}` over a loopback socket.

use crate::engine::env::{self, EnvState, EPOCH_NS};
use crate::engine::report::Report;
use arrow::compute::filter_record_batch;
use arrow::row::{RowConverter, SortField};
use arrow_array::types::UInt16Type;
use arrow_array::{
    Array, ArrayRef, BooleanArray, DictionaryArray, Float64Array, Int64Array, RecordBatch, StringArray,
    TimestampNanosecondArray, UInt64Array,
};
use arrow_schema::{DataType, Field, Schema, SchemaRef, TimeUnit};
use cardinalsin::ingester::{BatchMetadata, Ingester, IngesterConfig, TopicBatch, TopicBroadcastChannel, TopicFilter};
use cardinalsin::query::{QueryConfig, QueryFilter, QueryNode};
use datafusion::datasource::MemTable;
use datafusion::prelude::{SessionConfig, SessionContext};
use serde_json::{json, Value};
use std::collections::{BTreeMap, BTreeSet, HashMap};
use std::panic::{catch_unwind, AssertUnwindSafe};
use std::sync::atomic::{AtomicUsize, Ordering};
use std::sync::Arc;

/// merge point used everywhere (the frozen wall clock of the interposed environment)
const M: i64 = EPOCH_NS;
const M_RFC3339: &str = "2025-06-01T12:00:00Z";
const M1_RFC3339: &str = "2025-06-01T12:00:00.000000001Z";

// ------------------------------------------------------------------------------------------------
// Row alphabet
// ------------------------------------------------------------------------------------------------

const TS_OFF: [i64; 3] = [-1, 0, 1];
const METRIC: [&str; 2] = ["cpu", "mem"];
const HOST: [Option<&str>; 3] = [None, Some("a"), Some("b")];
const F64: [Option<f64>; 4] = [None, Some(1e-17), Some(0.5), Some(2.0)];
const I64: [Option<i64>; 3] = [None, Some(1), Some(2)];
const U64: [Option<u64>; 3] = [None, Some(1), Some(2)];
const ENV: [Option<&str>; 2] = [None, Some("prod")];
const RADIX: [usize; 7] = [3, 2, 3, 4, 3, 3, 2];
const UNIVERSE: usize = 3 * 2 * 3 * 4 * 3 * 3 * 2;

/// one row = an index into each column alphabet (timestamp, metric_name, host, value_f64, value_i64, value_u64, env)
type Row = [u8; 7];

fn row_of(mut idx: usize) -> Row {
    let mut r = [0u8; 7];
    for c in (0..7).rev() {
        r[c] = (idx % RADIX[c]) as u8;
        idx /= RADIX[c];
    }
    r
}
fn idx_of(r: &Row) -> usize {
    let mut idx = 0;
    for c in 0..7 {
        idx = idx * RADIX[c] + r[c] as usize;
    }
    idx
}
fn row_json(r: &Row) -> Value {
    json!({
        "timestamp": format!("merge{:+}", TS_OFF[r[0] as usize]),
        "metric_name": METRIC[r[1] as usize],
        "host": HOST[r[2] as usize],
        "value_f64": F64[r[3] as usize],
        "value_i64": I64[r[4] as usize],
        "value_u64": U64[r[5] as usize],
        "env": ENV[r[6] as usize],
    })
}

/// A covering set of 8 rows from which the small batches (all sequences of <= 3 rows) are built.
const SMALL_ROWS: [Row; 8] = [
    [0, 0, 1, 2, 1, 1, 1], // merge-1 cpu a    0.5   1    1    prod
    [1, 0, 0, 3, 2, 0, 0], // merge   cpu null 2.0   2    null null
    [2, 1, 2, 0, 0, 2, 1], // merge+1 mem b    null  null 2    prod
    [1, 1, 1, 1, 2, 1, 0], // merge   mem a    1e-17 2    1    null
    [2, 0, 2, 2, 0, 2, 0], // merge+1 cpu b    0.5   null 2    null
    [2, 0, 1, 3, 1, 0, 1], // merge+1 cpu a    2.0   1    null prod
    [1, 1, 0, 2, 1, 2, 1], // merge   mem null 0.5   1    2    prod
    [2, 1, 0, 1, 2, 1, 0], // merge+1 mem null 1e-17 2    1    null
];

#[derive(Clone, Copy, PartialEq, Eq, Debug, Hash, PartialOrd, Ord)]
enum Variant {
    /// timestamp: Timestamp(Nanosecond, "UTC") — the Prometheus / OTLP ingest schema
    TsNs = 0,
    /// timestamp: Int64 — the Flight ingest / test schema
    TsI64 = 1,
}
const VARIANTS: [Variant; 2] = [Variant::TsNs, Variant::TsI64];
impl Variant {
    fn name(self) -> &'static str {
        match self {
            Variant::TsNs => "timestamp-ns-utc",
            Variant::TsI64 => "timestamp-int64",
        }
    }
    fn from_name(s: &str) -> Option<Self> {
        VARIANTS.iter().copied().find(|v| v.name() == s)
    }
}

fn schema_of(v: Variant, with_rowid: bool) -> SchemaRef {
    let ts = match v {
        Variant::TsNs => DataType::Timestamp(TimeUnit::Nanosecond, Some("UTC".into())),
        Variant::TsI64 => DataType::Int64,
    };
    let mut f = vec![
        Field::new("timestamp", ts, false),
        Field::new("metric_name", DataType::Utf8, false),
        Field::new("host", DataType::Utf8, true),
        Field::new("value_f64", DataType::Float64, true),
        Field::new("value_i64", DataType::Int64, true),
        Field::new("value_u64", DataType::UInt64, true),
        Field::new("env", DataType::Dictionary(Box::new(DataType::UInt16), Box::new(DataType::Utf8)), true),
    ];
    if with_rowid {
        f.push(Field::new("__row", DataType::Int64, false));
    }
    Arc::new(Schema::new(f))
}

/// Build a batch from rows. With `rowid` an extra Int64 column `__row` carries `rowid[i]` (reference side only).
fn build_batch(v: Variant, rows: &[Row], rowid: Option<&[i64]>) -> RecordBatch {
    let ts: Vec<i64> = rows.iter().map(|r| M + TS_OFF[r[0] as usize]).collect();
    let ts_arr: ArrayRef = match v {
        Variant::TsNs => Arc::new(TimestampNanosecondArray::from(ts).with_timezone("UTC")),
        Variant::TsI64 => Arc::new(Int64Array::from(ts)),
    };
    let env: DictionaryArray<UInt16Type> = rows.iter().map(|r| ENV[r[6] as usize]).collect();
    let mut cols: Vec<ArrayRef> = vec![
        ts_arr,
        Arc::new(StringArray::from(rows.iter().map(|r| METRIC[r[1] as usize]).collect::<Vec<_>>())),
        Arc::new(StringArray::from(rows.iter().map(|r| HOST[r[2] as usize]).collect::<Vec<_>>())),
        Arc::new(Float64Array::from(rows.iter().map(|r| F64[r[3] as usize]).collect::<Vec<_>>())),
        Arc::new(Int64Array::from(rows.iter().map(|r| I64[r[4] as usize]).collect::<Vec<_>>())),
        Arc::new(UInt64Array::from(rows.iter().map(|r| U64[r[5] as usize]).collect::<Vec<_>>())),
        Arc::new(env),
    ];
    if let Some(ids) = rowid {
        cols.push(Arc::new(Int64Array::from(ids.to_vec())));
    }
    RecordBatch::try_new(schema_of(v, rowid.is_some()), cols).expect("batch")
}

fn coltype(col: &str, v: Variant) -> &'static str {
    match col {
        "timestamp" => match v {
            Variant::TsNs => "Timestamp",
            Variant::TsI64 => "Int64",
        },
        "metric_name" | "host" => "Utf8",
        "value_f64" => "Float64",
        "value_i64" => "Int64",
        "value_u64" => "UInt64",
        "env" => "DictionaryUtf8",
        _ => "?",
    }
}

// ------------------------------------------------------------------------------------------------
// Clause enumeration
// ------------------------------------------------------------------------------------------------

#[derive(Clone, Debug)]
struct Leaf {
    text: String,
    col: &'static str,
    /// kind of the literal: string | int | float | negative-int | negative-float | null
    lit: &'static str,
    op: &'static str,
    reversed: bool,
    /// "" or a spelling tag of the column reference (qualified / uppercase / quoted)
    tag: &'static str,
    /// 0 = core (literal type matches the column type), 1 = other literal kinds, 2 = column spellings
    group: u8,
}

const OPS: [&str; 6] = ["=", "!=", "<", "<=", ">", ">="];

fn push_leaves(out: &mut Vec<Leaf>, col_sql: &str, col: &'static str, tag: &'static str, lits: &[(String, &'static str)], group: u8) {
    for reversed in [false, true] {
        for (lit, kind) in lits {
            for op in OPS {
                let text = if reversed { format!("{lit} {op} {col_sql}") } else { format!("{col_sql} {op} {lit}") };
                out.push(Leaf { text, col, lit: kind, op, reversed, tag, group });
            }
        }
    }
}

fn s(x: &str) -> String {
    x.to_string()
}

fn all_leaves() -> Vec<Leaf> {
    let mut l = Vec::new();
    // core: literal type = column type
    push_leaves(&mut l, "metric_name", "metric_name", "", &[(s("'cpu'"), "string"), (s("'mem'"), "string")], 0);
    push_leaves(&mut l, "host", "host", "", &[(s("'a'"), "string"), (s("'b'"), "string")], 0);
    push_leaves(&mut l, "value_f64", "value_f64", "", &[(s("0.0"), "float"), (s("0.5"), "float"), (s("1.25"), "float")], 0);
    push_leaves(&mut l, "value_i64", "value_i64", "", &[(s("1"), "int"), (s("2"), "int")], 0);
    push_leaves(&mut l, "timestamp", "timestamp", "", &[(format!("{M}"), "int"), (format!("{}", M + 1), "int")], 0);
    // other literal kinds
    push_leaves(&mut l, "value_f64", "value_f64", "", &[(s("1"), "int"), (s("2"), "int")], 1);
    push_leaves(&mut l, "value_i64", "value_i64", "", &[(s("1.0"), "float"), (s("1.5"), "float")], 1);
    push_leaves(&mut l, "value_u64", "value_u64", "", &[(s("1"), "int"), (s("2"), "int")], 1);
    push_leaves(&mut l, "env", "env", "", &[(s("'prod'"), "string")], 1);
    push_leaves(&mut l, "host", "host", "", &[(s("1"), "int")], 1);
    push_leaves(&mut l, "value_i64", "value_i64", "", &[(s("'1'"), "string")], 1);
    push_leaves(&mut l, "timestamp", "timestamp", "", &[(format!("'{M_RFC3339}'"), "string"), (format!("'{M1_RFC3339}'"), "string")], 1);
    push_leaves(&mut l, "value_i64", "value_i64", "", &[(s("-1"), "negative-int")], 1);
    push_leaves(&mut l, "value_f64", "value_f64", "", &[(s("-0.5"), "negative-float")], 1);
    push_leaves(&mut l, "host", "host", "", &[(s("NULL"), "null")], 1);
    push_leaves(&mut l, "value_i64", "value_i64", "", &[(s("NULL"), "null")], 1);
    // spellings of the column reference
    push_leaves(&mut l, "metrics.host", "host", "qualified", &[(s("'a'"), "string")], 2);
    push_leaves(&mut l, "HOST", "host", "uppercase", &[(s("'a'"), "string")], 2);
    push_leaves(&mut l, "\"host\"", "host", "quoted", &[(s("'a'"), "string")], 2);
    push_leaves(&mut l, "metrics.value_i64", "value_i64", "qualified", &[(s("1"), "int")], 2);
    l
}

/// the reduced leaf alphabet of the depth-2 trees (texts of core leaves)
const D2_LEAVES_12: [&str; 12] = [
    "metric_name = 'cpu'",
    "host = 'a'",
    "value_f64 > 0.5",
    "value_i64 = 1",
    "'b' != host",
    "2 > value_i64",
    "metric_name != 'cpu'",
    "host > 'a'",
    "value_f64 <= 0.5",
    "value_i64 >= 2",
    "1.25 > value_f64",
    "timestamp > 1748779200000000000",
];

#[derive(Clone, Debug)]
struct Clause {
    text: String,
    leaves: Vec<u16>,
    n_and: u8,
    n_or: u8,
    space: &'static str,
}

fn conn_count(ops: &[&str]) -> (u8, u8) {
    (ops.iter().filter(|o| **o == "AND").count() as u8, ops.iter().filter(|o| **o == "OR").count() as u8)
}

struct ClauseSpace {
    leaves: Vec<Leaf>,
    /// phase 1: no WHERE + every single comparison
    singles: Vec<Clause>,
    /// phase 2: compound clauses, simplest first
    compounds: Vec<Clause>,
}

fn build_clauses(tier: &str) -> ClauseSpace {
    let thorough = tier == "thorough";
    let leaves = all_leaves();
    let by_text: HashMap<&str, u16> = leaves.iter().enumerate().map(|(i, l)| (l.text.as_str(), i as u16)).collect();
    let mut singles = vec![Clause { text: String::new(), leaves: vec![], n_and: 0, n_or: 0, space: "no-where" }];
    for (i, l) in leaves.iter().enumerate() {
        singles.push(Clause { text: l.text.clone(), leaves: vec![i as u16], n_and: 0, n_or: 0, space: "single-comparison" });
        if i % 12 == 0 {
            singles.push(Clause { text: format!("({})", l.text), leaves: vec![i as u16], n_and: 0, n_or: 0, space: "single-comparison" });
        }
    }
    let core: Vec<u16> = (0..leaves.len() as u16).filter(|i| leaves[*i as usize].group == 0).collect();
    let other: Vec<u16> = (0..leaves.len() as u16).filter(|i| leaves[*i as usize].group != 0).collect();
    let d2_all: Vec<u16> = D2_LEAVES_12.iter().map(|t| *by_text.get(t).unwrap_or_else(|| panic!("D2 leaf {t} is not a core leaf"))).collect();
    let mut compounds = Vec::new();
    let t = |i: u16| leaves[i as usize].text.as_str();
    // depth 1 over the core leaves (quick: right operand in column-op-literal order only)
    for &a in &core {
        for &b in &core {
            if !thorough && (leaves[b as usize].reversed || matches!(leaves[b as usize].op, "!=" | "<=" | ">")) {
                continue;
            }
            for op in ["AND", "OR"] {
                let (n_and, n_or) = conn_count(&[op]);
                compounds.push(Clause { text: format!("{} {op} {}", t(a), t(b)), leaves: vec![a, b], n_and, n_or, space: "depth1-core" });
            }
        }
    }
    // depth 1 with parenthesised operands
    for &a in &d2_all {
        for &b in &d2_all {
            for op in ["AND", "OR"] {
                let (n_and, n_or) = conn_count(&[op]);
                compounds.push(Clause { text: format!("({}) {op} ({})", t(a), t(b)), leaves: vec![a, b], n_and, n_or, space: "depth1-nested" });
            }
        }
    }
    // depth 1: a non-core leaf combined with one of six core leaves, both positions
    for &a in &other {
        if !thorough && leaves[a as usize].reversed {
            continue;
        }
        for &b in &d2_all[..6] {
            for op in ["AND", "OR"] {
                let (n_and, n_or) = conn_count(&[op]);
                compounds.push(Clause { text: format!("{} {op} {}", t(a), t(b)), leaves: vec![a, b], n_and, n_or, space: "depth1-mixed" });
                compounds.push(Clause { text: format!("{} {op} {}", t(b), t(a)), leaves: vec![b, a], n_and, n_or, space: "depth1-mixed" });
            }
        }
    }
    // depth 2 over the reduced alphabet
    let d2: &[u16] = if thorough { &d2_all[..] } else { &d2_all[..6] };
    for &a in d2 {
        for &b in d2 {
            for &c in d2 {
                for x in ["AND", "OR"] {
                    for y in ["AND", "OR"] {
                        let (n_and, n_or) = conn_count(&[x, y]);
                        for form in 0..3 {
                            let text = match form {
                                0 => format!("({} {x} {}) {y} {}", t(a), t(b), t(c)),
                                1 => format!("{} {x} ({} {y} {})", t(a), t(b), t(c)),
                                _ => format!("{} {x} {} {y} {}", t(a), t(b), t(c)),
                            };
                            compounds.push(Clause { text, leaves: vec![a, b, c], n_and, n_or, space: "depth2-3leaf" });
                        }
                    }
                }
            }
        }
    }
    let d2b: &[u16] = if thorough { &d2_all[..] } else { &d2_all[..5] };
    for &a in d2b {
        for &b in d2b {
            for &c in d2b {
                for &d in d2b {
                    for x in ["AND", "OR"] {
                        for y in ["AND", "OR"] {
                            for z in ["AND", "OR"] {
                                let (n_and, n_or) = conn_count(&[x, y, z]);
                                compounds.push(Clause {
                                    text: format!("({} {x} {}) {y} ({} {z} {})", t(a), t(b), t(c), t(d)),
                                    leaves: vec![a, b, c, d],
                                    n_and,
                                    n_or,
                                    space: "depth2-4leaf",
                                });
                            }
                        }
                    }
                }
            }
        }
    }
    ClauseSpace { leaves, singles, compounds }
}

fn sql_of(where_text: &str) -> String {
    if where_text.is_empty() {
        "SELECT * FROM metrics".to_string()
    } else {
        format!("SELECT * FROM metrics WHERE {where_text}")
    }
}

// ------------------------------------------------------------------------------------------------
// Test batches
// ------------------------------------------------------------------------------------------------

struct TestBatch {
    /// universe index of every row
    uidx: Vec<usize>,
    batch: RecordBatch,
    /// bit i / element i: row i is at or after the merge point
    ts_ok: Vec<bool>,
    /// small batches only: every sub-batch by kept-row bitmask (`None` = no rows)
    subs: Option<Vec<Option<RecordBatch>>>,
}

fn mask_bits(m: &[bool]) -> usize {
    m.iter().enumerate().fold(0, |acc, (i, b)| acc | ((*b as usize) << i))
}

fn make_test_batch(v: Variant, rows: &[Row], with_subs: bool) -> TestBatch {
    let batch = build_batch(v, rows, None);
    let ts_ok: Vec<bool> = rows.iter().map(|r| TS_OFF[r[0] as usize] >= 0).collect();
    let subs = with_subs.then(|| {
        (0..(1usize << rows.len()))
            .map(|m| {
                if m == 0 {
                    None
                } else {
                    let mask: Vec<bool> = (0..rows.len()).map(|i| m >> i & 1 == 1).collect();
                    Some(filter_record_batch(&batch, &BooleanArray::from(mask)).expect("filter"))
                }
            })
            .collect()
    });
    TestBatch { uidx: rows.iter().map(idx_of).collect(), batch, ts_ok, subs }
}

/// all sequences of 0..=max_len rows over SMALL_ROWS (shortest first), then the universe batch
fn make_batches(v: Variant, max_len: usize) -> Vec<TestBatch> {
    let mut out = Vec::new();
    let mut seqs: Vec<Vec<Row>> = vec![vec![]];
    out.push(make_test_batch(v, &[], true));
    for _ in 0..max_len {
        let mut next = Vec::new();
        for sq in &seqs {
            for r in SMALL_ROWS {
                let mut n = sq.clone();
                n.push(r);
                next.push(n);
            }
        }
        for n in &next {
            out.push(make_test_batch(v, n, true));
        }
        seqs = next;
    }
    let uni: Vec<Row> = (0..UNIVERSE).map(row_of).collect();
    out.push(make_test_batch(v, &uni, false));
    out
}

fn universe_ref_batch(v: Variant) -> RecordBatch {
    let uni: Vec<Row> = (0..UNIVERSE).map(row_of).collect();
    let ids: Vec<i64> = (0..UNIVERSE as i64).collect();
    build_batch(v, &uni, Some(&ids))
}

// ------------------------------------------------------------------------------------------------
// Reference: DataFusion evaluates the WHERE clause over a MemTable of the rows
// ------------------------------------------------------------------------------------------------

fn ref_ctx(batch: RecordBatch) -> SessionContext {
    let ctx = SessionContext::new_with_config(SessionConfig::new().with_target_partitions(1));
    let t = MemTable::try_new(batch.schema(), vec![vec![batch]]).expect("memtable");
    ctx.register_table("metrics", Arc::new(t)).expect("register");
    ctx
}

/// truth[i] = the row whose `__row` is i satisfies the clause according to DataFusion
async fn ref_truth(ctx: &SessionContext, where_text: &str, n: usize) -> Result<Vec<bool>, String> {
    let sql = if where_text.is_empty() { "SELECT __row FROM metrics".to_string() } else { format!("SELECT __row FROM metrics WHERE {where_text}") };
    let df = ctx.sql(&sql).await.map_err(|e| format!("plan: {e}"))?;
    let out = df.collect().await.map_err(|e| format!("exec: {e}"))?;
    let mut t = vec![false; n];
    for b in out {
        let c = b.column(0).as_any().downcast_ref::<Int64Array>().ok_or("row id column type")?;
        for i in 0..c.len() {
            let id = c.value(i) as usize;
            if id >= n || t[id] {
                return Err(format!("reference returned row id {id} twice or out of range"));
            }
            t[id] = true;
        }
    }
    Ok(t)
}

// ------------------------------------------------------------------------------------------------
// Subject
// ------------------------------------------------------------------------------------------------

enum Got {
    Rows(Option<RecordBatch>),
    Err(String),
    Panic(String),
}

fn panic_msg(p: Box<dyn std::any::Any + Send>) -> String {
    p.downcast_ref::<String>().cloned().or_else(|| p.downcast_ref::<&str>().map(|s| s.to_string())).unwrap_or_else(|| "panic".into())
}

fn subject_apply(f: &QueryFilter, b: &RecordBatch, merge: i64) -> Got {
    match catch_unwind(AssertUnwindSafe(|| f.apply(b, merge))) {
        Ok(Ok(Some(r))) if r.num_rows() == 0 => Got::Rows(None), // an empty batch carries no rows
        Ok(Ok(r)) => Got::Rows(r),
        Ok(Err(e)) => Got::Err(format!("{e}")),
        Err(p) => Got::Panic(panic_msg(p)),
    }
}

fn direction(exp: &[bool], got: Option<&[bool]>) -> &'static str {
    match got {
        None => "not-a-subsequence-of-the-batch",
        Some(g) => {
            let missing = exp.iter().zip(g).any(|(e, g)| *e && !*g);
            let extra = exp.iter().zip(g).any(|(e, g)| !*e && *g);
            match (missing, extra) {
                (true, false) => "missing-rows",
                (false, true) => "extra-rows",
                _ => "missing+extra-rows",
            }
        }
    }
}

/// which rows of a small batch did the subject keep (the candidate closest to `exp` if rows repeat)
fn small_got_mask(tb: &TestBatch, got: &Option<RecordBatch>, exp: &[bool]) -> Option<Vec<bool>> {
    let subs = tb.subs.as_ref()?;
    let e = mask_bits(exp);
    let mut best: Option<usize> = None;
    for (m, sb) in subs.iter().enumerate() {
        if sb == got && best.map(|b| (m ^ e).count_ones() < (b ^ e).count_ones()).unwrap_or(true) {
            best = Some(m);
        }
    }
    best.map(|m| (0..exp.len()).map(|i| m >> i & 1 == 1).collect())
}

struct RowIndex {
    conv: RowConverter,
    uni: arrow::row::Rows,
}
impl RowIndex {
    fn new(uni: &RecordBatch) -> Self {
        let conv = RowConverter::new(uni.schema().fields().iter().map(|f| SortField::new(f.data_type().clone())).collect()).expect("row converter");
        let rows = conv.convert_columns(uni.columns()).expect("rows");
        Self { conv, uni: rows }
    }
    /// which universe rows (all distinct) were kept, if `got` is an in-order selection of them
    fn mask(&self, got: &Option<RecordBatch>) -> Option<Vec<bool>> {
        let mut m = vec![false; self.uni.num_rows()];
        let Some(g) = got else { return Some(m) };
        let rows = self.conv.convert_columns(g.columns()).ok()?;
        let mut i = 0;
        for j in 0..rows.num_rows() {
            while i < self.uni.num_rows() && self.uni.row(i) != rows.row(j) {
                i += 1;
            }
            if i == self.uni.num_rows() {
                return None;
            }
            m[i] = true;
            i += 1;
        }
        Some(m)
    }
}

// ------------------------------------------------------------------------------------------------
// Accumulators
// ------------------------------------------------------------------------------------------------

#[derive(Clone)]
struct VRec {
    order: (u8, usize, u8, usize),
    msg: String,
    replay: Value,
    count: u64,
}

#[derive(Default)]
struct Acc {
    evaluations: u64,
    nontrivial: u64,
    delivered_some: u64,
    delivered_none: u64,
    merge_cut: u64,
    clauses_checked: u64,
    clauses_rejected: u64,
    clauses_predicate_effective: u64,
    or_matters: u64,
    selfchecks: u64,
    failing_cases: u64,
    per_space: BTreeMap<&'static str, [u64; 4]>, // clauses, rejected, cases, failing cases
    rejected_samples: Vec<Value>,
    samples: Vec<Value>,
    viol: BTreeMap<String, VRec>,
    machinery: Vec<String>,
    bad_leaf: HashMap<(Variant, u16), String>,
    failed_clause: HashMap<(Variant, String), String>,
    merge_broken: HashMap<Variant, String>,
    capped: bool,
}

impl Acc {
    fn violation(&mut self, sig: &str, order: (u8, usize, u8, usize), msg: impl FnOnce() -> String, replay: impl FnOnce() -> Value) {
        match self.viol.get_mut(sig) {
            Some(v) => {
                v.count += 1;
                if order < v.order {
                    v.order = order;
                    v.msg = msg();
                    v.replay = replay();
                }
            }
            None => {
                self.viol.insert(sig.to_string(), VRec { order, msg: msg(), replay: replay(), count: 1 });
            }
        }
    }
    fn merge(&mut self, o: Acc) {
        self.evaluations += o.evaluations;
        self.nontrivial += o.nontrivial;
        self.delivered_some += o.delivered_some;
        self.delivered_none += o.delivered_none;
        self.merge_cut += o.merge_cut;
        self.clauses_checked += o.clauses_checked;
        self.clauses_rejected += o.clauses_rejected;
        self.clauses_predicate_effective += o.clauses_predicate_effective;
        self.or_matters += o.or_matters;
        self.selfchecks += o.selfchecks;
        self.failing_cases += o.failing_cases;
        self.capped |= o.capped;
        for (k, v) in o.per_space {
            let e = self.per_space.entry(k).or_default();
            for i in 0..4 {
                e[i] += v[i];
            }
        }
        for x in o.rejected_samples {
            if self.rejected_samples.len() < 8 {
                self.rejected_samples.push(x);
            }
        }
        for x in o.samples {
            if self.samples.len() < 6 {
                self.samples.push(x);
            }
        }
        for (sig, v) in o.viol {
            match self.viol.get_mut(&sig) {
                Some(m) => {
                    m.count += v.count;
                    if v.order < m.order {
                        m.order = v.order;
                        m.msg = v.msg;
                        m.replay = v.replay;
                    }
                }
                None => {
                    self.viol.insert(sig, v);
                }
            }
        }
        self.machinery.extend(o.machinery);
        self.bad_leaf.extend(o.bad_leaf);
        self.failed_clause.extend(o.failed_clause);
        self.merge_broken.extend(o.merge_broken);
    }
}

// ------------------------------------------------------------------------------------------------
// Sub-space A: row filter
// ------------------------------------------------------------------------------------------------

struct Shared<'a> {
    leaves: &'a [Leaf],
    batches: &'a [Vec<TestBatch>; 2],
    /// results of phase 1 (empty during phase 1)
    bad_leaf: &'a HashMap<(Variant, u16), String>,
    merge_broken: &'a HashMap<Variant, String>,
    /// run the direct-on-the-small-batch reference for every k-th clause
    selfcheck_every: usize,
}

struct Worker {
    uni_ctx: [SessionContext; 2],
    row_index: [RowIndex; 2],
    acc: Acc,
}

fn rows_json(uidx: &[usize]) -> Value {
    Value::Array(uidx.iter().map(|i| row_json(&row_of(*i))).collect())
}

fn kept(m: &[bool]) -> Vec<usize> {
    m.iter().enumerate().filter(|(_, b)| **b).map(|(i, _)| i).collect()
}

impl Worker {
    fn new(batches: &[Vec<TestBatch>; 2]) -> Self {
        let uni_ctx = [ref_ctx(universe_ref_batch(Variant::TsNs)), ref_ctx(universe_ref_batch(Variant::TsI64))];
        let row_index = [RowIndex::new(&batches[0].last().unwrap().batch), RowIndex::new(&batches[1].last().unwrap().batch)];
        Self { uni_ctx, row_index, acc: Acc::default() }
    }

    async fn check_clause(&mut self, sh: &Shared<'_>, phase: u8, ci: usize, c: &Clause, v: Variant) {
        let vi = v as usize;
        let sp = self.acc.per_space.entry(c.space).or_default();
        sp[0] += 1;
        let truth = match ref_truth(&self.uni_ctx[vi], &c.text, UNIVERSE).await {
            Ok(t) => t,
            Err(e) => {
                self.acc.clauses_rejected += 1;
                self.acc.per_space.entry(c.space).or_default()[1] += 1;
                if self.acc.rejected_samples.len() < 8 && c.leaves.len() <= 1 {
                    self.acc.rejected_samples.push(json!({"variant": v.name(), "where": c.text, "datafusion": e.chars().take(160).collect::<String>()}));
                }
                return;
            }
        };
        self.acc.clauses_checked += 1;
        let sql = sql_of(&c.text);
        let filter = match catch_unwind(AssertUnwindSafe(|| QueryFilter::from_sql(&sql))) {
            Ok(f) => f,
            Err(p) => {
                let m = panic_msg(p);
                self.acc.violation(
                    "C18:row-filter:from_sql-panic",
                    (phase, ci, vi as u8, 0),
                    || format!("QueryFilter::from_sql panicked on {sql:?}: {m}"),
                    || json!({"kind": "row-filter", "variant": v.name(), "where": c.text, "sql": sql, "merge": M, "row_ids": [0]}),
                );
                return;
            }
        };
        // direct reference on one small batch (guards the "WHERE is evaluated row by row" assumption of the lookup)
        if sh.selfcheck_every > 0 && ci % sh.selfcheck_every == 0 {
            let nb = sh.batches[vi].len() - 1;
            let tb = &sh.batches[vi][1 + (ci / sh.selfcheck_every) % (nb - 2)];
            let rows: Vec<Row> = tb.uidx.iter().map(|i| row_of(*i)).collect();
            let ids: Vec<i64> = (0..rows.len() as i64).collect();
            let ctx = ref_ctx(build_batch(v, &rows, Some(&ids)));
            match ref_truth(&ctx, &c.text, rows.len()).await {
                Ok(t) => {
                    let lk: Vec<bool> = tb.uidx.iter().map(|i| truth[*i]).collect();
                    if t != lk {
                        self.acc.machinery.push(format!("reference lookup differs from direct evaluation: [{}] {:?} rows {:?}: {t:?} vs {lk:?}", v.name(), c.text, tb.uidx));
                    }
                }
                Err(e) => self.acc.machinery.push(format!("reference accepted {:?} on the universe but not on a small batch: {e}", c.text)),
            }
            self.acc.selfchecks += 1;
        }

        let mut cause: Option<String> = None;
        let mut alt_truth: Option<(Option<Vec<bool>>, Option<Vec<bool>>)> = None;
        let mut predicate_effective = false;
        let mut clause_failed = false;
        let nb = sh.batches[vi].len();
        for (bi, tb) in sh.batches[vi].iter().enumerate() {
            let is_uni = bi == nb - 1;
            if c.space == "depth2-4leaf" && !is_uni && tb.uidx.len() > 2 {
                continue; // the largest clause space runs on the batches of <= 2 rows and the universe batch
            }
            let exp_mask: Vec<bool> = tb.uidx.iter().zip(&tb.ts_ok).map(|(u, ok)| truth[*u] && *ok).collect();
            let got = subject_apply(&filter, &tb.batch, M);
            self.acc.evaluations += 1;
            self.acc.per_space.entry(c.space).or_default()[2] += 1;
            let got = match got {
                Got::Rows(r) => r,
                Got::Err(e) | Got::Panic(e) => {
                    clause_failed = true;
                    self.acc.failing_cases += 1;
                    self.acc.per_space.entry(c.space).or_default()[3] += 1;
                    let uidx = tb.uidx.clone();
                    self.acc.violation(
                        "C18:row-filter:apply-error-or-panic",
                        (phase, ci, vi as u8, bi),
                        || format!("[{}] {sql}: apply failed on a batch of {} row(s): {e}", v.name(), uidx.len()),
                        || json!({"kind": "row-filter", "variant": v.name(), "where": c.text, "sql": sql, "merge": M, "row_ids": uidx, "rows": rows_json(&uidx)}),
                    );
                    continue;
                }
            };
            let got_rows = got.as_ref().map(|g| g.num_rows()).unwrap_or(0);
            let ts_ok_n = tb.ts_ok.iter().filter(|b| **b).count();
            if got_rows > 0 {
                self.acc.delivered_some += 1;
            } else {
                self.acc.delivered_none += 1;
            }
            if ts_ok_n < tb.uidx.len() {
                self.acc.merge_cut += 1;
            }
            if got_rows < ts_ok_n {
                self.acc.nontrivial += 1;
                predicate_effective = true;
            }
            let ok = match &tb.subs {
                Some(subs) => subs[mask_bits(&exp_mask)] == got,
                None => {
                    let e = filter_record_batch(&tb.batch, &BooleanArray::from(exp_mask.clone())).expect("filter");
                    if e.num_rows() == 0 { got.is_none() } else { got.as_ref() == Some(&e) }
                }
            };
            if ok {
                if self.acc.samples.len() < 3 && got_rows > 0 && got_rows < ts_ok_n && !is_uni && ci % 7 == 3 {
                    self.acc.samples.push(json!({"sub_space": "row-filter", "variant": v.name(), "sql": sql, "batch": rows_json(&tb.uidx),
                        "rows_delivered": kept(&exp_mask), "agrees_with_datafusion": true}));
                }
                continue;
            }
            // ---- mismatch: find out which rows were kept, then the cause
            clause_failed = true;
            self.acc.failing_cases += 1;
            self.acc.per_space.entry(c.space).or_default()[3] += 1;
            let got_mask = if is_uni { self.row_index[vi].mask(&got) } else { small_got_mask(tb, &got, &exp_mask) };
            let dir = direction(&exp_mask, got_mask.as_deref());
            if cause.is_none() {
                // hypotheses about the cause are tested on the universe batch (every row kind at once), so that a
                // coincidence on one small batch cannot name the wrong cause
                let utb = &sh.batches[vi][nb - 1];
                let uni_got: Option<Vec<bool>> = match subject_apply(&filter, &utb.batch, M) {
                    Got::Rows(g) => self.row_index[vi].mask(&g),
                    _ => None,
                };
                let same_as = |t: &dyn Fn(usize) -> bool, with_merge: bool| -> bool {
                    let m: Vec<bool> = utb.uidx.iter().zip(&utb.ts_ok).map(|(u, ok)| t(*u) && (*ok || !with_merge)).collect();
                    uni_got.as_deref() == Some(&m[..])
                };
                let cz = if c.leaves.is_empty() {
                    if same_as(&|_| true, false) { "merge-point-not-applied".to_string() } else { "merge-point-wrong".to_string() }
                } else if let Some(s) = sh.merge_broken.get(&v) {
                    format!("={s}")
                } else if c.leaves.len() == 1 {
                    let l = &sh.leaves[c.leaves[0] as usize];
                    let ct = coltype(l.col, v);
                    let tag = if l.tag.is_empty() { String::new() } else { format!("({})", l.tag) };
                    if same_as(&|_| true, true) {
                        format!("predicate-ignored:{ct}-column{tag}:{}-literal", l.lit)
                    } else {
                        format!("wrong-comparison:{ct}-column{tag}:{}-literal:{}:{}", l.lit, l.op, if l.reversed { "literal-op-column" } else { "column-op-literal" })
                    }
                } else if let Some(s) = c.leaves.iter().find_map(|l| sh.bad_leaf.get(&(v, *l))) {
                    format!("={s}")
                } else {
                    if alt_truth.is_none() {
                        let ta = if c.n_or > 0 { ref_truth(&self.uni_ctx[vi], &c.text.replace(" OR ", " AND "), UNIVERSE).await.ok() } else { None };
                        let to = if c.n_and > 0 { ref_truth(&self.uni_ctx[vi], &c.text.replace(" AND ", " OR "), UNIVERSE).await.ok() } else { None };
                        alt_truth = Some((ta, to));
                    }
                    let (ta, to) = alt_truth.as_ref().unwrap();
                    let conn = match (c.n_and > 0, c.n_or > 0) {
                        (true, true) => "and+or",
                        (true, false) => "and",
                        _ => "or",
                    };
                    if ta.as_ref().map(|t| same_as(&|u| t[u], true)).unwrap_or(false) {
                        "or-evaluated-as-and".to_string()
                    } else if to.as_ref().map(|t| same_as(&|u| t[u], true)).unwrap_or(false) {
                        "and-evaluated-as-or".to_string()
                    } else {
                        format!("wrong-combination:{conn}")
                    }
                };
                cause = Some(cz);
            }
            let cz = cause.as_ref().unwrap();
            let sig = if let Some(s) = cz.strip_prefix('=') {
                s.to_string()
            } else if cz.starts_with("predicate-ignored") || cz.ends_with("-evaluated-as-and") || cz.ends_with("-evaluated-as-or") || cz == "merge-point-not-applied" {
                format!("C18:row-filter:{cz}")
            } else {
                format!("C18:row-filter:{cz}:{dir}")
            };
            // replay case: the batch itself, or (universe) the first differing row alone if that still fails
            let mut rep_rows = tb.uidx.clone();
            let mut rep_exp = kept(&exp_mask);
            let mut rep_got = got_mask.as_ref().map(|m| kept(m));
            if is_uni {
                if let Some(gm) = &got_mask {
                    if let Some(i) = (0..exp_mask.len()).find(|i| exp_mask[*i] != gm[*i]) {
                        let one = build_batch(v, &[row_of(i)], None);
                        if let Got::Rows(g1) = subject_apply(&filter, &one, M) {
                            if g1.is_some() != exp_mask[i] {
                                rep_rows = vec![i];
                                rep_exp = if exp_mask[i] { vec![0] } else { vec![] };
                                rep_got = Some(if g1.is_some() { vec![0] } else { vec![] });
                            }
                        }
                    }
                }
            }
            let order = (phase, ci, vi as u8, if is_uni && rep_rows.len() == 1 { 1 } else { bi });
            let preds = format!("{:?}", filter.predicates);
            self.acc.violation(
                &sig,
                order,
                || {
                    format!(
                        "[{}] {sql}\n  batch rows: {}\n  rows that satisfy the clause at/after the merge point (DataFusion): {:?}\n  rows delivered by QueryFilter::apply: {}\n  parsed predicates: {}",
                        v.name(),
                        rows_json(&rep_rows),
                        rep_exp,
                        rep_got.as_ref().map(|g| format!("{g:?}")).unwrap_or_else(|| "not an in-order selection of the batch's rows".into()),
                        preds.chars().take(300).collect::<String>()
                    )
                },
                || json!({"kind": "row-filter", "variant": v.name(), "where": c.text, "sql": sql, "merge": M, "row_ids": rep_rows, "rows": rows_json(&rep_rows)}),
            );
            if phase == 1 && c.leaves.len() == 1 && !sh.merge_broken.contains_key(&v) {
                self.acc.bad_leaf.entry((v, c.leaves[0])).or_insert(sig.clone());
            }
            if c.leaves.is_empty() {
                self.acc.merge_broken.entry(v).or_insert(sig.clone());
            }
            self.acc.failed_clause.entry((v, c.text.clone())).or_insert(sig);
        }
        if predicate_effective {
            self.acc.clauses_predicate_effective += 1;
        }
        let _ = clause_failed;
        // does the disjunction matter for this clause (vacuity guard for the OR forms)?
        if c.n_or > 0 && c.n_and == 0 && c.leaves.len() == 2 && (ci / 2) % 8 == 0 {
            if let Ok(ta) = ref_truth(&self.uni_ctx[vi], &c.text.replace(" OR ", " AND "), UNIVERSE).await {
                if ta != truth {
                    self.acc.or_matters += 1;
                }
            }
        }
    }
}

fn run_phase(clauses: &[Clause], phase: u8, sh: &Shared<'_>, threads: usize, deadline: std::time::Instant) -> Acc {
    let next = AtomicUsize::new(0);
    let mut total = Acc::default();
    let accs: Vec<Acc> = std::thread::scope(|sc| {
        let hs: Vec<_> = (0..threads)
            .map(|_| {
                sc.spawn(|| {
                    let rt = tokio::runtime::Builder::new_current_thread().enable_all().build().expect("rt");
                    let mut w = Worker::new(sh.batches);
                    rt.block_on(async {
                        loop {
                            let start = next.fetch_add(32, Ordering::SeqCst);
                            if start >= clauses.len() {
                                break;
                            }
                            if std::time::Instant::now() > deadline {
                                w.acc.capped = true;
                                break;
                            }
                            for ci in start..(start + 32).min(clauses.len()) {
                                for v in VARIANTS {
                                    w.check_clause(sh, phase, ci, &clauses[ci], v).await;
                                }
                            }
                        }
                    });
                    w.acc
                })
            })
            .collect();
        hs.into_iter().map(|h| h.join().expect("worker thread")).collect()
    });
    for a in accs {
        total.merge(a);
    }
    total
}

struct RowFilterResult {
    acc: Acc,
    n_single: usize,
    n_compound: usize,
}

fn run_row_filter(tier: &str, rep: &mut Report, batches: &[Vec<TestBatch>; 2], space: &ClauseSpace, threads: usize) -> RowFilterResult {
    let t0 = std::time::Instant::now();
    let deadline = t0 + std::time::Duration::from_secs(if tier == "thorough" { 1200 } else { 45 });
    let empty_bad = HashMap::new();
    let empty_merge = HashMap::new();
    // phase 0: no WHERE clause at all (the merge-point cut alone); its verdict names the cause of later failures
    let sh0 = Shared { leaves: &space.leaves, batches, bad_leaf: &empty_bad, merge_broken: &empty_merge, selfcheck_every: 1 };
    let p0 = run_phase(&space.singles[..1], 0, &sh0, 1, deadline);
    let mb0 = p0.merge_broken.clone();
    let sh1 = Shared { leaves: &space.leaves, batches, bad_leaf: &empty_bad, merge_broken: &mb0, selfcheck_every: 3 };
    let mut p1 = run_phase(&space.singles[1..], 1, &sh1, threads, deadline);
    p1.merge(p0);
    println!(
        "C18 A row-filter phases 0+1 (no WHERE + single comparisons): {} clauses x 2 schemas, {} accepted by DataFusion, {} rejected, {} cases, {} failing, {} comparison forms broken, {:.1}s",
        space.singles.len(), p1.clauses_checked, p1.clauses_rejected, p1.evaluations, p1.failing_cases, p1.bad_leaf.len(), t0.elapsed().as_secs_f64()
    );
    let bad = p1.bad_leaf.clone();
    let mb = p1.merge_broken.clone();
    let sh2 = Shared { leaves: &space.leaves, batches, bad_leaf: &bad, merge_broken: &mb, selfcheck_every: if tier == "thorough" { 101 } else { 211 } };
    let p2 = run_phase(&space.compounds, 2, &sh2, threads, deadline);
    let mut acc = p1;
    acc.merge(p2);
    for (k, v) in &acc.per_space {
        println!("C18 A row-filter {k}: {} clause x schema pairs, {} rejected by DataFusion (skipped), {} cases, {} failing", v[0], v[1], v[2], v[3]);
    }
    println!(
        "C18 A row-filter total: {} cases, {} in which a predicate removed rows, {} delivered rows / {} delivered nothing, {} self-checks of the reference, {:.1}s{}",
        acc.evaluations, acc.nontrivial, acc.delivered_some, acc.delivered_none, acc.selfchecks, t0.elapsed().as_secs_f64(), if acc.capped { " CAPPED" } else { "" }
    );
    let _ = rep;
    RowFilterResult { acc, n_single: space.singles.len(), n_compound: space.compounds.len() }
}

fn show(b: &Option<RecordBatch>) -> String {
    match b {
        None => "  (nothing)".to_string(),
        Some(b) => arrow::util::pretty::pretty_format_batches(&[b.clone()]).map(|d| d.to_string()).unwrap_or_else(|e| format!("{e}")),
    }
}

fn replay_row_filter(r: &Value) -> i32 {
    let Some(v) = r["variant"].as_str().and_then(Variant::from_name) else {
        println!("MACHINERY: bad variant in replay");
        return 2;
    };
    let wh = r["where"].as_str().unwrap_or("");
    let sql = sql_of(wh);
    let rows: Vec<Row> = r["row_ids"].as_array().map(|a| a.iter().filter_map(|x| x.as_u64()).map(|i| row_of(i as usize)).collect()).unwrap_or_default();
    let batch = build_batch(v, &rows, None);
    println!("schema variant: {}   merge point: {M}", v.name());
    println!("sql: {sql}");
    println!("flushed batch:\n{}", show(&Some(batch.clone())));
    let filter = match catch_unwind(AssertUnwindSafe(|| QueryFilter::from_sql(&sql))) {
        Ok(f) => f,
        Err(p) => {
            println!("QueryFilter::from_sql panicked: {}", panic_msg(p));
            return 1;
        }
    };
    println!("QueryFilter::from_sql -> {:?}", filter.predicates);
    let ids: Vec<i64> = (0..rows.len() as i64).collect();
    let ctx = ref_ctx(build_batch(v, &rows, Some(&ids)));
    let rt = tokio::runtime::Builder::new_current_thread().enable_all().build().expect("rt");
    let truth = match rt.block_on(ref_truth(&ctx, wh, rows.len())) {
        Ok(t) => t,
        Err(e) => {
            println!("DataFusion rejects the clause ({e}); the case is outside the property");
            return 0;
        }
    };
    let mask: Vec<bool> = rows.iter().zip(&truth).map(|(r, t)| *t && TS_OFF[r[0] as usize] >= 0).collect();
    let e = filter_record_batch(&batch, &BooleanArray::from(mask)).expect("filter");
    let exp = if e.num_rows() == 0 { None } else { Some(e) };
    println!("expected (DataFusion: rows satisfying the clause, cut at the merge point):\n{}", show(&exp));
    match subject_apply(&filter, &batch, M) {
        Got::Rows(g) => {
            println!("delivered by QueryFilter::apply:\n{}", show(&g));
            if g == exp {
                println!("no violation: delivery matches");
                0
            } else {
                println!("VIOLATION reproduced: delivery differs from the clause's rows");
                1
            }
        }
        Got::Err(e) | Got::Panic(e) => {
            println!("apply failed: {e}");
            1
        }
    }
}

pub fn replay(v: &Value) -> i32 {
    match v["kind"].as_str() {
        Some("row-filter") => replay_row_filter(v),
        Some("stream") => replay_stream(v),
        Some("topic") => replay_topic(v),
        Some("websocket") => replay_ws(v),
        Some("missing-column") => {
            let clause = v["clause"].as_str().unwrap_or("").to_string();
            let bi = v["batch"].as_u64().unwrap_or(0) as usize;
            let b = missing_column_batches();
            let (f, r) = &b[bi.min(b.len() - 1)];
            match missing_column_one(&clause, f, r) {
                Ok(_) => {
                    println!("`{clause}`: delivered rows equal the reference; no violation");
                    0
                }
                Err((sig, msg)) => {
                    println!("violation [{sig}]: {msg}");
                    1
                }
            }
        }
        _ => {
            println!("MACHINERY: unknown replay kind");
            2
        }
    }
}

// ------------------------------------------------------------------------------------------------
// Sub-space C: topic filter
// ------------------------------------------------------------------------------------------------

/// The specification of a topic filter, written from the documentation of `TopicFilter`: `Metrics` matches when
/// the batch carries at least one of the listed metric names; `And` / `Or` are conjunction / disjunction of
/// their members (so the empty `And` holds and the empty `Or` does not).
fn topic_ref(f: &TopicFilter, m: &BatchMetadata) -> bool {
    match f {
        TopicFilter::All => true,
        TopicFilter::Shard(x) => m.shard_id == *x,
        TopicFilter::Tenant(t) => m.tenant_id == *t,
        TopicFilter::Metrics(ms) => {
            let want: BTreeSet<&str> = ms.iter().map(|x| x.as_str()).collect();
            let have: BTreeSet<&str> = m.metrics.iter().map(|x| x.as_str()).collect();
            want.intersection(&have).next().is_some()
        }
        TopicFilter::And(fs) => {
            let mut r = true;
            for x in fs {
                r = r && topic_ref(x, m);
            }
            r
        }
        TopicFilter::Or(fs) => {
            let mut r = false;
            for x in fs {
                r = r || topic_ref(x, m);
            }
            r
        }
    }
}

fn topic_kind(f: &TopicFilter) -> &'static str {
    match f {
        TopicFilter::All => "All",
        TopicFilter::Shard(_) => "Shard",
        TopicFilter::Tenant(_) => "Tenant",
        TopicFilter::Metrics(_) => "Metrics",
        TopicFilter::And(_) => "And",
        TopicFilter::Or(_) => "Or",
    }
}

/// the innermost node whose verdict differs from the specification while all its members agree with it
fn topic_blame(f: &TopicFilter, m: &BatchMetadata) -> Option<(&'static str, bool)> {
    let got = catch_unwind(AssertUnwindSafe(|| f.matches(m))).ok()?;
    let want = topic_ref(f, m);
    if got == want {
        return None;
    }
    if let TopicFilter::And(fs) | TopicFilter::Or(fs) = f {
        for x in fs {
            if let Some(b) = topic_blame(x, m) {
                return Some(b);
            }
        }
    }
    Some((topic_kind(f), got))
}

fn topic_json(f: &TopicFilter) -> Value {
    match f {
        TopicFilter::All => json!("All"),
        TopicFilter::Shard(x) => json!({"Shard": x}),
        TopicFilter::Tenant(t) => json!({"Tenant": t}),
        TopicFilter::Metrics(ms) => json!({"Metrics": ms}),
        TopicFilter::And(fs) => json!({"And": fs.iter().map(topic_json).collect::<Vec<_>>()}),
        TopicFilter::Or(fs) => json!({"Or": fs.iter().map(topic_json).collect::<Vec<_>>()}),
    }
}

fn topic_from_json(v: &Value) -> Option<TopicFilter> {
    if v.as_str() == Some("All") {
        return Some(TopicFilter::All);
    }
    let o = v.as_object()?;
    let (k, x) = o.iter().next()?;
    Some(match k.as_str() {
        "Shard" => TopicFilter::Shard(x.as_str()?.to_string()),
        "Tenant" => TopicFilter::Tenant(x.as_u64()? as u32),
        "Metrics" => TopicFilter::Metrics(x.as_array()?.iter().filter_map(|m| m.as_str().map(|s| s.to_string())).collect()),
        "And" => TopicFilter::And(x.as_array()?.iter().map(topic_from_json).collect::<Option<Vec<_>>>()?),
        "Or" => TopicFilter::Or(x.as_array()?.iter().map(topic_from_json).collect::<Option<Vec<_>>>()?),
        _ => return None,
    })
}

fn meta_json(m: &BatchMetadata) -> Value {
    json!({"shard_id": m.shard_id, "tenant_id": m.tenant_id, "metrics": m.metrics})
}

fn meta_from_json(v: &Value) -> Option<BatchMetadata> {
    Some(BatchMetadata {
        shard_id: v["shard_id"].as_str()?.to_string(),
        tenant_id: v["tenant_id"].as_u64()? as u32,
        metrics: v["metrics"].as_array()?.iter().filter_map(|m| m.as_str().map(|s| s.to_string())).collect(),
    })
}

fn topic_atoms() -> Vec<TopicFilter> {
    let ms = |v: &[&str]| TopicFilter::Metrics(v.iter().map(|x| x.to_string()).collect());
    vec![
        TopicFilter::All,
        TopicFilter::Shard("s1".into()),
        TopicFilter::Tenant(1),
        ms(&["cpu"]),
        ms(&["cpu", "mem"]),
        // lists in no particular order (the variant is public: nothing sorts or de-duplicates it)
        ms(&["net", "mem", "cpu"]),
        TopicFilter::Shard("s2".into()),
        TopicFilter::Tenant(2),
        ms(&["mem"]),
        ms(&[]),
        ms(&["mem", "cpu", "cpu"]),
    ]
}

fn topic_lists(items: &[TopicFilter], max_len: usize) -> Vec<Vec<TopicFilter>> {
    let mut out: Vec<Vec<TopicFilter>> = vec![vec![]];
    let mut last: Vec<Vec<TopicFilter>> = vec![vec![]];
    for _ in 0..max_len {
        let mut next = Vec::new();
        for l in &last {
            for it in items {
                let mut n = l.clone();
                n.push(it.clone());
                next.push(n);
            }
        }
        out.extend(next.iter().cloned());
        last = next;
    }
    out
}

/// all trees of depth <= 2, simplest first
fn topic_filters(tier: &str) -> Vec<TopicFilter> {
    let thorough = tier == "thorough";
    let atoms = topic_atoms();
    let mut out = atoms.clone();
    // depth 1
    let mut d1 = Vec::new();
    for l in topic_lists(&atoms, 3) {
        d1.push(TopicFilter::And(l.clone()));
        d1.push(TopicFilter::Or(l));
    }
    out.extend(d1.iter().cloned());
    // depth 2: members are atoms or depth-1 trees with <= 2 members (quick: over the first six atoms)
    let base: &[TopicFilter] = if thorough { &atoms[..] } else { &atoms[..6] };
    let mut members: Vec<TopicFilter> = base.to_vec();
    for l in topic_lists(base, 2) {
        members.push(TopicFilter::And(l.clone()));
        members.push(TopicFilter::Or(l));
    }
    for l in topic_lists(&members, 2) {
        if l.iter().all(|m| !matches!(m, TopicFilter::And(_) | TopicFilter::Or(_))) {
            continue; // depth 1, already listed
        }
        out.push(TopicFilter::And(l.clone()));
        out.push(TopicFilter::Or(l));
    }
    out
}

fn topic_metadata() -> Vec<BatchMetadata> {
    let mut out = Vec::new();
    let metric_sets: [&[&str]; 9] = [&[], &["cpu"], &["mem"], &["cpu", "mem"], &["mem", "cpu"], &["disk"], &["disk", "cpu"], &["net"], &["disk", "net"]];
    for shard in ["s1", "s2", "s3"] {
        for tenant in [1u32, 2, 3] {
            for ms in metric_sets {
                out.push(BatchMetadata { shard_id: shard.to_string(), tenant_id: tenant, metrics: ms.iter().map(|x| x.to_string()).collect() });
            }
        }
    }
    out
}

fn id_batch(id: i64) -> RecordBatch {
    RecordBatch::try_new(Arc::new(Schema::new(vec![Field::new("id", DataType::Int64, false)])), vec![Arc::new(Int64Array::from(vec![id]))]).expect("id batch")
}

fn batch_id(b: &RecordBatch) -> i64 {
    b.column(0).as_any().downcast_ref::<Int64Array>().map(|a| a.value(0)).unwrap_or(-1)
}

#[derive(Default)]
struct TopicAcc {
    filters: u64,
    match_evals: u64,
    deliveries_checked: u64,
    delivered: u64,
    filtered_out: u64,
    receivers_that_filtered: u64,
    builder_checks: u64,
    resubscribe_checks: u64,
    viol: BTreeMap<String, VRec>,
    machinery: Vec<String>,
    samples: Vec<Value>,
}

/// what a receiver got until the channel closed
async fn drain(rx: &mut cardinalsin::ingester::FilteredReceiver) -> Result<Vec<i64>, String> {
    let mut ids = Vec::new();
    loop {
        match tokio::time::timeout(std::time::Duration::from_secs(20), rx.recv()).await {
            Err(_) => return Err("receiver still waiting 20 s after the channel was closed".into()),
            Ok(Ok(b)) => ids.push(batch_id(&b)),
            Ok(Err(tokio::sync::broadcast::error::RecvError::Closed)) => return Ok(ids),
            Ok(Err(tokio::sync::broadcast::error::RecvError::Lagged(n))) => return Err(format!("lagged by {n} although the channel is larger than the number of batches")),
        }
    }
}

fn delivery_diff(want: &[i64], got: &[i64]) -> Option<&'static str> {
    if want == got {
        return None;
    }
    let ws: BTreeSet<i64> = want.iter().copied().collect();
    let gs: BTreeSet<i64> = got.iter().copied().collect();
    Some(if gs.len() != got.len() {
        "batch-delivered-twice"
    } else if ws == gs {
        "delivered-out-of-send-order"
    } else if gs.is_subset(&ws) {
        "matching-batch-not-delivered"
    } else if ws.is_subset(&gs) {
        "non-matching-batch-delivered"
    } else {
        "wrong-batches-delivered"
    })
}

async fn topic_group(acc: &mut TopicAcc, base: usize, group: &[TopicFilter], metas: &[BatchMetadata], batches: &[RecordBatch]) {
    // 1. TopicFilter::matches against the specification
    let mut want: Vec<Vec<i64>> = Vec::new();
    for (gi, f) in group.iter().enumerate() {
        acc.filters += 1;
        let mut w = Vec::new();
        for (mi, m) in metas.iter().enumerate() {
            acc.match_evals += 1;
            let exp = topic_ref(f, m);
            if exp {
                w.push(mi as i64);
            }
            let got = catch_unwind(AssertUnwindSafe(|| f.matches(m)));
            let bad = match &got {
                Ok(g) => *g != exp,
                Err(_) => true,
            };
            if bad {
                let sig = match (&got, topic_blame(f, m)) {
                    (Err(_), _) => "C18:topic:matches-panic".to_string(),
                    (_, Some((kind, g))) => format!("C18:topic:{kind}-filter:{}", if g { "accepts-batch-it-should-reject" } else { "rejects-batch-it-should-accept" }),
                    _ => "C18:topic:matches-differs".to_string(),
                };
                let (fj, mj) = (topic_json(f), meta_json(m));
                let o = (3, base + gi, 0, mi);
                match acc.viol.get_mut(&sig) {
                    Some(v) => {
                        v.count += 1;
                        if o < v.order {
                            v.order = o;
                        }
                    }
                    None => {
                        acc.viol.insert(sig, VRec { order: o, msg: format!("TopicFilter::matches({fj}, {mj}) = {:?}, the filter's meaning says {exp}", got.as_ref().ok()), replay: json!({"kind": "topic", "filter": fj, "metadata": [mj]}), count: 1 });
                    }
                }
            }
        }
        want.push(w);
    }
    // 2. delivery through the channel: all receivers of the group subscribed to ONE channel, every metadata sent once
    let ch = TopicBroadcastChannel::new(metas.len() + 8);
    let mut rxs = Vec::new();
    for f in group {
        rxs.push(ch.subscribe(f.clone()).await);
    }
    let half = metas.len() / 2;
    let mut late = None;
    for (mi, m) in metas.iter().enumerate() {
        if mi == half {
            late = Some(rxs[0].resubscribe());
        }
        if ch.send(TopicBatch { batch: batches[mi].clone(), metadata: m.clone() }).is_err() {
            acc.machinery.push("topic channel send failed although receivers are subscribed".into());
        }
    }
    drop(ch);
    let mut results: Vec<(usize, Vec<i64>, Result<Vec<i64>, String>, (u64, u64), &'static str)> = Vec::new();
    for (gi, rx) in rxs.iter_mut().enumerate() {
        let r = drain(rx).await;
        results.push((gi, want[gi].clone(), r, rx.stats(), "subscribe"));
    }
    if let Some(mut rx) = late {
        let r = drain(&mut rx).await;
        let w: Vec<i64> = want[0].iter().copied().filter(|i| *i >= half as i64).collect();
        results.push((0, w, r, rx.stats(), "resubscribe"));
        acc.resubscribe_checks += 1;
    }
    for (gi, w, r, stats, how) in results {
        acc.deliveries_checked += 1;
        acc.delivered += stats.0;
        acc.filtered_out += stats.1;
        if stats.1 > 0 {
            acc.receivers_that_filtered += 1;
        }
        let f = &group[gi];
        let problem = match &r {
            Err(e) => Some(("receiver-stuck-or-lagged", e.clone())),
            Ok(g) => delivery_diff(&w, g).map(|d| (d, format!("delivered batches {g:?}, batches whose metadata satisfies the filter {w:?}"))),
        };
        if let Some((d, detail)) = problem {
            // a wrong `matches` verdict explains a wrong delivery: same cause, same signature
            let blamed = metas.iter().find_map(|m| topic_blame(f, m));
            let sig = match blamed {
                Some((kind, g)) => format!("C18:topic:{kind}-filter:{}", if g { "accepts-batch-it-should-reject" } else { "rejects-batch-it-should-accept" }),
                None => format!("C18:topic:receiver({how}):{d}"),
            };
            let fj = topic_json(f);
            let o = (3, base + gi, 1, 0);
            match acc.viol.get_mut(&sig) {
                Some(v) => v.count += 1,
                None => {
                    acc.viol.insert(sig, VRec { order: o, msg: format!("FilteredReceiver ({how}) with filter {fj}: {detail}"), replay: json!({"kind": "topic", "filter": fj, "metadata": metas.iter().map(meta_json).collect::<Vec<_>>(), "how": how}), count: 1 });
                }
            }
        } else if acc.samples.len() < 2 && !w.is_empty() && w.len() < metas.len() / 3 && base % 97 == 0 {
            acc.samples.push(json!({"sub_space": "topic", "filter": topic_json(f), "batches_sent": metas.len(), "delivered_ids": w, "first_delivered_metadata": meta_json(&metas[w[0] as usize])}));
        }
    }
}

fn run_topic(tier: &str, threads: usize) -> TopicAcc {
    let t0 = std::time::Instant::now();
    let filters = topic_filters(tier);
    let metas = topic_metadata();
    let batches: Vec<RecordBatch> = (0..metas.len() as i64).map(id_batch).collect();
    let next = AtomicUsize::new(0);
    const G: usize = 4;
    let accs: Vec<TopicAcc> = std::thread::scope(|sc| {
        let hs: Vec<_> = (0..threads)
            .map(|_| {
                sc.spawn(|| {
                    let rt = tokio::runtime::Builder::new_current_thread().enable_all().build().expect("rt");
                    let mut acc = TopicAcc::default();
                    rt.block_on(async {
                        loop {
                            let start = next.fetch_add(G * 16, Ordering::SeqCst);
                            if start >= filters.len() {
                                break;
                            }
                            let end = (start + G * 16).min(filters.len());
                            let mut b = start;
                            while b < end {
                                let e = (b + G).min(end);
                                topic_group(&mut acc, b, &filters[b..e], &metas, &batches).await;
                                b = e;
                            }
                        }
                    });
                    acc
                })
            })
            .collect();
        hs.into_iter().map(|h| h.join().expect("topic thread")).collect()
    });
    let mut total = TopicAcc::default();
    for a in accs {
        total.filters += a.filters;
        total.match_evals += a.match_evals;
        total.deliveries_checked += a.deliveries_checked;
        total.delivered += a.delivered;
        total.filtered_out += a.filtered_out;
        total.receivers_that_filtered += a.receivers_that_filtered;
        total.resubscribe_checks += a.resubscribe_checks;
        total.machinery.extend(a.machinery);
        for x in a.samples {
            if total.samples.len() < 2 {
                total.samples.push(x);
            }
        }
        for (sig, v) in a.viol {
            match total.viol.get_mut(&sig) {
                Some(m) => {
                    m.count += v.count;
                    if v.order < m.order {
                        let c = m.count;
                        *m = v;
                        m.count = c;
                    }
                }
                None => {
                    total.viol.insert(sig, v);
                }
            }
        }
    }
    // 3. the `and()` builder: a.and(b) must mean "a and b"
    let small: Vec<TopicFilter> = filters.iter().take(9 + 2 * (1 + 9 + 81)).cloned().collect();
    for (ai, a) in small.iter().enumerate() {
        for b in &small {
            let c = a.clone().and(b.clone());
            total.builder_checks += 1;
            for m in &metas {
                let exp = topic_ref(a, m) && topic_ref(b, m);
                if c.matches(m) != exp {
                    let sig = match topic_blame(&c, m) {
                        Some((kind, g)) => format!("C18:topic:{kind}-filter:{}", if g { "accepts-batch-it-should-reject" } else { "rejects-batch-it-should-accept" }),
                        None => "C18:topic:and-builder:combined-filter-differs-from-conjunction".to_string(),
                    };
                    let sig = sig.as_str();
                    match total.viol.get_mut(sig) {
                        Some(v) => v.count += 1,
                        None => {
                            total.viol.insert(sig.into(), VRec { order: (3, ai, 2, 0), msg: format!("({}).and({}) = {} ; on {} it gives {}, the conjunction gives {exp}", topic_json(a), topic_json(b), topic_json(&c), meta_json(m), !exp), replay: json!({"kind": "topic", "filter": topic_json(&c), "metadata": [meta_json(m)], "built_from": [topic_json(a), topic_json(b)]}), count: 1 });
                        }
                    }
                }
            }
        }
    }
    println!(
        "C18 C topic: {} filter trees (depth <= 2) x {} batch metadata = {} matches() verdicts; {} receivers drained ({} via resubscribe), {} batches delivered / {} filtered out; {} and()-builder pairs; {:.1}s",
        total.filters, metas.len(), total.match_evals, total.deliveries_checked, total.resubscribe_checks, total.delivered, total.filtered_out, total.builder_checks, t0.elapsed().as_secs_f64()
    );
    total
}

fn replay_topic(v: &Value) -> i32 {
    let (Some(f), Some(ms)) = (topic_from_json(&v["filter"]), v["metadata"].as_array()) else {
        println!("MACHINERY: bad topic replay");
        return 2;
    };
    let metas: Vec<BatchMetadata> = ms.iter().filter_map(meta_from_json).collect();
    println!("filter: {}", topic_json(&f));
    let mut bad = 0;
    let mut want = Vec::new();
    for (i, m) in metas.iter().enumerate() {
        let (g, e) = (f.matches(m), topic_ref(&f, m));
        if e {
            want.push(i as i64);
        }
        if g != e {
            bad += 1;
            println!("  batch {i} {}: matches() = {g}, the filter's meaning says {e}", meta_json(m));
        }
    }
    let rt = tokio::runtime::Builder::new_current_thread().enable_all().build().expect("rt");
    let got = rt.block_on(async {
        let ch = TopicBroadcastChannel::new(metas.len() + 8);
        let mut rx = ch.subscribe(f.clone()).await;
        for (i, m) in metas.iter().enumerate() {
            let _ = ch.send(TopicBatch { batch: id_batch(i as i64), metadata: m.clone() });
        }
        drop(ch);
        drain(&mut rx).await
    });
    println!("batches whose metadata satisfies the filter: {want:?}\ndelivered by FilteredReceiver: {got:?}");
    if bad > 0 || got.as_ref().ok() != Some(&want) {
        println!("VIOLATION reproduced");
        1
    } else {
        println!("no violation");
        0
    }
}

// ------------------------------------------------------------------------------------------------
// Sub-space B: the stream end to end (Ingester flush -> broadcast -> StreamingQueryExecutor -> subscriber)
// ------------------------------------------------------------------------------------------------

const STREAM_TENANT: u32 = 7;
/// flush sequences: indices into SMALL_ROWS (rows 0,1,4,5 are cpu, rows 2,3,6,7 are mem; row 0 is before the merge point)
const STREAM_SEQS: [&[&[usize]]; 3] = [
    &[&[0, 1, 5], &[2, 3], &[4, 6, 7], &[5]],
    &[&[3], &[1, 4], &[0], &[7, 2, 6], &[5, 3]],
    &[&[6, 7, 2], &[0, 0], &[5, 1, 4], &[3, 4]],
];

fn stream_topics() -> Vec<TopicFilter> {
    let ms = |v: &[&str]| TopicFilter::Metrics(v.iter().map(|x| x.to_string()).collect());
    vec![
        TopicFilter::All,
        ms(&["mem"]),
        TopicFilter::Tenant(STREAM_TENANT),
        ms(&["cpu"]),
        TopicFilter::Tenant(STREAM_TENANT + 1),
        TopicFilter::And(vec![TopicFilter::Tenant(STREAM_TENANT), ms(&["mem"])]),
        ms(&["disk"]),
        TopicFilter::Or(vec![TopicFilter::Tenant(STREAM_TENANT + 1), ms(&["cpu"])]),
    ]
}

type Items = Vec<Result<RecordBatch, String>>;

async fn collect_stream(mut rx: tokio::sync::mpsc::Receiver<cardinalsin::Result<RecordBatch>>) -> Result<Items, String> {
    let mut out = Vec::new();
    loop {
        match tokio::time::timeout(std::time::Duration::from_secs(30), rx.recv()).await {
            Err(_) => return Err("stream still open 30 s after the ingester was dropped".into()),
            Ok(None) => return Ok(out),
            Ok(Some(Ok(b))) => {
                if b.num_rows() > 0 {
                    out.push(Ok(b))
                }
            }
            Ok(Some(Err(e))) => out.push(Err(format!("{e}"))),
        }
    }
}

enum StreamOutcome {
    /// the query was refused before streaming started (outside the property)
    Refused(String),
    Ran { legacy: Result<Items, String>, topic: Result<Items, String> },
    Machinery(String),
}

async fn stream_case(sql: &str, topic: &TopicFilter, batches: &[RecordBatch]) -> StreamOutcome {
    use cardinalsin::metadata::{LocalMetadataClient, MetadataClient};
    use object_store::ObjectStore;
    let store: Arc<dyn ObjectStore> = Arc::new(object_store::memory::InMemory::new());
    let meta: Arc<dyn MetadataClient> = Arc::new(LocalMetadataClient::new());
    let mut cfg = IngesterConfig::default();
    cfg.flush_row_count = 1; // every write is flushed (and broadcast) at once
    cfg.wal.enabled = false;
    let ingester = Ingester::with_shard_config(
        cfg,
        store.clone(),
        meta.clone(),
        cardinalsin::StorageConfig::default(),
        cardinalsin::schema::MetricSchema::default_metrics(),
        cardinalsin::sharding::HotShardConfig::default(),
        STREAM_TENANT,
    );
    let mut node = match QueryNode::new(QueryConfig::default(), store, meta, cardinalsin::StorageConfig::default()).await {
        Ok(n) => n,
        Err(e) => return StreamOutcome::Machinery(format!("QueryNode::new: {e}")),
    };
    node.connect_broadcast(ingester.subscribe());
    let node = node.with_topic_filter(ingester.subscribe_filtered(topic.clone()).await);
    let rx_legacy = match node.query_stream(sql).await {
        Ok(r) => r,
        Err(e) => return StreamOutcome::Refused(format!("{e}")),
    };
    let rx_topic = match node.query_stream_filtered(sql).await {
        Ok(r) => r,
        Err(e) => return StreamOutcome::Refused(format!("{e}")),
    };
    for b in batches {
        if let Err(e) = ingester.write(b.clone()).await {
            return StreamOutcome::Machinery(format!("ingester.write: {e}"));
        }
    }
    drop(ingester); // closes both channels: the streams end after the flushed batches
    let legacy = collect_stream(rx_legacy).await;
    let topic = collect_stream(rx_topic).await;
    drop(node);
    StreamOutcome::Ran { legacy, topic }
}

#[derive(Default)]
struct StreamAcc {
    cases: u64,
    refused: u64,
    refused_by_reference: u64,
    streams_checked: u64,
    batches_flushed: u64,
    batches_delivered: u64,
    batches_suppressed_by_rows: u64,
    batches_suppressed_by_topic: u64,
    partially_delivered: u64,
    streams_nontrivial: u64,
    viol: BTreeMap<String, VRec>,
    machinery: Vec<String>,
    samples: Vec<Value>,
    refused_samples: Vec<Value>,
}

/// all rows of a sequence of batches as one batch (`None` for no rows; `Some(Err)` never compares equal to a row sequence)
fn flatten(xs: &[RecordBatch]) -> Option<Result<RecordBatch, String>> {
    if xs.is_empty() {
        None
    } else {
        Some(arrow::compute::concat_batches(&xs[0].schema(), xs).map_err(|e| format!("{e}")))
    }
}

fn seq_diff(want: &[RecordBatch], got: &[RecordBatch]) -> &'static str {
    let count = |xs: &[RecordBatch], b: &RecordBatch| xs.iter().filter(|x| *x == b).count();
    if got.iter().any(|g| count(got, g) > count(want, g) && count(want, g) > 0) {
        "batch-delivered-twice"
    } else if got.len() == want.len() && got.iter().all(|g| count(got, g) == count(want, g)) {
        "delivered-out-of-flush-order"
    } else if got.len() < want.len() && got.iter().all(|g| count(want, g) >= count(got, g)) {
        "batch-not-delivered"
    } else if got.len() > want.len() && want.iter().all(|w| count(got, w) >= count(want, w)) {
        "unexpected-batch-delivered"
    } else {
        "rows-differ"
    }
}

struct StreamCaseSpec<'a> {
    idx: usize,
    clause: &'a Clause,
    v: Variant,
    topic: &'a TopicFilter,
    seq: usize,
}

async fn check_stream_case(acc: &mut StreamAcc, uni_ctx: &[SessionContext; 2], failed: &HashMap<(Variant, String), String>, cs: &StreamCaseSpec<'_>) {
    let (v, c) = (cs.v, cs.clause);
    acc.cases += 1;
    let truth = match ref_truth(&uni_ctx[v as usize], &c.text, UNIVERSE).await {
        Ok(t) => t,
        Err(_) => {
            acc.refused_by_reference += 1;
            return;
        }
    };
    let sql = sql_of(&c.text);
    let seq = STREAM_SEQS[cs.seq];
    let rows: Vec<Vec<Row>> = seq.iter().map(|b| b.iter().map(|i| SMALL_ROWS[*i]).collect()).collect();
    let batches: Vec<RecordBatch> = rows.iter().map(|r| build_batch(v, r, None)).collect();
    let (legacy, topic) = match stream_case(&sql, cs.topic, &batches).await {
        StreamOutcome::Refused(e) => {
            acc.refused += 1;
            if acc.refused_samples.len() < 4 {
                acc.refused_samples.push(json!({"variant": v.name(), "sql": sql, "refused": e.chars().take(160).collect::<String>()}));
            }
            return;
        }
        StreamOutcome::Machinery(e) => {
            acc.machinery.push(format!("[{}] {sql}: {e}", v.name()));
            return;
        }
        StreamOutcome::Ran { legacy, topic } => (legacy, topic),
    };
    let filter = QueryFilter::from_sql(&sql);
    for (kind, got) in [("legacy-broadcast", legacy), ("topic-filtered", topic)] {
        acc.streams_checked += 1;
        // which flushed batches reach the executor at all
        let mut want = Vec::new();
        let mut unit = Vec::new();
        let mut topic_blamed: Option<String> = None;
        for (bi, b) in batches.iter().enumerate() {
            acc.batches_flushed += 1;
            if kind == "topic-filtered" {
                let names: BTreeSet<&str> = rows[bi].iter().map(|r| METRIC[r[1] as usize]).collect();
                let md = BatchMetadata { shard_id: String::new(), tenant_id: STREAM_TENANT, metrics: names.iter().map(|s| s.to_string()).collect() };
                if let (None, Some((k, g))) = (&topic_blamed, topic_blame(cs.topic, &md)) {
                    topic_blamed = Some(format!("C18:topic:{k}-filter:{}", if g { "accepts-batch-it-should-reject" } else { "rejects-batch-it-should-accept" }));
                }
                if !topic_ref(cs.topic, &md) {
                    acc.batches_suppressed_by_topic += 1;
                    continue;
                }
            }
            let mask: Vec<bool> = rows[bi].iter().map(|r| truth[idx_of(r)] && TS_OFF[r[0] as usize] >= 0).collect();
            let n = mask.iter().filter(|m| **m).count();
            if n == 0 {
                acc.batches_suppressed_by_rows += 1;
            } else {
                if n < mask.len() {
                    acc.partially_delivered += 1;
                }
                want.push(filter_record_batch(b, &BooleanArray::from(mask)).expect("filter"));
            }
            if let Got::Rows(Some(u)) = subject_apply(&filter, b, M) {
                unit.push(u);
            }
        }
        let (sig, detail): (String, String) = match got {
            Err(e) => (format!("C18:stream:{kind}:stream-never-ends"), e),
            Ok(items) => {
                if let Some(Err(e)) = items.iter().find(|i| i.is_err()) {
                    (format!("C18:stream:{kind}:error-item"), e.clone())
                } else {
                    let got: Vec<RecordBatch> = items.into_iter().filter_map(|i| i.ok()).collect();
                    acc.batches_delivered += got.len() as u64;
                    if got.len() < batches.len() {
                        acc.streams_nontrivial += 1;
                    }
                    // rows, not batch boundaries, are what the property speaks about
                    if flatten(&got) == flatten(&want) {
                        if acc.samples.len() < 2 && !want.is_empty() && want.len() < batches.len() && cs.idx % 5 == 2 {
                            acc.samples.push(json!({"sub_space": "stream", "receiver": kind, "variant": v.name(), "sql": sql, "topic": topic_json(cs.topic),
                                "rows_per_flushed_batch": rows.iter().map(|r| r.len()).collect::<Vec<_>>(), "first_flushed_batch": rows[0].iter().map(row_json).collect::<Vec<_>>(),
                                "rows_per_delivered_batch": want.iter().map(|b| b.num_rows()).collect::<Vec<_>>()}));
                        }
                        continue;
                    }
                    let rows_of = |xs: &[RecordBatch]| xs.iter().map(|b| b.num_rows()).collect::<Vec<_>>();
                    if flatten(&got) == flatten(&unit) {
                        // the executor delivered exactly what QueryFilter yields: the cause is the row filter's
                        let s = failed.get(&(v, c.text.clone())).cloned().unwrap_or_else(|| format!("C18:stream:{kind}:row-filter-differs-from-clause"));
                        (s, format!("delivered batches have {:?} rows, expected {:?} (the stream delivers what QueryFilter::apply yields)", rows_of(&got), rows_of(&want)))
                    } else if let Some(ts) = topic_blamed.clone() {
                        (ts, format!("delivered batches have {:?} rows, the clause and the topic filter demand {:?}", rows_of(&got), rows_of(&want)))
                    } else {
                        let d = if kind == "topic-filtered" && got.len() != unit.len() { format!("{}(topic)", seq_diff(&want, &got)) } else { seq_diff(&unit, &got).to_string() };
                        (format!("C18:stream:{kind}:{d}"), format!("delivered batches have {:?} rows, QueryFilter::apply on the batches that reach the executor yields {:?}, the clause demands {:?}", rows_of(&got), rows_of(&unit), rows_of(&want)))
                    }
                }
            }
        };
        let o = (4, cs.idx, v as u8, 0);
        let replay = json!({"kind": "stream", "variant": v.name(), "where": c.text, "sql": sql, "topic": topic_json(cs.topic), "seq": cs.seq, "receiver": kind});
        match acc.viol.get_mut(&sig) {
            Some(x) => {
                x.count += 1;
                if o < x.order {
                    x.order = o;
                    x.msg = format!("[{}] {kind} stream of {sql} (topic {}): {detail}", v.name(), topic_json(cs.topic));
                    x.replay = replay;
                }
            }
            None => {
                acc.viol.insert(sig, VRec { order: o, msg: format!("[{}] {kind} stream of {sql} (topic {}): {detail}", v.name(), topic_json(cs.topic)), replay, count: 1 });
            }
        }
    }
}

fn run_stream(tier: &str, space: &ClauseSpace, failed: &HashMap<(Variant, String), String>, threads: usize) -> StreamAcc {
    let t0 = std::time::Instant::now();
    let topics = stream_topics();
    // all single comparisons, then every k-th compound clause (a fixed stride, not a random sample)
    let stride = if tier == "thorough" { 5 } else { 41 };
    let mut clauses: Vec<&Clause> = space.singles.iter().collect();
    clauses.extend(space.compounds.iter().step_by(stride));
    let mut specs = Vec::new();
    for (i, c) in clauses.iter().enumerate() {
        for v in VARIANTS {
            let idx = specs.len();
            specs.push(StreamCaseSpec { idx, clause: c, v, topic: &topics[(i + v as usize * 3) % topics.len()], seq: (i / topics.len()) % STREAM_SEQS.len() });
        }
    }
    let next = AtomicUsize::new(0);
    let accs: Vec<StreamAcc> = std::thread::scope(|sc| {
        let hs: Vec<_> = (0..threads)
            .map(|_| {
                sc.spawn(|| {
                    let e = EnvState::new();
                    env::install(&e);
                    let acc = {
                        let rt = tokio::runtime::Builder::new_current_thread().enable_all().build().expect("rt");
                        let uni_ctx = [ref_ctx(universe_ref_batch(Variant::TsNs)), ref_ctx(universe_ref_batch(Variant::TsI64))];
                        let mut acc = StreamAcc::default();
                        rt.block_on(async {
                            loop {
                                let start = next.fetch_add(8, Ordering::SeqCst);
                                if start >= specs.len() {
                                    break;
                                }
                                for cs in &specs[start..(start + 8).min(specs.len())] {
                                    check_stream_case(&mut acc, &uni_ctx, failed, cs).await;
                                }
                            }
                        });
                        acc
                    };
                    env::uninstall();
                    drop(e);
                    acc
                })
            })
            .collect();
        hs.into_iter().map(|h| h.join().expect("stream thread")).collect()
    });
    let mut t = StreamAcc::default();
    for a in accs {
        t.cases += a.cases;
        t.refused += a.refused;
        t.refused_by_reference += a.refused_by_reference;
        t.streams_checked += a.streams_checked;
        t.batches_flushed += a.batches_flushed;
        t.batches_delivered += a.batches_delivered;
        t.batches_suppressed_by_rows += a.batches_suppressed_by_rows;
        t.batches_suppressed_by_topic += a.batches_suppressed_by_topic;
        t.partially_delivered += a.partially_delivered;
        t.streams_nontrivial += a.streams_nontrivial;
        t.machinery.extend(a.machinery);
        for x in a.samples {
            if t.samples.len() < 2 {
                t.samples.push(x);
            }
        }
        for x in a.refused_samples {
            if t.refused_samples.len() < 4 {
                t.refused_samples.push(x);
            }
        }
        for (sig, v) in a.viol {
            match t.viol.get_mut(&sig) {
                Some(m) => {
                    m.count += v.count;
                    if v.order < m.order {
                        let c = m.count;
                        *m = v;
                        m.count = c;
                    }
                }
                None => {
                    t.viol.insert(sig, v);
                }
            }
        }
    }
    println!(
        "C18 B stream: {} cases ({} clauses x 2 schemas; topic filter and flush sequence rotate), {} skipped (DataFusion rejects the clause), {} refused by query_stream; {} streams checked, {} batches flushed -> {} delivered, {} suppressed by rows, {} by topic, {} delivered in part; {:.1}s",
        t.cases, clauses.len(), t.refused_by_reference, t.refused, t.streams_checked, t.batches_flushed, t.batches_delivered, t.batches_suppressed_by_rows, t.batches_suppressed_by_topic, t.partially_delivered, t0.elapsed().as_secs_f64()
    );
    t
}

fn replay_stream(r: &Value) -> i32 {
    let (Some(v), Some(topic)) = (r["variant"].as_str().and_then(Variant::from_name), topic_from_json(&r["topic"])) else {
        println!("MACHINERY: bad stream replay");
        return 2;
    };
    let wh = r["where"].as_str().unwrap_or("").to_string();
    let seq = r["seq"].as_u64().unwrap_or(0) as usize % STREAM_SEQS.len();
    let clause = Clause { text: wh.clone(), leaves: vec![], n_and: 0, n_or: 0, space: "replay" };
    let e = EnvState::new();
    env::install(&e);
    let rt = tokio::runtime::Builder::new_current_thread().enable_all().build().expect("rt");
    let uni_ctx = [ref_ctx(universe_ref_batch(Variant::TsNs)), ref_ctx(universe_ref_batch(Variant::TsI64))];
    let mut acc = StreamAcc::default();
    let none = HashMap::new();
    println!("sql: {}\nschema variant: {}  topic filter: {}  tenant of the ingester: {STREAM_TENANT}", sql_of(&wh), v.name(), topic_json(&topic));
    for (i, b) in STREAM_SEQS[seq].iter().enumerate() {
        let rows: Vec<Row> = b.iter().map(|i| SMALL_ROWS[*i]).collect();
        println!("flush {i}:\n{}", show(&Some(build_batch(v, &rows, None))));
    }
    rt.block_on(check_stream_case(&mut acc, &uni_ctx, &none, &StreamCaseSpec { idx: 0, clause: &clause, v, topic: &topic, seq }));
    drop(rt);
    env::uninstall();
    for m in &acc.machinery {
        println!("MACHINERY: {m}");
    }
    if !acc.machinery.is_empty() {
        return 2;
    }
    for (sig, x) in &acc.viol {
        println!("violation [{sig}]: {}", x.msg);
    }
    if acc.viol.is_empty() {
        println!("no violation: both streams deliver exactly the clause's rows ({} streams checked, {} refused)", acc.streams_checked, acc.refused + acc.refused_by_reference);
        0
    } else {
        1
    }
}

// ------------------------------------------------------------------------------------------------
// Sub-space D: the documented WebSocket API (/api/v1/stream with {"query": .., "live": true})
// ------------------------------------------------------------------------------------------------

#[derive(Default)]
struct WsAcc {
    cases: u64,
    refused: u64,
    streams_checked: u64,
    rows_flushed: u64,
    rows_delivered: u64,
    streams_nontrivial: u64,
    viol: BTreeMap<String, VRec>,
    machinery: Vec<String>,
    samples: Vec<Value>,
}

fn ws_row_key_of(v: &Value) -> String {
    let f = v["value_f64"].as_f64().map(|x| format!("{x:.9e}")).unwrap_or_else(|| "null".into());
    format!("{}|{}|{}|{}|{}", v["timestamp"], v["metric_name"], v["host"], f, v["value_i64"])
}

fn ws_row_key(r: &Row) -> String {
    ws_row_key_of(&json!({
        "timestamp": M + TS_OFF[r[0] as usize], "metric_name": METRIC[r[1] as usize], "host": HOST[r[2] as usize],
        "value_f64": F64[r[3] as usize], "value_i64": I64[r[4] as usize],
    }))
}

fn is_subsequence<T: PartialEq>(small: &[T], big: &[T]) -> bool {
    let mut i = 0;
    for b in big {
        if i < small.len() && small[i] == *b {
            i += 1;
        }
    }
    i == small.len()
}

enum WsOutcome {
    #[allow(dead_code)]
    Refused(String),
    Delivered(Vec<String>),
    Machinery(String),
}

async fn ws_case(sql: &str, batches: &[RecordBatch]) -> WsOutcome {
    use cardinalsin::metadata::{LocalMetadataClient, MetadataClient};
    use futures::{SinkExt, StreamExt};
    use object_store::ObjectStore;
    use tokio_tungstenite::tungstenite::Message;
    let store: Arc<dyn ObjectStore> = Arc::new(object_store::memory::InMemory::new());
    let meta: Arc<dyn MetadataClient> = Arc::new(LocalMetadataClient::new());
    let mut cfg = IngesterConfig::default();
    cfg.flush_row_count = 1;
    cfg.wal.enabled = false;
    let ingester = Arc::new(Ingester::new(cfg, store.clone(), meta.clone(), cardinalsin::StorageConfig::default(), cardinalsin::schema::MetricSchema::default_metrics()));
    let node = match QueryNode::new(QueryConfig::default(), store, meta, cardinalsin::StorageConfig::default()).await {
        Ok(n) => Arc::new(n),
        Err(e) => return WsOutcome::Machinery(format!("QueryNode::new: {e}")),
    };
    let router = cardinalsin::api::build_http_router(ingester.clone(), node);
    let listener = match tokio::net::TcpListener::bind("127.0.0.1:0").await {
        Ok(l) => l,
        Err(e) => return WsOutcome::Machinery(format!("bind loopback: {e}")),
    };
    let addr = listener.local_addr().expect("addr");
    let server = tokio::spawn(async move {
        let _ = axum::serve(listener, router).await;
    });
    let out = async {
        let (mut ws, _) = match tokio_tungstenite::connect_async(format!("ws://{addr}/api/v1/stream")).await {
            Ok(x) => x,
            Err(e) => return WsOutcome::Machinery(format!("websocket connect: {e}")),
        };
        if let Err(e) = ws.send(Message::Text(json!({"query": sql, "live": true}).to_string())).await {
            return WsOutcome::Machinery(format!("websocket send: {e}"));
        }
        let mut rows: Vec<String> = Vec::new();
        let mut ended = false;
        let mut absorb = |m: Message, rows: &mut Vec<String>, ended: &mut bool| -> Option<String> {
            if let Message::Text(t) = m {
                let v: Value = serde_json::from_str(&t).unwrap_or(Value::Null);
                match v["type"].as_str() {
                    Some("data") => rows.extend(v["data"].as_array().map(|a| a.iter().map(ws_row_key_of).collect::<Vec<_>>()).unwrap_or_default()),
                    Some("error") => return Some(v["data"]["error"].as_str().unwrap_or("error").to_string()),
                    Some("end") => *ended = true,
                    _ => {}
                }
            }
            None
        };
        // 1. wait until the handler has subscribed to the ingester's broadcast (the historical part is empty)
        let t0 = std::time::Instant::now();
        while ingester.verif_broadcast_state().0 == 0 {
            if let Ok(Some(Ok(m))) = tokio::time::timeout(std::time::Duration::from_millis(1), ws.next()).await {
                if let Some(e) = absorb(m, &mut rows, &mut ended) {
                    return WsOutcome::Refused(e);
                }
            }
            if ended || t0.elapsed().as_secs() > 20 {
                return WsOutcome::Machinery("the websocket handler never subscribed to the ingester".into());
            }
        }
        // 2. flush, 3. wait until the handler has taken every batch off the channel
        for b in batches {
            if let Err(e) = ingester.write(b.clone()).await {
                return WsOutcome::Machinery(format!("ingester.write: {e}"));
            }
        }
        let t0 = std::time::Instant::now();
        while ingester.verif_broadcast_state().1 > 0 {
            if let Ok(Some(Ok(m))) = tokio::time::timeout(std::time::Duration::from_millis(1), ws.next()).await {
                if let Some(e) = absorb(m, &mut rows, &mut ended) {
                    return WsOutcome::Machinery(format!("error message after the stream started: {e}"));
                }
            }
            if t0.elapsed().as_secs() > 20 {
                return WsOutcome::Machinery("the websocket handler stopped consuming flushed batches".into());
            }
        }
        // 4. close: the handler finishes the message in progress, then says "end"
        let _ = ws.send(Message::Close(None)).await;
        let t0 = std::time::Instant::now();
        while !ended {
            match tokio::time::timeout(std::time::Duration::from_secs(5), ws.next()).await {
                Ok(Some(Ok(m))) => {
                    if let Some(e) = absorb(m, &mut rows, &mut ended) {
                        return WsOutcome::Machinery(format!("error message after the stream started: {e}"));
                    }
                }
                _ => break,
            }
            if t0.elapsed().as_secs() > 20 {
                break;
            }
        }
        WsOutcome::Delivered(rows)
    }
    .await;
    server.abort();
    out
}

async fn check_ws_case(acc: &mut WsAcc, uni_ctx: &[SessionContext; 2], failed: &HashMap<(Variant, String), String>, idx: usize, v: Variant, wh: &str, seq: usize) {
    acc.cases += 1;
    let Ok(truth) = ref_truth(&uni_ctx[v as usize], wh, UNIVERSE).await else {
        acc.refused += 1;
        return;
    };
    let sql = sql_of(wh);
    let rows: Vec<Vec<Row>> = STREAM_SEQS[seq].iter().map(|b| b.iter().map(|i| SMALL_ROWS[*i]).collect()).collect();
    let batches: Vec<RecordBatch> = rows.iter().map(|r| build_batch(v, r, None)).collect();
    let got = match ws_case(&sql, &batches).await {
        WsOutcome::Refused(_) => {
            acc.refused += 1;
            return;
        }
        WsOutcome::Machinery(e) => {
            acc.machinery.push(format!("websocket [{}] {sql}: {e}", v.name()));
            return;
        }
        WsOutcome::Delivered(r) => r,
    };
    acc.streams_checked += 1;
    let flat: Vec<&Row> = rows.iter().flatten().collect();
    acc.rows_flushed += flat.len() as u64;
    acc.rows_delivered += got.len() as u64;
    if got.len() < flat.len() {
        acc.streams_nontrivial += 1;
    }
    let all: Vec<String> = flat.iter().map(|r| ws_row_key(r)).collect();
    let sat: Vec<String> = flat.iter().filter(|r| truth[idx_of(r)]).map(|r| ws_row_key(r)).collect();
    let must: Vec<String> = flat.iter().filter(|r| truth[idx_of(r)] && TS_OFF[r[0] as usize] >= 0).map(|r| ws_row_key(r)).collect();
    // lenient on rows before the subscription instant: the handler defines no merge point of its own
    let ok = is_subsequence(&got, &sat) && is_subsequence(&must, &got);
    if ok {
        if acc.samples.is_empty() && !must.is_empty() && must.len() < all.len() / 2 {
            acc.samples.push(json!({"sub_space": "websocket", "variant": v.name(), "sql": sql, "rows_flushed": all.len(), "rows_delivered": got.len()}));
        }
        return;
    }
    // what QueryFilter alone (no merge point) would let through, row by row
    let filter = QueryFilter::from_sql(&sql);
    let unit: Vec<String> = flat.iter().filter(|r| matches!(subject_apply(&filter, &build_batch(v, &[***r], None), i64::MIN), Got::Rows(Some(_)))).map(|r| ws_row_key(r)).collect();
    let sig = if got == all && sat.len() < all.len() {
        "C18:ws-api:where-clause-not-applied-to-live-rows".to_string()
    } else if got == unit || got.iter().filter(|k| must.contains(k)).count() == unit.iter().filter(|k| must.contains(k)).count() && is_subsequence(&got, &unit) {
        failed.get(&(v, wh.to_string())).cloned().unwrap_or_else(|| "C18:ws-api:row-filter-differs-from-clause".to_string())
    } else if got.iter().any(|g| !sat.contains(g)) {
        "C18:ws-api:row-not-satisfying-where-delivered".to_string()
    } else if !is_subsequence(&got, &sat) {
        "C18:ws-api:rows-duplicated-or-out-of-flush-order".to_string()
    } else {
        "C18:ws-api:matching-row-not-delivered".to_string()
    };
    let msg = format!(
        "[{}] websocket /api/v1/stream {{query: {sql:?}, live: true}}: {} rows flushed after the handler subscribed, {} satisfy the WHERE clause ({} of them at/after the subscription instant), {} rows delivered\n  delivered: {:?}\n  satisfying: {:?}",
        v.name(), all.len(), sat.len(), must.len(), got.len(), got, sat
    );
    let o = (5, idx, v as u8, 0);
    match acc.viol.get_mut(&sig) {
        Some(x) => x.count += 1,
        None => {
            acc.viol.insert(sig, VRec { order: o, msg, replay: json!({"kind": "websocket", "variant": v.name(), "where": wh, "sql": sql, "seq": seq}), count: 1 });
        }
    }
}

fn ws_clauses() -> Vec<String> {
    let mut c = vec![String::new()];
    c.extend(D2_LEAVES_12.iter().map(|s| s.to_string()));
    for (a, b) in [(0, 2), (1, 3), (4, 8), (6, 9)] {
        c.push(format!("{} AND {}", D2_LEAVES_12[a], D2_LEAVES_12[b]));
        c.push(format!("{} OR {}", D2_LEAVES_12[a], D2_LEAVES_12[b]));
        c.push(format!("({} OR {}) AND {}", D2_LEAVES_12[a], D2_LEAVES_12[b], D2_LEAVES_12[5]));
    }
    c
}

fn run_ws(failed: &HashMap<(Variant, String), String>) -> WsAcc {
    let t0 = std::time::Instant::now();
    let clauses = ws_clauses();
    let e = EnvState::new();
    env::install(&e);
    let mut acc = WsAcc::default();
    {
        let rt = tokio::runtime::Builder::new_current_thread().enable_all().build().expect("rt");
        let uni_ctx = [ref_ctx(universe_ref_batch(Variant::TsNs)), ref_ctx(universe_ref_batch(Variant::TsI64))];
        rt.block_on(async {
            for (i, wh) in clauses.iter().enumerate() {
                for v in VARIANTS {
                    check_ws_case(&mut acc, &uni_ctx, failed, i, v, wh, i % STREAM_SEQS.len()).await;
                }
            }
        });
    }
    env::uninstall();
    drop(e);
    println!(
        "C18 D websocket API: {} cases ({} clauses x 2 schemas over a loopback socket), {} refused/rejected, {} streams checked, {} rows flushed -> {} delivered; {:.1}s",
        acc.cases, clauses.len(), acc.refused, acc.streams_checked, acc.rows_flushed, acc.rows_delivered, t0.elapsed().as_secs_f64()
    );
    acc
}

fn replay_ws(r: &Value) -> i32 {
    let Some(v) = r["variant"].as_str().and_then(Variant::from_name) else {
        println!("MACHINERY: bad websocket replay");
        return 2;
    };
    let wh = r["where"].as_str().unwrap_or("").to_string();
    let seq = r["seq"].as_u64().unwrap_or(0) as usize % STREAM_SEQS.len();
    let e = EnvState::new();
    env::install(&e);
    let mut acc = WsAcc::default();
    {
        let rt = tokio::runtime::Builder::new_current_thread().enable_all().build().expect("rt");
        let uni_ctx = [ref_ctx(universe_ref_batch(Variant::TsNs)), ref_ctx(universe_ref_batch(Variant::TsI64))];
        for (i, b) in STREAM_SEQS[seq].iter().enumerate() {
            let rows: Vec<Row> = b.iter().map(|i| SMALL_ROWS[*i]).collect();
            println!("flush {i}:\n{}", show(&Some(build_batch(v, &rows, None))));
        }
        rt.block_on(check_ws_case(&mut acc, &uni_ctx, &HashMap::new(), 0, v, &wh, seq));
    }
    env::uninstall();
    for m in &acc.machinery {
        println!("MACHINERY: {m}");
    }
    if !acc.machinery.is_empty() {
        return 2;
    }
    for (sig, x) in &acc.viol {
        println!("violation [{sig}]: {}", x.msg);
    }
    if acc.viol.is_empty() {
        println!("no violation ({} stream checked, {} refused)", acc.streams_checked, acc.refused);
        0
    } else {
        1
    }
}

// ------------------------------------------------------------------------------------------------
// Entry point
// ------------------------------------------------------------------------------------------------

pub fn run(tier: &str) -> i32 {
    let mut rep = Report::new("C18", tier, "exploration");
    let thorough = tier == "thorough";
    let threads = std::thread::available_parallelism().map(|n| n.get()).unwrap_or(8).min(16);
    let max_len = if thorough { 3 } else { 2 };
    let batches = [make_batches(Variant::TsNs, max_len), make_batches(Variant::TsI64, max_len)];
    let space = build_clauses(tier);

    let a = run_row_filter(tier, &mut rep, &batches, &space, threads);
    let b = run_stream(tier, &space, &a.acc.failed_clause, threads);
    let c = run_topic(tier, threads);
    let d = run_ws(&a.acc.failed_clause);

    for (sig, v) in a.acc.viol.iter().chain(b.viol.iter()).chain(c.viol.iter()).chain(d.viol.iter()) {
        rep.violation_n(sig, &v.msg, v.replay.clone(), v.count);
    }
    for m in a.acc.machinery.iter().chain(b.machinery.iter()).chain(c.machinery.iter()).chain(d.machinery.iter()).take(20) {
        rep.machinery(m.clone());
    }

    // ---- vacuity guards
    let ra = &a.acc;
    if ra.clauses_checked == 0 || ra.nontrivial == 0 {
        rep.machinery("row filter: no clause was accepted by the reference, or no predicate ever removed a row");
    }
    if ra.merge_cut == 0 || ra.delivered_some == 0 || ra.delivered_none == 0 {
        rep.machinery("row filter: the batches never straddled the merge point, or delivery was always / never empty");
    }
    if ra.or_matters == 0 {
        rep.machinery("row filter: no disjunction differed from the conjunction of its operands (OR forms not exercised)");
    }
    if ra.selfchecks == 0 {
        rep.machinery("row filter: the per-row lookup of the reference was never cross-checked against direct evaluation");
    }
    if ra.clauses_rejected * 2 > ra.clauses_checked {
        rep.machinery(format!("row filter: DataFusion rejected {} of {} clause x schema pairs — the clause grammar is mostly outside the reference", ra.clauses_rejected, ra.clauses_rejected + ra.clauses_checked));
    }
    if b.streams_checked == 0 || b.batches_delivered == 0 || b.batches_suppressed_by_rows == 0 || b.batches_suppressed_by_topic == 0 || b.partially_delivered == 0 {
        rep.machinery(format!("stream: vacuous (streams {}, delivered {}, suppressed by rows {}, by topic {}, partial {})", b.streams_checked, b.batches_delivered, b.batches_suppressed_by_rows, b.batches_suppressed_by_topic, b.partially_delivered));
    }
    if b.refused > b.cases / 2 {
        rep.machinery(format!("stream: query_stream refused {} of {} queries", b.refused, b.cases));
    }
    if c.delivered == 0 || c.filtered_out == 0 || c.resubscribe_checks == 0 {
        rep.machinery("topic: receivers never delivered or never filtered a batch");
    }
    if d.streams_checked == 0 || d.rows_delivered == 0 {
        rep.machinery(format!("websocket: vacuous (streams {}, rows delivered {})", d.streams_checked, d.rows_delivered));
    }
    if ra.capped {
        rep.set("exhaustive", false);
        rep.set("exhaustive_note", "the wall-clock cap cut the compound-clause enumeration short; phase 1 (single comparisons), the stream and topic sub-spaces were covered in full");
    }

    // ---- coverage
    rep.set("evaluations", ra.evaluations + b.streams_checked + c.match_evals + c.deliveries_checked + d.streams_checked);
    rep.set("distinct_nontrivial", ra.nontrivial + b.streams_nontrivial + c.receivers_that_filtered + d.streams_nontrivial);
    rep.set(
        "rule",
        format!(
            "A (row filter): WHERE clauses = no WHERE; every comparison {{=,!=,<,<=,>,>=}} x both operand orders over metric_name, host, value_f64, value_i64, timestamp with literals of the column's type (132 forms),              plus int/float/string/negative/NULL literals against columns of another type and qualified/upper-case/quoted column spellings ({} forms in all); every AND/OR pair of the 132 core forms{}; pairs of each other form with 6 core forms;              all depth-2 trees '(a x b) y c', 'a x (b y c)', 'a x b y c' and '(a x b) y (c z d)' over a {}-comparison alphabet ({} compound clauses; the 4-comparison trees run on the batches of <= 2 rows and the all-combinations batch). Each clause x 2 schemas (timestamp as Timestamp(ns,UTC) / Int64) x every batch of 0..={} rows over an 8-row covering alphabet              plus one batch holding all {} value combinations (3 timestamps around the merge point x 2 metrics x nullable host/value_f64/value_i64/value_u64/dictionary env). Reference = DataFusion's evaluation of the same clause over a MemTable of those rows.              B (stream): every single comparison and every {}th compound clause x 2 schemas, flushed by a real Ingester after QueryNode::query_stream / query_stream_filtered subscribed; 8 topic filters and 3 flush sequences rotate.              C (topic): all TopicFilter trees of depth <= 2 over {{All, Shard(s1|s2), Tenant(1|2), Metrics([], [cpu], [mem], [cpu,mem], [net,mem,cpu], [mem,cpu,cpu])}} (members: <=3 at depth 1, <=2 at depth 2, empty And/Or included) x 81 batch metadata (3 shards x 3 tenants x 9 metric lists), matches() and delivery through FilteredReceiver.              D (websocket API): no WHERE, 12 comparisons and 12 AND/OR combinations x 2 schemas, sent as {{query, live:true}} to /api/v1/stream over a loopback socket; batches flushed by the Ingester after the handler subscribed; rows before the subscription instant may or may not be delivered. \
             Non-trivial = A: cases in which a predicate (not only the merge point) removed at least one row; B: streams that delivered fewer batches than were flushed; C: receivers whose own counter shows at least one batch filtered out; D: websocket streams that delivered fewer rows than were flushed.",
            space.leaves.len(),
            if thorough { "" } else { " (quick: right operand in column-op-literal order with =, <, >= only)" },
            if thorough { 12 } else { 6 },
            a.n_compound,
            max_len,
            UNIVERSE,
            if thorough { 5 } else { 41 },
        ),
    );
    rep.set("row_filter", json!({
        "single_clauses": a.n_single, "compound_clauses": a.n_compound, "schemas": 2, "batches_per_clause_and_schema": batches[0].len(),
        "clause_schema_pairs_checked": ra.clauses_checked, "clause_schema_pairs_rejected_by_datafusion": ra.clauses_rejected,
        "cases": ra.evaluations, "cases_predicate_removed_rows": ra.nontrivial, "cases_some_rows_delivered": ra.delivered_some, "cases_nothing_delivered": ra.delivered_none,
        "cases_batch_straddles_merge_point": ra.merge_cut, "clauses_whose_predicate_removed_rows": ra.clauses_predicate_effective, "failing_cases": ra.failing_cases,
        "sampled_disjunctions_that_differ_from_conjunction": ra.or_matters, "reference_lookup_selfchecks": ra.selfchecks,
        "per_space": ra.per_space.iter().map(|(k, v)| (k.to_string(), json!({"clause_schema_pairs": v[0], "rejected_by_datafusion": v[1], "cases": v[2], "failing_cases": v[3]}))).collect::<serde_json::Map<_, _>>(),
        "rejected_samples": ra.rejected_samples,
    }));
    rep.set("stream", json!({
        "cases": b.cases, "skipped_clause_rejected_by_datafusion": b.refused_by_reference, "refused_by_query_stream": b.refused, "streams_checked": b.streams_checked,
        "batches_flushed": b.batches_flushed, "batches_delivered": b.batches_delivered, "batches_suppressed_by_rows": b.batches_suppressed_by_rows,
        "batches_suppressed_by_topic": b.batches_suppressed_by_topic, "batches_delivered_in_part": b.partially_delivered, "streams_nontrivial": b.streams_nontrivial,
        "refused_samples": b.refused_samples,
    }));
    rep.set("topic", json!({
        "filters": c.filters, "metadata": 63, "matches_verdicts": c.match_evals, "receivers_drained": c.deliveries_checked, "resubscribed_receivers": c.resubscribe_checks,
        "batches_delivered": c.delivered, "batches_filtered_out": c.filtered_out, "receivers_that_filtered": c.receivers_that_filtered, "and_builder_pairs": c.builder_checks,
    }));
    rep.set("websocket", json!({
        "cases": d.cases, "refused_or_rejected": d.refused, "streams_checked": d.streams_checked, "rows_flushed": d.rows_flushed, "rows_delivered": d.rows_delivered, "streams_nontrivial": d.streams_nontrivial,
    }));
    for x in ra.samples.iter().take(2).chain(b.samples.iter()).chain(c.samples.iter()).chain(d.samples.iter()) {
        rep.push_sample(x.clone());
    }

    rep.assume("DataFusion (v44, the engine that answers the historical part of the same query) is the meaning of a WHERE clause; it evaluates a WHERE clause row by row, so its verdict on a row does not depend on the other rows of the table (cross-checked on a stride of clauses against direct evaluation on the small batch)");
    rep.assume("clauses DataFusion rejects (e.g. an integer literal against a Timestamp column) and queries query_stream refuses before streaming starts are outside the property and are skipped");
    rep.assume("only the forms the property names are enumerated: column-vs-literal comparisons, AND, OR, parentheses; NOT / IN / BETWEEN / LIKE / IS NULL / functions / column-vs-column are not enumerated");
    rep.assume("timestamps and metric names are non-null; no NaN, infinities or negative zero among the float values (arrow's total order differs from IEEE there and the property is silent)");
    rep.assume("an empty delivered batch counts as nothing delivered; row identity is row content (equal rows are interchangeable)");
    rep.assume("the subscriber keeps up: channels are larger than the number of batches sent, so there are no lag-induced drops");
    rep.assume("stream sub-space: the wall clock is frozen, so the merge point is exactly the instant of subscription; the ingester is configured to flush on every write and without a WAL; the shard id the ingester attaches to a flushed batch is taken as given (Shard filters are checked at channel level only)");
    rep.assume("websocket sub-space: the handler defines no merge point, so rows older than the subscription instant may be delivered or not; quiescence is decided by the channel's own queue length (feature-gated accessor), never by a timer");
    rep.assume("topic sub-space: a Metrics filter is satisfied when the batch carries at least one listed metric; the empty And is satisfied, the empty Or is not");
    missing_column_space(&mut rep);
    rep.finish()
}

// ------------------------------------------------------------------------------------------------
// E. clauses that name a label the flushed batch does not carry
// ------------------------------------------------------------------------------------------------
// Clients with different label sets share one ingester; a batch from a client that sends `host` only has no
// `region` column, so for its rows `region` is NULL and a comparison on it selects nothing. The reference
// evaluates the clause over a MemTable of the batch's rows with the missing column added as all-NULL.

fn missing_column_clauses() -> Vec<String> {
    let mut atoms: Vec<String> = Vec::new();
    for op in ["=", "!=", "<", "<=", ">", ">="] {
        atoms.push(format!("region {op} 'eu'"));
        atoms.push(format!("'eu' {op} region"));
    }
    let present = ["host = 'a'", "host != 'a'", "value_f64 > 1.5", "metric_name = 'cpu'"];
    let mut v = atoms.clone();
    for a in &atoms[..4] {
        for p in present {
            v.push(format!("{a} AND {p}"));
            v.push(format!("{p} AND {a}"));
            v.push(format!("{a} OR {p}"));
            v.push(format!("{p} OR {a}"));
            v.push(format!("({a} OR {p}) AND host = 'b'"));
            v.push(format!("{p} OR ({a} AND host = 'b')"));
        }
    }
    v.push("region = 'eu' OR region = 'us'".into());
    v.push("region = 'eu' AND zone = 'z1'".into());
    v.push("region = 'eu' OR zone = 'z1' OR host = 'b'".into());
    v
}

fn missing_column_batches() -> Vec<(RecordBatch, RecordBatch)> {
    // (what the ingester flushes, the same rows with `region` and `zone` as all-NULL columns + a row number)
    let mut out = Vec::new();
    for ts_type in [true, false] {
        for n in [1usize, 4] {
            let ts: Vec<i64> = (0..n as i64).map(|i| 1_000 + i).collect();
            let ts_f = if ts_type { Field::new("timestamp", DataType::Timestamp(TimeUnit::Nanosecond, Some("UTC".into())), false) } else { Field::new("timestamp", DataType::Int64, false) };
            let ts_a: Arc<dyn Array> = if ts_type { Arc::new(arrow_array::TimestampNanosecondArray::from(ts).with_timezone("UTC")) } else { Arc::new(Int64Array::from(ts)) };
            let metric: Arc<dyn Array> = Arc::new(StringArray::from((0..n).map(|i| if i % 2 == 0 { "cpu" } else { "mem" }).collect::<Vec<_>>()));
            let host: Arc<dyn Array> = Arc::new(StringArray::from((0..n).map(|i| match i % 4 { 0 => Some("a"), 1 => Some("b"), 2 => None, _ => Some("a") }).collect::<Vec<_>>()));
            let val: Arc<dyn Array> = Arc::new(Float64Array::from((0..n).map(|i| i as f64).collect::<Vec<_>>()));
            let fields = vec![ts_f, Field::new("metric_name", DataType::Utf8, false), Field::new("host", DataType::Utf8, true), Field::new("value_f64", DataType::Float64, true)];
            let cols = vec![ts_a, metric, host, val];
            let flushed = RecordBatch::try_new(Arc::new(Schema::new(fields.clone())), cols.clone()).expect("flushed batch");
            let mut rf = fields;
            let mut rc = cols;
            for l in ["region", "zone"] {
                rf.push(Field::new(l, DataType::Utf8, true));
                rc.push(Arc::new(StringArray::from(vec![None::<&str>; n])));
            }
            rf.push(Field::new("__row", DataType::Int64, false));
            rc.push(Arc::new(Int64Array::from((0..n as i64).collect::<Vec<_>>())));
            out.push((flushed, RecordBatch::try_new(Arc::new(Schema::new(rf)), rc).expect("reference batch")));
        }
    }
    out
}

fn missing_column_one(clause: &str, flushed: &RecordBatch, reference: &RecordBatch) -> Result<bool, (String, String)> {
    let n = flushed.num_rows();
    let rt = tokio::runtime::Builder::new_current_thread().enable_all().build().unwrap();
    let truth = match rt.block_on(ref_truth(&ref_ctx(reference.clone()), clause, n)) {
        Ok(t) => t,
        Err(_) => return Ok(false), // DataFusion rejects the clause: outside the family
    };
    let sql = format!("SELECT * FROM metrics WHERE {clause}");
    let filter = match catch_unwind(AssertUnwindSafe(|| QueryFilter::from_sql(&sql))) {
        Ok(f) => f,
        Err(p) => return Err(("C18:missing-column:from_sql-panics".into(), format!("`{clause}`: {}", panic_msg(p)))),
    };
    let got: Vec<f64> = match subject_apply(&filter, flushed, 0) {
        Got::Rows(None) => vec![],
        Got::Rows(Some(b)) => b.column_by_name("value_f64").and_then(|c| c.as_any().downcast_ref::<Float64Array>().map(|a| a.values().to_vec())).unwrap_or_default(),
        Got::Err(e) => return Err(("C18:missing-column:apply-fails".into(), format!("`{clause}`: {e}"))),
        Got::Panic(m) => return Err(("C18:missing-column:apply-panics".into(), format!("`{clause}`: {m}"))),
    };
    // value_f64 = the row number, so the delivered rows identify themselves
    let want: Vec<f64> = (0..n).filter(|i| truth[*i]).map(|i| i as f64).collect();
    if got != want {
        let kind = if want.iter().all(|w| got.contains(w)) { "extra-rows" } else if got.iter().all(|g| want.contains(g)) { "missing-rows" } else { "missing+extra-rows" };
        let shape = clause.replace("'eu'", "?").replace("'us'", "?").replace("'a'", "?").replace("'b'", "?").replace("'z1'", "?").replace("'cpu'", "?").replace("1.5", "?");
        return Err((format!("C18:missing-column:{kind}:{shape}"), format!("`{clause}` over a batch without the column: delivered rows {got:?}, the clause selects {want:?} (the label is NULL for every row of this batch)")));
    }
    Ok(true)
}

fn missing_column_space(rep: &mut Report) {
    let t0 = std::time::Instant::now();
    let clauses = missing_column_clauses();
    let batches = missing_column_batches();
    let (mut evals, mut skipped, mut selected_some) = (0u64, 0u64, 0u64);
    let mut viol: BTreeMap<String, (String, String, usize, u64)> = BTreeMap::new();
    for c in &clauses {
        for (bi, (f, r)) in batches.iter().enumerate() {
            match missing_column_one(c, f, r) {
                Ok(true) => {
                    evals += 1;
                }
                Ok(false) => skipped += 1,
                Err((sig, msg)) => {
                    evals += 1;
                    let e = viol.entry(sig).or_insert((msg, c.clone(), bi, 0));
                    e.3 += 1;
                }
            }
        }
        if c.contains("OR host") || c.contains("OR value") || c.contains("OR metric") || c.contains("host = 'a' OR") {
            selected_some += 1;
        }
    }
    println!("C18 E missing column: {} clauses x {} batches = {} evaluations ({} rejected by DataFusion), violation-sigs={}; {:.1}s", clauses.len(), batches.len(), evals, skipped, viol.len(), t0.elapsed().as_secs_f64());
    rep.add_u64("evaluations", evals);
    rep.set("missing_column", json!({"clauses": clauses.len(), "batches": batches.len(), "evaluations": evals, "rejected_by_datafusion": skipped,
        "rule": "every comparison {=,!=,<,<=,>,>=} x both operand orders on a label the flushed batch does not carry, alone and combined (AND / OR, both orders, one nesting) with comparisons on columns it does carry, x batches of 1 / 4 rows x 2 timestamp types; reference = DataFusion over the same rows with the missing labels as all-NULL columns"}));
    if evals == 0 || selected_some == 0 {
        rep.machinery("vacuity guard: the missing-column space evaluated nothing");
    }
    for (sig, (msg, clause, bi, n)) in viol {
        rep.violation_n(&sig, &msg, json!({"kind": "missing-column", "clause": clause, "batch": bi}), n);
    }
}
