//! C17 — ingest protocol conversion is faithful, and no payload can crash the receiver.
//!
//! Engine C: bounded-exhaustive enumeration of inputs. Every case runs in a worker *process* (a re-exec
//! of this binary) that publishes the number of the case in progress through a shared page, so that the
//! parent can attribute a hang (no progress for 2 s) or an abort (stack overflow, allocation failure) to
//! the exact input, record it, and re-run the partition without that input.
//!
//! Entry points driven: the axum handler `handle_remote_write` (rows read back from the flushed Parquet
//! chunk), the re-exported `parse_write_request` / `convert_prom_to_arrow`, `OtlpGrpcService::export`
//! (behind the prost decoder tonic would use), `FlightIngestService::process_stream`.

mod model;
mod oracle;
mod pb;
mod spaces;
mod worker;

use crate::engine::report::Report;
use serde_json::{json, Value};
use std::collections::{BTreeMap, VecDeque};
use std::io::Read;
use std::os::unix::fs::FileExt;
use std::os::unix::process::ExitStatusExt;
use std::process::{Child, Command, Stdio};
use std::time::{Duration, Instant};
use worker::{Job, JobResult, VioRec};

const HANG_SECS: f64 = 2.0;
const START_SECS: f64 = 300.0;
const MAX_INCIDENTS_PER_JOB: usize = 6;

struct Running {
    job: Job,
    child: Child,
    out: std::thread::JoinHandle<String>,
    shm: std::fs::File,
    last_tick: u64,
    last_change: Instant,
    /// CPU seconds the worker had consumed when the case in progress started / 2 s ago
    cpu_at_change: f64,
    /// since when the worker has been seen asleep (state S) without consuming CPU, and the CPU reading then
    asleep: Option<(Instant, f64)>,
    started: Instant,
}

/// (user + system CPU seconds, scheduler state of the main thread) of a process (Linux /proc, 100 ticks per second)
fn proc_stat(pid: u32) -> (f64, char) {
    let Ok(s) = std::fs::read_to_string(format!("/proc/{pid}/stat")) else { return (0.0, '?') };
    let Some(rest) = s.rsplit_once(") ").map(|x| x.1) else { return (0.0, '?') };
    let f: Vec<&str> = rest.split(' ').collect();
    let get = |i: usize| f.get(i).and_then(|x| x.parse::<f64>().ok()).unwrap_or(0.0);
    ((get(11) + get(12)) / 100.0, f.first().and_then(|x| x.chars().next()).unwrap_or('?'))
}
fn cpu_secs(pid: u32) -> f64 {
    proc_stat(pid).0
}

fn read_shm(f: &std::fs::File) -> [u64; 3] {
    let mut b = [0u8; 24];
    let _ = f.read_at(&mut b, 0);
    [u64::from_le_bytes(b[0..8].try_into().unwrap()), u64::from_le_bytes(b[8..16].try_into().unwrap()), u64::from_le_bytes(b[16..24].try_into().unwrap())]
}

fn spawn(job: Job) -> std::io::Result<Running> {
    let f = std::fs::OpenOptions::new().read(true).write(true).create(true).truncate(true).open(&job.shm)?;
    f.set_len(4096)?;
    let exe = std::env::current_exe()?;
    let mut child = Command::new(exe)
        .arg("C17")
        .arg(&job.tier)
        .env("VERIF_C17_JOB", serde_json::to_string(&job).unwrap())
        .stdin(Stdio::null())
        .stdout(Stdio::piped())
        .stderr(if std::env::var("VERIF_LOUD_PANICS").is_ok() { Stdio::inherit() } else { Stdio::null() })
        .spawn()?;
    let mut so = child.stdout.take().unwrap();
    let out = std::thread::spawn(move || {
        let mut s = String::new();
        let _ = so.read_to_string(&mut s);
        s
    });
    Ok(Running { job, child, out, shm: f, last_tick: 0, last_change: Instant::now(), cpu_at_change: 0.0, asleep: None, started: Instant::now() })
}

#[derive(Default)]
struct SpaceAcc {
    res: JobResult,
    incidents: Vec<(u64, String)>,
    gave_up: bool,
    wall: f64,
}

fn merge(acc: &mut JobResult, r: JobResult) {
    acc.walked = acc.walked.max(r.walked);
    acc.evaluations += r.evaluations;
    acc.duplicates += r.duplicates;
    acc.nontrivial += r.nontrivial;
    if r.slowest_ms > acc.slowest_ms {
        acc.slowest_ms = r.slowest_ms;
        acc.slowest_idx = r.slowest_idx;
    }
    acc.busy_s += r.busy_s;
    acc.total_s = acc.total_s.max(r.total_s);
    for (k, v) in r.classes {
        *acc.classes.entry(k).or_default() += v;
    }
    for (k, v) in r.flags {
        *acc.flags.entry(k).or_default() += v;
    }
    for (k, v) in r.violations {
        match acc.violations.get_mut(&k) {
            Some(e) => {
                e.count += v.count;
                if v.idx < e.idx {
                    e.idx = v.idx;
                    e.msg = v.msg;
                    e.case = v.case;
                }
            }
            None => {
                acc.violations.insert(k, v);
            }
        }
    }
    for s in r.samples {
        if acc.samples.len() < 3 {
            acc.samples.push(s);
        }
    }
}

fn entry_of(space: &str) -> &'static str {
    if space.starts_with("rw") {
        "remote-write"
    } else if space.starts_with("otlp") {
        "otlp"
    } else {
        "flight"
    }
}

pub fn run(tier: &str) -> i32 {
    if let Ok(job) = std::env::var("VERIF_C17_JOB") {
        return worker::worker_main(&job);
    }
    // debugging aid: VERIF_C17_LOCATE=<space>:<case number> prints that case as a replay file body and runs it
    if let Ok(loc) = std::env::var("VERIF_C17_LOCATE") {
        let (space, idx) = loc.split_once(':').expect("space:idx");
        let case = spaces::locate(space, tier, idx.parse().expect("idx")).expect("no such case");
        let v = json!({"case": case});
        println!("{}", json!({"replay": v}));
        return replay(&v);
    }
    let mut rep = Report::new("C17", tier, "exploration");
    let nproc = std::thread::available_parallelism().map(|n| n.get()).unwrap_or(8).min(16);
    let dir = std::env::temp_dir().join(format!("c17-{}", std::process::id()));
    let _ = std::fs::create_dir_all(&dir);
    let only: Option<Vec<String>> = std::env::var("VERIF_C17_SPACES").ok().map(|s| s.split(',').map(|x| x.to_string()).collect());

    // job queue: big spaces are split nproc ways, small ones less
    let mut queue: VecDeque<Job> = VecDeque::new();
    let mut accs: BTreeMap<String, SpaceAcc> = BTreeMap::new();
    let mut pending: BTreeMap<String, usize> = BTreeMap::new();
    let mut t_start: BTreeMap<String, Instant> = BTreeMap::new();
    let mut jid = 0;
    // largest spaces first so that the tail is short
    let order = ["rw-wide-span", "rw-structure", "rw-bytes", "flight", "otlp-fidelity", "rw-mutations", "otlp-bytes", "rw-values", "rw-encodings"];
    for name in order {
        if let Some(o) = &only {
            if !o.iter().any(|x| x == name) {
                continue;
            }
        }
        let nparts = match name {
            "rw-encodings" => 4,
            "rw-wide-span" => 6,
            "rw-values" if tier == "quick" => 4,
            _ => nproc as u64,
        };
        for part in 0..nparts {
            jid += 1;
            queue.push_back(Job { space: name.to_string(), tier: tier.to_string(), part, nparts, skip: vec![], shm: dir.join(format!("shm-{jid}")).display().to_string() });
        }
        accs.insert(name.to_string(), SpaceAcc::default());
        pending.insert(name.to_string(), nparts as usize);
    }

    if let Some(o) = &only {
        // debugging aid only: a partial run is never reported as exhaustive
        rep.set("exhaustive", false);
        rep.set("not_exhaustive_because", format!("VERIF_C17_SPACES restricts the run to {o:?}"));
    }
    let mut running: Vec<Running> = Vec::new();
    while !queue.is_empty() || !running.is_empty() {
        while running.len() < nproc && !queue.is_empty() {
            let job = queue.pop_front().unwrap();
            t_start.entry(job.space.clone()).or_insert_with(Instant::now);
            match spawn(job) {
                Ok(r) => running.push(r),
                Err(e) => rep.machinery(format!("cannot start a worker process: {e}")),
            }
        }
        std::thread::sleep(Duration::from_millis(20));
        let mut i = 0;
        while i < running.len() {
            let r = &mut running[i];
            let st = read_shm(&r.shm);
            if st[2] != r.last_tick {
                r.last_tick = st[2];
                r.last_change = Instant::now();
                r.cpu_at_change = cpu_secs(r.child.id());
                r.asleep = None;
            }
            let mut incident: Option<String> = None;
            let mut finished = false;
            match r.child.try_wait() {
                Ok(Some(status)) => {
                    finished = true;
                    if !(status.success()) {
                        if st[0] == 1 {
                            incident = Some(match status.signal() {
                                Some(sig) => format!("abort:signal-{sig}"),
                                None => format!("abort:exit-{}", status.code().unwrap_or(-1)),
                            });
                        } else {
                            rep.machinery(format!("worker {:?} failed outside a case ({status:?})", r.job));
                        }
                    }
                }
                Ok(None) => {
                    // A hang is judged by what the worker process does, not by wall time, so that a machine
                    // shared with other jobs cannot turn a slow case into a false alarm: the case in progress
                    // has burnt 2 s of CPU (busy loop), or the worker has been asleep (scheduler state S, i.e.
                    // not merely waiting for a CPU) without consuming any CPU for 2 s (blocked for good).
                    let stalled = r.last_change.elapsed().as_secs_f64();
                    let mut hung = false;
                    if st[0] == 1 {
                        let (cpu, state) = proc_stat(r.child.id());
                        if cpu - r.cpu_at_change >= HANG_SECS {
                            hung = true;
                        }
                        match r.asleep {
                            Some((since, c0)) if state == 'S' && cpu - c0 < 0.011 => {
                                if since.elapsed().as_secs_f64() >= HANG_SECS && stalled >= HANG_SECS {
                                    hung = true;
                                }
                            }
                            _ => r.asleep = if state == 'S' { Some((Instant::now(), cpu)) } else { None },
                        }
                        if stalled > 600.0 {
                            let _ = r.child.kill();
                            let _ = r.child.wait();
                            finished = true;
                            rep.machinery(format!("worker {:?}: case #{} neither finished nor qualified as a hang within 600 s (machine overloaded?)", r.job, st[1]));
                        }
                    }
                    if hung {
                        let _ = r.child.kill();
                        let _ = r.child.wait();
                        finished = true;
                        incident = Some("hang".to_string());
                    } else if st[0] == 0 && r.started.elapsed().as_secs_f64() > START_SECS {
                        let _ = r.child.kill();
                        let _ = r.child.wait();
                        finished = true;
                        rep.machinery(format!("worker {:?} did not start within {START_SECS}s", r.job));
                    }
                }
                Err(e) => {
                    finished = true;
                    rep.machinery(format!("wait on worker: {e}"));
                }
            }
            if !finished {
                i += 1;
                continue;
            }
            let r = running.swap_remove(i);
            let out = r.out.join().unwrap_or_default();
            let _ = std::fs::remove_file(&r.job.shm);
            let space = r.job.space.clone();
            let acc = accs.get_mut(&space).unwrap();
            if let Some(kind) = incident {
                let idx = st[1];
                acc.incidents.push((idx, kind.clone()));
                let case = spaces::locate(&space, tier, idx);
                let sig = format!("C17:{}:{}{}", entry_of(&space), kind, case.as_ref().map(|c| c.stall_class()).unwrap_or(""));
                let msg = format!(
                    "worker process {} while the receiver was handling case #{idx} of space {space} ({})",
                    if kind == "hang" { format!("made no progress for {HANG_SECS}s (killed)") } else { format!("died ({kind})") },
                    case.as_ref().map(|c| worker::short_case(c).to_string()).unwrap_or_default()
                );
                rep.violation(&sig, &msg, json!({"case": case}));
                let mut job = r.job.clone();
                job.skip.push(idx);
                if job.skip.len() <= MAX_INCIDENTS_PER_JOB {
                    queue.push_front(job);
                } else {
                    acc.gave_up = true;
                    *pending.get_mut(&space).unwrap() -= 1;
                }
            } else {
                match out.lines().rev().find_map(|l| l.strip_prefix("C17RESULT ")).and_then(|j| serde_json::from_str::<JobResult>(j).ok()) {
                    Some(res) => merge(&mut acc.res, res),
                    None => rep.machinery(format!("worker {:?} produced no result", r.job)),
                }
                *pending.get_mut(&space).unwrap() -= 1;
            }
            if pending[&space] == 0 && acc.wall == 0.0 {
                acc.wall = t_start[&space].elapsed().as_secs_f64();
            }
        }
    }
    let _ = std::fs::remove_dir_all(&dir);

    // ------------------------------------------------------------------ report
    let mut per_space = serde_json::Map::new();
    let mut evaluations = 0;
    let mut nontrivial = 0;
    for info in spaces::SPACES {
        let Some(acc) = accs.get(info.name) else { continue };
        let r = &acc.res;
        evaluations += r.evaluations;
        nontrivial += r.nontrivial;
        println!(
            "  C17 {:<14} cases={:<9} distinct_inputs_run={:<9} nontrivial={:<8} violation_sigs={:<3} incidents={} {:.1}s  {}",
            info.name,
            r.walked,
            r.evaluations,
            r.nontrivial,
            r.violations.len(),
            acc.incidents.len(),
            acc.wall,
            r.classes.iter().map(|(k, v)| format!("{k}={v}")).collect::<Vec<_>>().join(" ")
        );
        per_space.insert(
            info.name.to_string(),
            json!({"what": info.what, "cases_enumerated": r.walked, "distinct_inputs_run": r.evaluations, "duplicate_inputs_skipped": r.duplicates,
                   "nontrivial": r.nontrivial, "outcome_classes": r.classes, "seen": r.flags, "incidents": acc.incidents.iter().map(|(i, k)| json!({"case": i, "kind": k})).collect::<Vec<_>>(),
                   "wall_s": (acc.wall * 10.0).round() / 10.0, "cpu_s_in_cases": (r.busy_s * 10.0).round() / 10.0, "longest_worker_s": (r.total_s * 10.0).round() / 10.0,
                   "slowest_case": {"ms": r.slowest_ms.round(), "case": r.slowest_idx}}),
        );
        for s in &r.samples {
            if rep.coverage.get("samples").and_then(|a| a.as_array()).map(|a| a.iter().filter(|x| x["space"] == info.name).count()).unwrap_or(0) < 1 {
                rep.push_sample(s.clone());
            }
        }
        for (sig, v) in &r.violations {
            let VioRec { count, msg, case, .. } = v;
            rep.violation_n(sig, msg, json!({"case": case}), *count);
        }
        if acc.gave_up {
            rep.set("exhaustive", false);
            rep.set("not_exhaustive_because", format!("space {}: more than {MAX_INCIDENTS_PER_JOB} hangs/aborts in one partition, its remaining cases were not run", info.name));
        }
        // every case of every partition must have been looked at exactly once
        if !acc.gave_up && r.evaluations + r.duplicates + acc.incidents.len() as u64 != r.walked && rep.machinery_errors.is_empty() {
            rep.machinery(format!("space {}: {} cases enumerated but {} run + {} duplicates + {} incidents", info.name, r.walked, r.evaluations, r.duplicates, acc.incidents.len()));
        }
        vacuity(&mut rep, info.name, r);
    }
    rep.set("evaluations", evaluations);
    rep.set("distinct_nontrivial", nontrivial);
    rep.set("spaces", Value::Object(per_space));
    rep.set(
        "rule",
        "cases = the cross products / mutation neighbourhoods listed per space under `spaces` (identical inputs produced by different mutations are run once); \
         non-trivial = fidelity spaces: the request was accepted and every produced row was compared with the harness-computed expectation (>=1 row); \
         totality spaces: the input got past the outer decoding layer(s) (remote write: snappy accepted and the protobuf reader produced a request with at least one series; OTLP: prost decoded a request and export answered OK or panicked; Flight: rows were decoded)",
    );
    rep.set("worker_processes", nproc);
    rep.set("hang_watchdog_s", HANG_SECS);
    rep.assume("harness built with overflow checks on (dev profile), like the repository's own test builds; in a release build the same arithmetic wraps instead of panicking");
    rep.assume("row order within a batch is not prescribed: rows are matched positionally first, then as a multiset");
    rep.assume("a sample's value may sit in any of value_f64 / value_i64 / value_u64 as long as every set value cell is numerically equal (-0.0 == 0, NaN matches NaN); a null or an empty string both count as 'label absent'");
    rep.assume("lenient where the property is silent: series without __name__ (any name, or the request rejected), requests with no samples / no points (accepted with no rows, or rejected), timestamps not expressible in i64 nanoseconds (must be rejected, never stored wrapped), same attribute key on resource and point (either value), non-string attribute values (any non-null rendering), histogram / summary points (sum or count as the value)");
    rep.assume("trusted: snap (harness-side compression), prost encoding of harness-built OTLP / FlightData messages, arrow-flight encoding of the valid Flight corpus, parquet reader used to read chunks back, tokio current-thread runtime");
    rep.assume("gRPC framing / HTTP framing (tonic, hyper, axum extractors) are not exercised: the handler, the service method and process_stream are called directly with the decoded body / message, behind the same prost decoder tonic's codec uses");
    rep.assume(&format!("inputs whose timestamps span more than {} hours reach the ingester only in space rw-wide-span (the chunk catalog indexes a chunk under every hour it spans; judged there once); everywhere else such inputs go through decoding + conversion only", worker::WIDE_HOURS));
    rep.assume("hang = the case in progress has consumed 2 s of CPU time in its worker process, or the worker has been asleep (not runnable) without consuming CPU for 2 s; wall time alone never counts");
    rep.finish()
}

fn vacuity(rep: &mut Report, space: &str, r: &JobResult) {
    let class = |p: &str| r.classes.iter().filter(|(k, _)| k.contains(p)).map(|(_, v)| *v).sum::<u64>();
    let flag = |p: &str| r.flags.get(p).copied().unwrap_or(0);
    let mut need = |ok: bool, what: &str| {
        if !ok {
            rep.machinery(format!("vacuity guard [{space}]: {what}"));
        }
    };
    match space {
        "rw-values" => {
            need(r.nontrivial > 0 || !r.violations.is_empty(), "no request was accepted and verified");
            need(flag("col:value_f64") > 0 && flag("col:value_i64") > 0 && flag("col:value_u64") > 0, "not all three value columns were ever used");
        }
        "rw-structure" => {
            need(r.nontrivial > 0 || !r.violations.is_empty(), "no request was accepted and verified");
            need(flag("null-label-cell") > 0 || !r.violations.is_empty(), "no row ever had a null label cell (disjoint label sets never materialised)");
        }
        "rw-encodings" => need(r.nontrivial > 0 || !r.violations.is_empty(), "no alternative encoding was accepted and verified"),
        "rw-bytes" | "rw-mutations" => {
            need(class("snappy-rejects") > 0, "snappy never rejected anything");
            need(class("parser-rejects") > 0, "the protobuf reader never rejected anything");
            need(class("parsed-") > 0, "the protobuf reader never accepted anything");
        }
        "otlp-fidelity" => need(r.nontrivial > 0 || !r.violations.is_empty(), "no export was accepted and verified"),
        "otlp-bytes" => {
            need(class("grpc-decode-rejects") > 0, "prost never rejected anything");
            need(class("export-ok") > 0, "no mutated export was accepted");
        }
        "flight" => {
            need(class("process_stream-ok-rows") > 0, "no stream was accepted");
            need(class("process_stream-error") > 0, "no stream was rejected");
        }
        _ => {}
    }
}

pub fn replay(v: &Value) -> i32 {
    let case: model::Case = match serde_json::from_value(v["case"].clone()) {
        Ok(c) => c,
        Err(e) => {
            println!("MACHINERY: replay file carries no case: {e}");
            return 2;
        }
    };
    println!("case: {}", worker::short_case(&case));
    // a hang must not hang the replay
    std::thread::spawn(|| {
        // same rule as the explorer: 2 s of CPU, or asleep without CPU for 2 s
        let me = std::process::id();
        let (mut last_cpu, mut idle_since) = (cpu_secs(me), Instant::now());
        let cpu0 = last_cpu;
        loop {
            std::thread::sleep(Duration::from_millis(100));
            let cpu = cpu_secs(me);
            if cpu - last_cpu > 0.011 {
                last_cpu = cpu;
                idle_since = Instant::now();
            }
            if cpu - cpu0 > 10.0 * HANG_SECS || idle_since.elapsed().as_secs_f64() > 3.0 * HANG_SECS {
                println!("violation [hang]: no answer ({:.1} s CPU so far, idle for {:.1} s)", cpu - cpu0, idle_since.elapsed().as_secs_f64());
                std::process::exit(1);
            }
        }
    });
    worker::install_panic_recorder();
    let mut ctx = worker::Ctx::new();
    ctx.allow_wide = true;
    let cpu0 = cpu_secs(std::process::id());
    let o = worker::run_case(&mut ctx, &case);
    let cpu = cpu_secs(std::process::id()) - cpu0;
    println!("outcome class: {} ({cpu:.2} s CPU)", o.class);
    if cpu >= HANG_SECS {
        println!("violation [C17:{}:hang{}]: the receiver was busy for {cpu:.2} s of CPU time with this input (hang threshold {HANG_SECS} s)", case.entry(), case.stall_class());
        return 1;
    }
    for (sig, msg) in &o.violations {
        println!("violation [C17:{}:{}]: {}", case.entry(), sig, msg.chars().take(1200).collect::<String>());
    }
    if o.violations.is_empty() {
        println!("no violation for this case");
        0
    } else {
        1
    }
}
