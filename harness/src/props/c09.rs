//! C09 — garbage collection and retention delete only what is safe to delete.
//! (a) engine B: histories of cycles / clock advances / pins / restarts on the real Compactor, every physical
//!     DELETE judged against the catalog history, the grace period, the pins and the retention cut-off;
//! (b) engine A: all interleavings of a GC pass with a query that pins chunks (shared pin registry).

use super::c03::storage_config;
use super::common::*;
use crate::engine::env::{self, EnvState, EPOCH_NS};
use crate::engine::meta::GatedMeta;
use crate::engine::report::Report;
use crate::engine::sched::*;
use crate::engine::store::{GatedStore, StoreLog};
use async_trait::async_trait;
use cardinalsin::compactor::{ChunkPinRegistry, Compactor, CompactorConfig};
use cardinalsin::metadata::{LocalMetadataClient, MetadataClient};
use cardinalsin::query::{QueryConfig, QueryNode};
use cardinalsin::sharding::{HotShardConfig, ShardMonitor};
use object_store::ObjectStore;
use serde_json::json;
use std::collections::{BTreeMap, BTreeSet, HashSet};
use std::sync::atomic::{AtomicBool, AtomicU64, Ordering};
use std::sync::{Arc, Mutex};
use std::time::Duration;

const DAY_S: i64 = 86_400;
const SEC: i64 = 1_000_000_000;
const PENDING: &str = "t/metadata/pending-deletions.json";

fn cfg(grace_s: u64) -> CompactorConfig {
    CompactorConfig {
        l0_merge_threshold: 2,
        l0_target_size: 1,
        l1_target_size: 1,
        l2_target_size: 1,
        max_levels: 2,
        retention_days: 1,
        gc_grace_period: Duration::from_secs(grace_s),
        sharding_enabled: false,
        check_interval: Duration::from_secs(60),
        ..CompactorConfig::default()
    }
}

// ------------------------------------------------------------------------------------------------
// (a) histories
// ------------------------------------------------------------------------------------------------

#[derive(Debug, Clone, PartialEq, Eq, Hash, serde::Serialize, serde::Deserialize)]
pub enum Op {
    Cycle,
    Clock(i64),
    /// pin chunk set k (0 = the two compactable L0 chunks, 1 = the chunk older than the cut-off)
    Pin(u8),
    Unpin,
    Restart,
    /// a cycle during which one request fails: 0 = the catalog commit of a compaction fails before taking effect,
    /// 1 = it takes effect but reports an error, 2 = the upload of the merged chunk fails, 3 = completing the lease fails
    CycleFault(u8),
}

#[derive(Debug, Clone, serde::Serialize, serde::Deserialize)]
pub struct HistCfg {
    pub backend: String,
    pub grace_s: u64,
}

struct Fail {
    sig: String,
    msg: String,
}

struct World {
    envs: Arc<EnvState>,
    mem: Arc<dyn ObjectStore>,
    gs: Arc<GatedStore>,
    log: Arc<StoreLog>,
    rec: Arc<GatedMeta>,
    reg: ChunkPinRegistry,
    compactor: Arc<Compactor>,
    hc: HistCfg,
    pins: Vec<cardinalsin::compactor::pins::PinGuard>,
    pinned_paths: BTreeSet<String>,
    chunk_max_ts: BTreeMap<String, i64>,
    checked_store: usize,
    checked_meta: usize,
    /// path -> wall ns at which it left the catalog
    unref_at: BTreeMap<String, i64>,
    deletes_seen: u64,
    retention_removals: u64,
    /// every path that was ever in the persisted pending-deletion list
    ever_persisted: BTreeSet<String>,
    /// a cycle of this history ran with an injected failure (its compaction may have left objects nobody scheduled)
    faulted: bool,
    /// chunks that left the catalog during a cycle that ran to its end without an injected failure
    left_in_full_cycle: BTreeSet<String>,
}

fn pin_set(k: u8) -> Vec<String> {
    match k {
        0 => vec!["t/data/new_0.parquet".into(), "t/data/new_1.parquet".into()],
        _ => vec!["t/data/old.parquet".into()],
    }
}

impl World {
    async fn new(hc: &HistCfg) -> World {
        let envs = EnvState::new();
        env::install(&envs);
        let ctl = Ctl::new(envs.clone());
        let mem = new_mem();
        let log = StoreLog::new();
        let gs = GatedStore::with_filter(mem.clone(), "G", &ctl, &log, |_, _| false);
        let base: Arc<dyn MetadataClient> = if hc.backend == "object-store" { Arc::new(os_client(gs.clone() as Arc<dyn ObjectStore>)) } else { Arc::new(LocalMetadataClient::new()) };
        let rec = GatedMeta::with_filter(base, "G", &ctl, |_| false);
        let now = EPOCH_NS;
        let mut chunk_max_ts = BTreeMap::new();
        let in_window = hour_bucket(now) - HOUR + 60 * SEC;
        let cutoff = now - DAY_S * SEC - 30 * SEC;
        let data: Vec<(&str, Vec<Row>)> = vec![
            ("t/data/new_0.parquet", vec![row(in_window, 1), row(in_window + 1, 2)]),
            ("t/data/new_1.parquet", vec![row(in_window + 5, 3), row(in_window + 6, 4)]),
            ("t/data/old.parquet", vec![row(now - 2 * DAY_S * SEC, 5), row(now - 2 * DAY_S * SEC + 5, 6)]),
            ("t/data/straddle.parquet", vec![row(cutoff - 3600 * SEC, 7), row(now - 2 * 3600 * SEC, 8)]),
            ("t/data/negative.parquet", vec![row(-5, 9), row(-4, 10)]),
        ];
        for (p, rows) in &data {
            let m = put_chunk(&mem, rec.as_ref(), p, rows, true).await;
            chunk_max_ts.insert(p.to_string(), m.max_timestamp);
        }
        let reg = ChunkPinRegistry::new();
        let compactor = Arc::new(
            Compactor::new(cfg(hc.grace_s), gs.clone(), rec.clone(), storage_config(), Arc::new(ShardMonitor::new(HotShardConfig::default()))).with_pin_registry(reg.clone()),
        );
        let checked_store = log.len();
        let checked_meta = rec.log_snapshot().len();
        World {
            envs,
            mem,
            gs,
            log,
            rec,
            reg,
            compactor,
            hc: hc.clone(),
            pins: Vec::new(),
            pinned_paths: BTreeSet::new(),
            chunk_max_ts,
            checked_store,
            checked_meta,
            unref_at: BTreeMap::new(),
            deletes_seen: 0,
            retention_removals: 0,
            ever_persisted: BTreeSet::new(),
            faulted: false,
            left_in_full_cycle: BTreeSet::new(),
        }
    }

    async fn note_persisted(&mut self) {
        if let Some(b) = crate::engine::store::raw_get(&self.mem, PENDING).await {
            for v in serde_json::from_slice::<Vec<serde_json::Value>>(&b).unwrap_or_default() {
                if let Some(p) = v["path"].as_str() {
                    self.ever_persisted.insert(p.to_string());
                }
            }
        }
    }

    fn new_compactor(&self) -> Arc<Compactor> {
        Arc::new(
            Compactor::new(cfg(self.hc.grace_s), self.gs.clone(), self.rec.clone(), storage_config(), Arc::new(ShardMonitor::new(HotShardConfig::default())))
                .with_pin_registry(self.reg.clone()),
        )
    }

    /// run() until its first cycle has finished, then shut it down (what a restarted service does)
    async fn restart(&mut self) {
        let c = self.new_compactor();
        let c2 = c.clone();
        let h = tokio::spawn(async move { c2.run().await });
        tokio::time::sleep(Duration::from_secs(1)).await;
        c.shutdown_token().cancel();
        let _ = h.await;
        self.compactor = c;
    }

    async fn apply(&mut self, op: &Op) -> Result<(), Fail> {
        match op {
            Op::Cycle => {
                if let Err(e) = self.compactor.run_compaction_cycle().await {
                    return Err(Fail { sig: "C09:cycle-fails".into(), msg: e.to_string() });
                }
            }
            Op::Clock(s) => {
                self.envs.advance_wall_secs(*s);
                self.envs.advance_mono_secs(*s);
            }
            Op::Pin(k) => {
                let paths = pin_set(*k);
                for p in &paths {
                    self.pinned_paths.insert(p.clone());
                }
                self.pins.push(self.reg.pin(paths));
            }
            Op::Unpin => {
                self.pins.clear();
                self.pinned_paths.clear();
            }
            Op::Restart => self.restart().await,
            Op::CycleFault(k) => {
                self.faulted = true;
                use crate::engine::sched::Decision;
                match k {
                    0 => self.rec.inject_failure("complete_compaction_with_target", Decision::FailBefore),
                    1 => self.rec.inject_failure("complete_compaction_with_target", Decision::FailAfter),
                    2 => self.gs.inject_failure("PUT", "/compacted/", Decision::FailBefore),
                    _ => self.rec.inject_failure("complete_lease", Decision::FailBefore),
                }
                // the cycle may or may not report the failure; either is fine, deletions are what is judged
                let _ = self.compactor.run_compaction_cycle().await;
                self.rec.clear_injections();
                self.gs.clear_injections();
            }
        }
        self.note_persisted().await;
        let before: BTreeSet<String> = self.unref_at.keys().cloned().collect();
        let r = self.judge().await;
        if *op == Op::Cycle {
            for p in self.unref_at.keys() {
                if !before.contains(p) {
                    self.left_in_full_cycle.insert(p.clone());
                }
            }
        }
        r
    }

    /// judge every catalog change and every physical delete since the last call
    async fn judge(&mut self) -> Result<(), Fail> {
        let mlog = self.rec.log_snapshot();
        for e in &mlog[self.checked_meta..] {
            if !e.ok {
                continue;
            }
            if e.method == "complete_compaction_with_target" || e.method == "complete_compaction" {
                if let Some((srcs, _)) = e.arg.split_once("->") {
                    for s in srcs.split(',') {
                        self.unref_at.insert(s.to_string(), e.wall_ns);
                    }
                }
            }
            if e.method == "delete_chunk" {
                // retention (the only caller in a cycle): the chunk's newest row must be older than the cut-off
                let cutoff = e.wall_ns - DAY_S * SEC - 30 * SEC;
                self.retention_removals += 1;
                match self.chunk_max_ts.get(&e.arg) {
                    Some(max_ts) if *max_ts < cutoff => {}
                    Some(max_ts) => {
                        self.checked_meta = mlog.len();
                        let kind = if *max_ts >= e.wall_ns - DAY_S * SEC { "chunk-straddling-the-cut-off" } else { "inside-skew-margin" };
                        return Err(Fail {
                            sig: format!("C09:retention-removed-{kind}"),
                            msg: format!(
                                "retention removed {} at wall +{} s although its newest row ({} s before now) is not older than the cut-off (now - 1 day - 30 s)",
                                e.arg,
                                (e.wall_ns - EPOCH_NS) / SEC,
                                (e.wall_ns - max_ts) / SEC
                            ),
                        });
                    }
                    None => {
                        // a merged chunk: its max timestamp is the max of its sources; decode it
                        let mx = match decode_rows(crate::engine::store::raw_get(&self.mem, &e.arg).await.unwrap_or_default()) {
                            Ok(rows) => rows.iter().map(|r| r.ts).max().unwrap_or(i64::MIN),
                            Err(_) => i64::MIN,
                        };
                        if mx >= cutoff {
                            self.checked_meta = mlog.len();
                            return Err(Fail { sig: "C09:retention-removed-merged-chunk-inside-window".into(), msg: format!("retention removed {} whose newest row is {} s before now", e.arg, (e.wall_ns - mx) / SEC) });
                        }
                    }
                }
                self.unref_at.insert(e.arg.clone(), e.wall_ns);
            }
            if e.method == "register_chunk" {
                self.unref_at.remove(&e.arg);
            }
        }
        self.checked_meta = mlog.len();
        let slog = self.log.snapshot();
        let grace_ns = self.hc.grace_s as i64 * SEC;
        for e in &slog[self.checked_store..] {
            if e.kind != "DELETE" {
                continue;
            }
            self.deletes_seen += 1;
            let p = &e.path;
            match self.unref_at.get(p) {
                None => {
                    self.checked_store = slog.len();
                    return Err(Fail { sig: "C09:deleted-a-referenced-or-foreign-object".into(), msg: format!("DELETE {p} at wall +{} s: the catalog never dropped this object", (e.wall_ns - EPOCH_NS) / SEC) });
                }
                Some(t0) if e.wall_ns - t0 < grace_ns => {
                    self.checked_store = slog.len();
                    return Err(Fail {
                        sig: "C09:deleted-before-grace-period".into(),
                        msg: format!("DELETE {p} at wall +{} s, only {} s after it left the catalog (grace {} s)", (e.wall_ns - EPOCH_NS) / SEC, (e.wall_ns - t0) / SEC, self.hc.grace_s),
                    });
                }
                _ => {}
            }
            if self.pinned_paths.contains(p) {
                self.checked_store = slog.len();
                return Err(Fail { sig: "C09:deleted-a-pinned-chunk".into(), msg: format!("DELETE {p} at wall +{} s while a query held it pinned", (e.wall_ns - EPOCH_NS) / SEC) });
            }
        }
        self.checked_store = slog.len();
        Ok(())
    }

    /// deletions persisted at the end of a cycle are carried out after restart + grace + one cycle
    async fn epilogue(&mut self) -> Result<(), Fail> {
        // every deletion that was persisted at the end of some cycle of this history (not only those still listed now:
        // an entry that silently drops out of the list is exactly a deletion that is never carried out)
        self.note_persisted().await;
        let persisted: Vec<String> = self.ever_persisted.iter().cloned().collect();
        self.pins.clear();
        self.pinned_paths.clear();
        self.envs.advance_wall_secs(self.hc.grace_s as i64 + 1);
        self.envs.advance_mono_secs(self.hc.grace_s as i64 + 1);
        self.restart().await;
        self.judge().await?;
        for p in &persisted {
            if crate::engine::store::raw_get(&self.mem, p).await.is_some() {
                return Err(Fail {
                    sig: "C09:persisted-deletion-not-carried-out-after-restart".into(),
                    msg: format!("{p} was in the persisted pending-deletion list at the end of a cycle, but still exists after unpinning everything, restart + grace + one cycle"),
                });
            }
        }
        // fault-free histories: every chunk that left the catalog (compacted away, aged out) did so in a cycle that ran to its
        // end, so its deletion was scheduled and has to survive the restart - however and whenever it is persisted
        if !self.faulted {
            let gone: Vec<String> = self.left_in_full_cycle.iter().filter(|p| self.unref_at.contains_key(*p)).cloned().collect();
            for p in &gone {
                if crate::engine::store::raw_get(&self.mem, p).await.is_some() {
                    return Err(Fail {
                        sig: "C09:scheduled-deletion-lost-by-a-restart".into(),
                        msg: format!("{p} left the catalog in a cycle that ran to its end, but its file still exists after unpinning everything, restart + grace + one cycle (persisted list ever held: {persisted:?})"),
                    });
                }
            }
        }
        Ok(())
    }

    async fn key(&self) -> u64 {
        let img = store_image(&self.mem).await;
        let cat: Vec<String> = {
            let mut v: Vec<String> = self.rec.inner.list_chunks().await.unwrap_or_default().into_iter().map(|e| e.chunk_path).collect();
            v.sort();
            v
        };
        hash_of(&(img, cat, &self.pinned_paths, self.envs.wall(), self.unref_at.iter().collect::<Vec<_>>(), self.faulted, &self.left_in_full_cycle))
    }
}

fn alphabet() -> Vec<Op> {
    vec![Op::Cycle, Op::Clock(100), Op::Clock(301), Op::Clock(DAY_S), Op::Pin(0), Op::Pin(1), Op::Unpin, Op::Restart, Op::CycleFault(0), Op::CycleFault(1), Op::CycleFault(2), Op::CycleFault(3)]
}

#[derive(Default)]
struct HStats {
    histories: u64,
    states: u64,
    transitions: u64,
    deletes: u64,
    retention_removals: u64,
    fails: BTreeMap<String, (String, Vec<Op>, u64)>,
    capped: bool,
}

fn run_on_fresh_thread<T: Send + 'static>(f: impl FnOnce() -> T + Send + 'static) -> T {
    std::thread::Builder::new().stack_size(16 << 20).spawn(f).unwrap().join().expect("history thread")
}

async fn replay_history(hc: &HistCfg, hist: &[Op]) -> (World, Option<(usize, Fail)>) {
    let mut w = World::new(hc).await;
    for (i, op) in hist.iter().enumerate() {
        if let Err(f) = w.apply(op).await {
            return (w, Some((i, f)));
        }
    }
    (w, None)
}

fn explore_histories(hc: &HistCfg, depth: usize, cap: Duration) -> HStats {
    let t0 = std::time::Instant::now();
    let stats = Arc::new(Mutex::new(HStats::default()));
    let seen: Arc<Mutex<HashSet<u64>>> = Arc::new(Mutex::new(HashSet::new()));
    let mut frontier: Vec<Vec<Op>> = vec![vec![]];
    while !frontier.is_empty() {
        let next: Arc<Mutex<Vec<Vec<Op>>>> = Arc::new(Mutex::new(Vec::new()));
        let idx = Arc::new(AtomicU64::new(0));
        let fr = Arc::new(frontier.clone());
        std::thread::scope(|s| {
            for _ in 0..default_workers() {
                let stats = stats.clone();
                let seen = seen.clone();
                let next = next.clone();
                let idx = idx.clone();
                let fr = fr.clone();
                let hc = hc.clone();
                s.spawn(move || loop {
                    let i = idx.fetch_add(1, Ordering::SeqCst) as usize;
                    if i >= fr.len() {
                        return;
                    }
                    if t0.elapsed() > cap {
                        stats.lock().unwrap().capped = true;
                        return;
                    }
                    let hist = fr[i].clone();
                    let hc2 = hc.clone();
                    // fresh thread per history: frozen clock and reproducible entropy
                    let (key, mut st_local, epi, hist) = run_on_fresh_thread(move || {
                        let rt = tokio::runtime::Builder::new_current_thread().enable_all().start_paused(true).build().unwrap();
                        let out = rt.block_on(async {
                            let mut st = HStats::default();
                            st.histories = 1;
                            let (mut w, fail) = replay_history(&hc2, &hist).await;
                            let mut key = None;
                            if let Some((i, f)) = fail {
                                st.fails.insert(f.sig.clone(), (f.msg, hist[..=i].to_vec(), 1));
                            } else {
                                key = Some(w.key().await);
                                st.deletes = w.deletes_seen;
                                st.retention_removals = w.retention_removals;
                            }
                            (key, st, w.epilogue_if(key.is_some()).await, hist)
                        });
                        drop(rt);
                        env::uninstall();
                        out
                    });
                    let mut succ = Vec::new();
                    if let Some(k) = key {
                        if seen.lock().unwrap().insert(k) {
                            st_local.states = 1;
                            if let Some(f) = epi {
                                let mut h = hist.clone();
                                h.push(Op::Restart);
                                st_local.fails.entry(f.sig.clone()).or_insert((format!("after the history, advancing the clock past the grace period and restarting: {}", f.msg), h, 0)).2 += 1;
                            }
                            if hist.len() < depth {
                                for op in alphabet() {
                                    // skip no-op repetitions that cannot change the state
                                    if op == Op::Unpin && !hist.iter().any(|o| matches!(o, Op::Pin(_))) {
                                        continue;
                                    }
                                    let mut h = hist.clone();
                                    h.push(op);
                                    succ.push(h);
                                    st_local.transitions += 1;
                                }
                            }
                        }
                    }
                    next.lock().unwrap().extend(succ);
                    let mut st = stats.lock().unwrap();
                    st.histories += st_local.histories;
                    st.states += st_local.states;
                    st.transitions += st_local.transitions;
                    st.deletes += st_local.deletes;
                    st.retention_removals += st_local.retention_removals;
                    for (k, v) in st_local.fails {
                        let e = st.fails.entry(k).or_insert((v.0.clone(), v.1.clone(), 0));
                        e.2 += v.2.max(1);
                        if v.1.len() < e.1.len() {
                            e.0 = v.0;
                            e.1 = v.1;
                        }
                    }
                });
            }
        });
        let mut nf = std::mem::take(&mut *next.lock().unwrap());
        nf.sort_by_key(|h| format!("{h:?}"));
        frontier = nf;
        if stats.lock().unwrap().capped {
            break;
        }
    }
    Arc::try_unwrap(stats).ok().unwrap().into_inner().unwrap()
}

impl World {
    async fn epilogue_if(&mut self, go: bool) -> Option<Fail> {
        if !go {
            return None;
        }
        self.epilogue().await.err()
    }
}

// ------------------------------------------------------------------------------------------------
// (b) GC pass vs pinning query
// ------------------------------------------------------------------------------------------------

#[derive(Debug, Clone, serde::Serialize, serde::Deserialize)]
pub struct RaceParams {
    pub name: String,
    pub grace_s: u64,
    /// are the query's reads of chunk data scheduling points too?
    pub gate_query_data_reads: bool,
}

pub struct RaceScenario {
    p: RaceParams,
    mem: Arc<dyn ObjectStore>,
    log: Arc<StoreLog>,
    reg: ChunkPinRegistry,
    armed: Arc<AtomicBool>,
    sources: Vec<String>,
    /// pinned status of each source at the moment the GC pass had selected its victims
    pinned_at_selection: Option<BTreeMap<String, bool>>,
    violations: Vec<Violation>,
    query_result: Arc<Mutex<Option<Result<usize, String>>>>,
    deletes: usize,
}

impl RaceScenario {
    pub fn new(p: RaceParams) -> Self {
        Self {
            p,
            mem: new_mem(),
            log: StoreLog::new(),
            reg: ChunkPinRegistry::new(),
            armed: Arc::new(AtomicBool::new(false)),
            sources: vec!["t/data/new_0.parquet".into(), "t/data/new_1.parquet".into()],
            pinned_at_selection: None,
            violations: Vec::new(),
            query_result: Arc::new(Mutex::new(None)),
            deletes: 0,
        }
    }
}

#[async_trait(?Send)]
impl Scenario for RaceScenario {
    async fn setup(&mut self, ctl: &Ctl) {
        let now = EPOCH_NS;
        let in_window = now - 20 * 60 * SEC;
        let armed = self.armed.clone();
        let a1 = armed.clone();
        let gate_data = self.p.gate_query_data_reads;
        let gs_q = GatedStore::with_filter(self.mem.clone(), "Q", ctl, &self.log, move |_, path| a1.load(Ordering::SeqCst) && (gate_data || !path.ends_with(".parquet")));
        let a2 = armed.clone();
        let gs_g = GatedStore::with_filter(self.mem.clone(), "G", ctl, &self.log, move |_, _| a2.load(Ordering::SeqCst));
        // catalog calls are scheduling points too (they are answered from each client's cache, i.e. without a
        // store request), so that the pin and the GC's pin filter can be ordered both ways
        let a3 = armed.clone();
        let a4 = armed.clone();
        let meta_q: Arc<dyn MetadataClient> = GatedMeta::with_filter(Arc::new(os_client(gs_q.clone() as Arc<dyn ObjectStore>)), "Q", ctl, move |_| a3.load(Ordering::SeqCst));
        let meta_g: Arc<dyn MetadataClient> = GatedMeta::with_filter(Arc::new(os_client(gs_g.clone() as Arc<dyn ObjectStore>)), "G", ctl, move |_| a4.load(Ordering::SeqCst));
        put_chunk(&self.mem, meta_g.as_ref(), &self.sources[0], &[row(in_window, 1), row(in_window + 1, 2)], true).await;
        put_chunk(&self.mem, meta_g.as_ref(), &self.sources[1], &[row(in_window + 5, 3), row(in_window + 6, 4)], true).await;
        // the query node loads its (soon stale) catalog view
        let qn = QueryNode::new(QueryConfig { l2_cache_dir: None, l1_cache_size: 1 << 20, ..QueryConfig::default() }, gs_q.clone(), meta_q.clone(), storage_config())
            .await
            .expect("query node")
            .with_pin_registry(self.reg.clone());
        let lo = now - 3600 * SEC + 1;
        let sql = format!("SELECT timestamp, metric_name FROM metrics WHERE timestamp >= to_timestamp_nanos({lo}) AND timestamp <= to_timestamp_nanos({now})");
        let _ = meta_q.list_chunks().await;
        // a compaction has just swapped the two chunks for a merged one and scheduled them for deletion
        let compactor = Compactor::new(cfg(self.p.grace_s), gs_g.clone(), meta_g.clone(), storage_config(), Arc::new(ShardMonitor::new(HotShardConfig::default())))
            .with_pin_registry(self.reg.clone());
        let merged = "t/data/compacted/level=0/merged.parquet";
        put_chunk(&self.mem, meta_g.as_ref(), merged, &[row(in_window, 1), row(in_window + 1, 2), row(in_window + 5, 3), row(in_window + 6, 4)], true).await;
        meta_g.complete_compaction(&self.sources, merged).await.expect("swap");
        for s in &self.sources {
            compactor.schedule_deletion(s);
        }
        // time passes: exactly the grace period (both clocks)
        ctl.env().advance_wall_secs(self.p.grace_s as i64);
        ctl.env().advance_mono_secs(self.p.grace_s as i64);
        armed.store(true, Ordering::SeqCst);
        // the pause points around the query's table registration are scheduling points as well: they lie between
        // the pin and the first read of chunk data, i.e. the query can be parked there while it holds its pins
        ctl.set_hook_filter(|l| l.starts_with("query:"));
        ctl.spawn("G", "G", async move {
            let _ = compactor.run_compaction_cycle().await;
        });
        let qr = self.query_result.clone();
        ctl.spawn("Q", "Q", async move {
            let r = qn.query(&sql).await.map(|b| b.iter().map(|x| x.num_rows()).sum::<usize>()).map_err(|e| e.to_string());
            *qr.lock().unwrap() = Some(r);
        });
    }

    async fn step_check(&mut self, ctl: &Ctl) -> Vec<Violation> {
        // the GC pass has selected its victims once its first DELETE request is parked
        if self.pinned_at_selection.is_none() && ctl.parked_infos().iter().any(|g| g.actor == "G" && g.kind == "DELETE") {
            self.pinned_at_selection = Some(self.sources.iter().map(|p| (p.clone(), self.reg.is_pinned(p))).collect());
        }
        std::mem::take(&mut self.violations)
    }

    fn on_grant(&mut self, g: &GateInfo, d: Decision) {
        if g.actor == "G" && g.kind == "DELETE" && d == Decision::Ok {
            self.deletes += 1;
            if self.reg.is_pinned(&g.what) {
                let before = self.pinned_at_selection.as_ref().and_then(|m| m.get(&g.what).copied()).unwrap_or(false);
                let kind = if before { "pin-ignored-by-gc-filter" } else { "pin-placed-after-gc-selected-it" };
                self.violations.push(Violation {
                    sig: format!("C09:pinned-chunk-deleted:{kind}:grace={}s", self.p.grace_s),
                    msg: format!("DELETE {} is sent while a running query holds the chunk pinned (grace {} s; the query works from a catalog view cached {} s ago)", g.what, self.p.grace_s, self.p.grace_s),
                });
            }
        }
    }

    async fn finish(&mut self, ctl: &Ctl) -> Finish {
        let mut f = Finish::default();
        f.violations.append(&mut self.violations);
        let unfinished: Vec<String> = ctl.unfinished_actors().into_iter().filter(|a| !a.ends_with("/bg")).collect();
        if !unfinished.is_empty() {
            f.violations.push(Violation { sig: "C09:race-stuck".into(), msg: format!("never finished: {unfinished:?}") });
        }
        for (a, m) in ctl.panics() {
            f.violations.push(Violation { sig: "C09:race-panic".into(), msg: format!("{a} panicked: {m}") });
        }
        if self.deletes > 0 {
            f.flags.push("gc_deleted".into());
        }
        let qr = self.query_result.lock().unwrap().clone();
        if matches!(qr, Some(Err(_))) {
            f.flags.push("query_failed".into());
        }
        f.outcome = format!("deletes={} query={:?}", self.deletes, qr.map(|r| r.map_err(|e| e.chars().take(160).collect::<String>())));
        f
    }
}

pub fn race_factory(p: RaceParams) -> ScenarioFactory {
    Arc::new(move || Box::new(RaceScenario::new(p.clone())) as Box<dyn Scenario>)
}

pub fn run(tier: &str) -> i32 {
    let mut rep = Report::new("C09", tier, "model_checking");
    rep.assume("wall clock and monotonic clock advance together (a CLOCK step moves both), so a query node's 60 s catalog cache ages with the wall clock");
    rep.assume("catalog history is taken from the recorded catalog calls of the compactor (the harness performs no other catalog change after set-up)");
    let depth = if tier == "thorough" { 6 } else { 4 };
    let mut deletes = 0u64;
    let mut retention = 0u64;
    for backend in ["in-memory", "object-store"] {
        for grace_s in [0u64, 300] {
            let hc = HistCfg { backend: backend.into(), grace_s };
            let st = explore_histories(&hc, depth, Duration::from_secs(if tier == "thorough" { 600 } else { 25 }));
            println!(
                "  C09 histories backend={backend:<12} grace={grace_s:<4} depth={depth} histories={:<6} states={:<6} physical deletes judged={:<6} retention removals judged={:<6}{}",
                st.histories, st.states, st.deletes, st.retention_removals, if st.capped { " CAPPED" } else { "" }
            );
            rep.add_u64("histories", st.histories);
            rep.add_u64("states", st.states);
            rep.add_u64("transitions", st.transitions);
            rep.add_u64("traces_validated_against_impl", st.histories);
            rep.add_u64("evaluations", st.histories);
            deletes += st.deletes;
            retention += st.retention_removals;
            if st.capped {
                rep.set("exhaustive", false);
            }
            for (sig, (msg, h, n)) in st.fails {
                rep.violation_n(&format!("{sig}"), &format!("[{backend}, grace {grace_s} s] history {h:?}: {msg}"), json!({"kind": "history", "cfg": hc, "history": h}), n);
            }
        }
    }
    rep.push_sample(json!({"history": [Op::Cycle, Op::Pin(0), Op::Clock(301), Op::Cycle, Op::Unpin, Op::Restart]}));
    let mut gc_deleted = false;
    for grace_s in [0u64, 30, 300] {
        let p = RaceParams { name: format!("gc-vs-pinning-query/grace={grace_s}s"), grace_s, gate_query_data_reads: tier == "thorough" };
        let cfg = ExploreConfig { bounds: Cost { preempt: if tier == "thorough" { 3 } else { 2 }, ..Cost::ZERO }, use_cache: false, wall_cap: Duration::from_secs(if tier == "thorough" { 600 } else { 40 }), max_steps: 800, ..Default::default() };
        let st = explore(race_factory(p.clone()), &cfg);
        gc_deleted |= st.flags.contains_key("gc_deleted");
        println!(
            "  C09 {:<40} executions={:<7} transitions={:<8} depth={:<3} outcomes={:<3} violations={} {:.1}s{}",
            p.name, st.executions, st.transitions, st.max_depth, st.outcomes.len(), st.violations.len(), st.wall_s, if st.capped { " CAPPED" } else { "" }
        );
        if std::env::var("VERIF_VERBOSE").is_ok() {
            for (o, n) in st.outcomes.iter().take(8) {
                println!("      outcome x{n}: {o}");
            }
        }
        rep.absorb_explore(&p.name, &serde_json::to_value(&p).unwrap(), &st, cfg.bounds);
    }
    rep.set("physical_deletes_judged", deletes);
    rep.set("retention_removals_judged", retention);
    rep.set("distinct_nontrivial", deletes + retention);
    rep.set("rule", "(a) BFS over histories {cycle, clock +100 s/+301 s/+1 day, pin, unpin, restart} on the real Compactor (both catalog back ends, grace 0 / 300 s, retention 1 day) deduplicated on (store image, catalog, pins, clock, unreferenced-since map); every DELETE and every retention removal is judged; from every state: clock past grace + restart must carry out every persisted deletion. (b) all schedules (preemption-bounded) of one GC pass against one query that pins chunks from a cached catalog view, grace 0 / 30 / 300 s. non-trivial = deletes and retention removals actually judged");
    if deletes == 0 || retention == 0 {
        rep.machinery("vacuity guard: no physical delete or no retention removal was ever judged");
    }
    if !gc_deleted {
        rep.machinery("vacuity guard: the GC pass of the race scenario never deleted anything");
    }
    if scenario_selected("pin-registry") {
        pin_registry_space(&mut rep, tier);
    }
    rep.finish()
}

pub fn replay(v: &serde_json::Value) -> i32 {
    if v["kind"] == "pin-history" {
        let h: Vec<PinOp> = serde_json::from_value(v["history"].clone()).expect("history");
        return match pin_replay(&h) {
            Ok(m) => {
                println!("history {h:?}: the registry agrees with the reference ({m:?}); no violation");
                0
            }
            Err((sig, msg)) => {
                println!("violation [{sig}]: {msg}");
                1
            }
        };
    }
    if v["kind"] == "history" {
        let hc: HistCfg = serde_json::from_value(v["cfg"].clone()).expect("cfg");
        let hist: Vec<Op> = serde_json::from_value(v["history"].clone()).expect("history");
        return run_on_fresh_thread(move || {
            let rt = tokio::runtime::Builder::new_current_thread().enable_all().start_paused(true).build().unwrap();
            rt.block_on(async {
                let mut w = World::new(&hc).await;
                for (i, op) in hist.iter().enumerate() {
                    let last_restart = i + 1 == hist.len() && *op == Op::Restart;
                    let r = if last_restart { w.epilogue().await } else { w.apply(op).await };
                    println!("#{i} {op:?}{} -> {}", if last_restart { " (after clock past grace)" } else { "" }, match &r { Ok(()) => "ok".into(), Err(f) => format!("FAIL [{}] {}", f.sig, f.msg) });
                    if r.is_err() {
                        return 1;
                    }
                }
                println!("no violation on this history");
                0
            })
        });
    }
    let p: RaceParams = serde_json::from_value(v["params"].clone()).expect("params");
    super::replay_schedule(race_factory(p), v)
}

// ---------------------------------------------------------------------------------------------------------------------
// C09 (c): the pin registry as a state machine. Explicit-state search (BFS over operation histories, deduplicated on
// the reference state) of the real ChunkPinRegistry: pin / try_pin over every ordering of two paths, dropping any live
// guard, begin_delete / dropping a claim. After every operation the registry must agree with a reference (a pin
// count per path, a set of claims): a refused try_pin changes nothing, a chunk is pinned exactly while some live guard
// lists it, a claim is granted exactly when the path is not pinned (one collector per process: a claimed path is not claimed a second time).
// ---------------------------------------------------------------------------------------------------------------------

#[derive(Debug, Clone, PartialEq, Eq, PartialOrd, Ord, serde::Serialize, serde::Deserialize)]
pub enum PinOp {
    Pin(Vec<String>),
    TryPin(Vec<String>),
    /// drop the i-th live guard (in creation order)
    DropGuard(usize),
    BeginDelete(String),
    DropClaim(String),
}

#[derive(Default, Clone, PartialEq, Eq, PartialOrd, Ord, Debug)]
struct PinModel {
    guards: Vec<Vec<String>>,
    claims: BTreeSet<String>,
}

impl PinModel {
    fn count(&self, p: &str) -> usize {
        self.guards.iter().map(|g| g.iter().filter(|x| x.as_str() == p).count()).sum()
    }
}

const PIN_PATHS: [&str; 2] = ["t/data/x.parquet", "t/data/z.parquet"];

fn pin_lists() -> Vec<Vec<String>> {
    let (x, z) = (PIN_PATHS[0].to_string(), PIN_PATHS[1].to_string());
    vec![vec![x.clone()], vec![z.clone()], vec![x.clone(), z.clone()], vec![z, x]]
}

/// replays `hist` on a fresh registry next to the reference; Err = the first disagreement
fn pin_replay(hist: &[PinOp]) -> Result<PinModel, (String, String)> {
    let reg = ChunkPinRegistry::new();
    let mut m = PinModel::default();
    let mut guards: Vec<cardinalsin::compactor::pins::PinGuard> = Vec::new();
    let mut claims: BTreeMap<String, cardinalsin::compactor::pins::DeleteClaim> = BTreeMap::new();
    for (i, op) in hist.iter().enumerate() {
        match op {
            PinOp::Pin(l) => {
                guards.push(reg.pin(l.clone()));
                m.guards.push(l.clone());
            }
            PinOp::TryPin(l) => {
                let claimed: Vec<String> = l.iter().filter(|p| m.claims.contains(*p)).cloned().collect();
                match reg.try_pin(l.clone()) {
                    Ok(g) => {
                        if !claimed.is_empty() {
                            return Err(("C09:pins:pinned-a-chunk-that-is-being-deleted".into(), format!("step {i} {op:?}: granted although {claimed:?} is claimed by the garbage collector; history {hist:?}")));
                        }
                        guards.push(g);
                        m.guards.push(l.clone());
                    }
                    Err(mut gone) => {
                        if claimed.is_empty() {
                            return Err(("C09:pins:try-pin-refused-without-a-claim".into(), format!("step {i} {op:?}: refused with {gone:?} although nothing is claimed; history {hist:?}")));
                        }
                        gone.sort();
                        let mut want = claimed.clone();
                        want.sort();
                        if gone != want {
                            return Err(("C09:pins:try-pin-reports-wrong-chunks".into(), format!("step {i} {op:?}: refused with {gone:?}, claimed are {want:?}; history {hist:?}")));
                        }
                    }
                }
            }
            PinOp::DropGuard(k) => {
                drop(guards.remove(*k));
                m.guards.remove(*k);
            }
            PinOp::BeginDelete(p) => {
                let want = m.count(p) == 0;
                match reg.begin_delete(p) {
                    Some(c) => {
                        if !want {
                            return Err(("C09:pins:delete-claim-granted-on-a-pinned-chunk".into(), format!("step {i} {op:?}: granted although the chunk is pinned by {} live guard(s); history {hist:?}", m.count(p))));
                        }
                        claims.insert(p.clone(), c);
                        m.claims.insert(p.clone());
                    }
                    None => {
                        if want {
                            return Err(("C09:pins:delete-claim-refused-on-a-free-chunk".into(), format!("step {i} {op:?}: refused although no live guard lists the chunk and nobody claims it (the file could never be deleted); history {hist:?}")));
                        }
                    }
                }
            }
            PinOp::DropClaim(p) => {
                drop(claims.remove(p));
                m.claims.remove(p);
            }
        }
        // observable state after every operation
        for p in PIN_PATHS {
            if reg.is_pinned(p) != (m.count(p) > 0) {
                let sig = if m.count(p) > 0 { "C09:pins:pin-lost-while-its-guard-is-alive" } else { "C09:pins:pinned-without-a-live-guard" };
                return Err((sig.into(), format!("after step {i} {op:?}: is_pinned({p}) = {}, but {} live guard(s) list it; history {hist:?}", reg.is_pinned(p), m.count(p))));
            }
        }
        let want_n = PIN_PATHS.iter().filter(|p| m.count(p) > 0).count();
        if reg.pinned_count() != want_n {
            return Err(("C09:pins:pinned-count".into(), format!("after step {i} {op:?}: pinned_count() = {}, expected {want_n}; history {hist:?}", reg.pinned_count())));
        }
    }
    Ok(m)
}

fn pin_ops(m: &PinModel, max_guards: usize) -> Vec<PinOp> {
    let mut v = Vec::new();
    if m.guards.len() < max_guards {
        for l in pin_lists() {
            v.push(PinOp::TryPin(l.clone()));
            v.push(PinOp::Pin(l));
        }
    } else {
        // a refused try_pin creates no guard: still explore it at the guard limit
        for l in pin_lists() {
            if l.iter().any(|p| m.claims.contains(p)) {
                v.push(PinOp::TryPin(l));
            }
        }
    }
    for k in 0..m.guards.len() {
        v.push(PinOp::DropGuard(k));
    }
    for p in PIN_PATHS {
        if m.claims.contains(p) {
            v.push(PinOp::DropClaim(p.to_string()));
        } else {
            // one collector per process: a path that is claimed is not claimed again before the claim is dropped
            v.push(PinOp::BeginDelete(p.to_string()));
        }
    }
    v
}

fn pin_registry_space(rep: &mut Report, tier: &str) {
    let (depth, max_guards) = if tier == "thorough" { (8, 3) } else { (6, 3) };
    let t0 = std::time::Instant::now();
    let mut seen: BTreeSet<PinModel> = BTreeSet::new();
    let mut frontier: Vec<Vec<PinOp>> = vec![vec![]];
    seen.insert(PinModel::default());
    let (mut transitions, mut refused_try, mut refused_claims) = (0u64, 0u64, 0u64);
    let mut viol: BTreeMap<String, (String, Vec<PinOp>, u64)> = BTreeMap::new();
    for _d in 0..depth {
        let mut next = Vec::new();
        for hist in &frontier {
            let m = match pin_replay(hist) {
                Ok(m) => m,
                Err(_) => continue,
            };
            for op in pin_ops(&m, max_guards) {
                let mut h = hist.clone();
                h.push(op.clone());
                transitions += 1;
                match pin_replay(&h) {
                    Ok(m2) => {
                        if let PinOp::TryPin(_) = op {
                            if m2.guards.len() == m.guards.len() {
                                refused_try += 1;
                            }
                        }
                        if let PinOp::BeginDelete(_) = op {
                            if m2.claims.len() == m.claims.len() {
                                refused_claims += 1;
                            }
                        }
                        if seen.insert(m2) {
                            next.push(h);
                        }
                    }
                    Err((sig, msg)) => {
                        let e = viol.entry(sig).or_insert((msg, h.clone(), 0));
                        e.2 += 1;
                    }
                }
            }
        }
        frontier = next;
    }
    println!(
        "  C09 (c) pin registry: states={} transitions={} (refused try_pin: {}, refused claims: {}) depth={} violation-sigs={} {:.1}s",
        seen.len(),
        transitions,
        refused_try,
        refused_claims,
        depth,
        viol.len(),
        t0.elapsed().as_secs_f64()
    );
    rep.add_u64("states", seen.len() as u64);
    rep.add_u64("transitions", transitions);
    rep.add_u64("executions", transitions);
    rep.set("pin_registry", json!({"states": seen.len(), "transitions": transitions, "refused_try_pin": refused_try, "refused_delete_claims": refused_claims, "depth": depth, "max_live_guards": max_guards,
        "rule": "BFS over histories of pin / try_pin (lists [x], [z], [x,z], [z,x]), drop of any live guard, begin_delete / drop of a claim on two paths, on the real ChunkPinRegistry, deduplicated on the reference state (live guards in creation order, claims); after every operation is_pinned / pinned_count / the operation's verdict are compared with the reference"}));
    if refused_try == 0 || refused_claims == 0 {
        rep.machinery("vacuity guard: the pin-registry space never saw a refused try_pin / a refused delete claim");
    }
    for (sig, (msg, h, n)) in viol {
        rep.violation_n(&sig, &msg, json!({"kind": "pin-history", "history": h}), n);
    }
}
