//! C04 — query answers equal a full scan of everything ingested.
//!
//! Engine C, bounded-exhaustive input enumeration.  A *layout* is a small data set (rows over a fixed
//! alphabet of timestamps around the frozen wall clock, two metrics, three host values) cut into real
//! Parquet chunks that are registered with one of the two catalog back ends (optionally with true
//! per-chunk column statistics written into `catalog.json`, optionally with some chunks merged into an
//! L1 chunk through the real compaction-completion call).  A *query* is generated from a grammar of
//! WHERE-clause templates over the timestamp (kept only if an interval analysis shows that the clause
//! confines the timestamp to a finite window), literal forms, label predicates and SELECT shapes.  Every
//! (layout, query) pair goes through the real `QueryNode::query`; the reference is the same SQL through a
//! fresh DataFusion session whose `metrics` table is a `MemTable` of all rows.  Results are compared as
//! sorted multisets of rendered rows.  A recording wrapper around the catalog client observes which
//! chunks the subject selected, so that the run can count how often pruning really happened and so that a
//! mismatch can be attributed to its cause (which bound of the window was wrong, or statistics pruning).

use super::common::*;
use crate::engine::env::{self, EnvState, EPOCH_NS};
use crate::engine::report::Report;
use arrow_array::RecordBatch;
use async_trait::async_trait;
use cardinalsin::adaptive_index::{AdaptiveIndexConfig, AdaptiveIndexController};
use cardinalsin::ingester::ChunkMetadata;
use cardinalsin::metadata::{
    ColumnPredicate, ColumnStats, CompactionJob, CompactionLease, CompactionLeases, CompactionStatus, LocalMetadataClient,
    MetadataClient, SplitState, TimeIndexEntry, TimeRange,
};
use cardinalsin::query::{QueryConfig, QueryNode};
use cardinalsin::sharding::{ShardMetadata, SplitPhase};
use cardinalsin::Result as CsResult;
use futures::FutureExt;
use object_store::ObjectStore;
use serde::{Deserialize, Serialize};
use serde_json::{json, Value};
use std::collections::{BTreeMap, BTreeSet, HashMap};
use std::panic::AssertUnwindSafe;
use std::sync::atomic::{AtomicBool, AtomicUsize, Ordering};
use std::sync::{Arc, Mutex};

const NOW: i64 = EPOCH_NS;
const MINUTE: i64 = 60_000_000_000;
const H: i64 = HOUR;

// ------------------------------------------------------------------------------------------------
// recording catalog client
// ------------------------------------------------------------------------------------------------

#[derive(Clone, Debug, Default)]
struct Call {
    start: i64,
    end: i64,
    preds: String,
    n_preds: usize,
    selected: Option<Vec<String>>,
    time_selected: Vec<String>,
    all: usize,
}

struct SpyMeta {
    inner: Arc<dyn MetadataClient>,
    calls: Mutex<Vec<Call>>,
}

impl SpyMeta {
    fn take(&self) -> Vec<Call> {
        std::mem::take(&mut *self.calls.lock().unwrap())
    }
}

#[async_trait]
impl MetadataClient for SpyMeta {
    async fn register_chunk(&self, path: &str, metadata: &ChunkMetadata) -> CsResult<()> {
        self.inner.register_chunk(path, metadata).await
    }
    async fn get_chunks(&self, range: TimeRange) -> CsResult<Vec<TimeIndexEntry>> {
        self.inner.get_chunks(range).await
    }
    async fn get_chunks_with_predicates(&self, range: TimeRange, predicates: &[ColumnPredicate]) -> CsResult<Vec<TimeIndexEntry>> {
        let r = self.inner.get_chunks_with_predicates(range, predicates).await;
        let t = self.inner.get_chunks(range).await.map(|v| v.into_iter().map(|e| e.chunk_path).collect()).unwrap_or_default();
        let all = self.inner.list_chunks().await.map(|v| v.len()).unwrap_or(0);
        self.calls.lock().unwrap().push(Call {
            start: range.start,
            end: range.end,
            preds: format!("{predicates:?}"),
            n_preds: predicates.len(),
            selected: r.as_ref().ok().map(|v| v.iter().map(|e| e.chunk_path.clone()).collect()),
            time_selected: t,
            all,
        });
        r
    }
    async fn get_chunk(&self, path: &str) -> CsResult<Option<ChunkMetadata>> {
        self.inner.get_chunk(path).await
    }
    async fn delete_chunk(&self, path: &str) -> CsResult<()> {
        self.inner.delete_chunk(path).await
    }
    async fn list_chunks(&self) -> CsResult<Vec<TimeIndexEntry>> {
        self.inner.list_chunks().await
    }
    async fn get_l0_candidates(&self, min_count: usize) -> CsResult<Vec<Vec<String>>> {
        self.inner.get_l0_candidates(min_count).await
    }
    async fn get_level_candidates(&self, level: usize, target_size: usize) -> CsResult<Vec<Vec<String>>> {
        self.inner.get_level_candidates(level, target_size).await
    }
    async fn create_compaction_job(&self, job: CompactionJob) -> CsResult<()> {
        self.inner.create_compaction_job(job).await
    }
    async fn complete_compaction(&self, source_chunks: &[String], target_chunk: &str) -> CsResult<()> {
        self.inner.complete_compaction(source_chunks, target_chunk).await
    }
    async fn complete_compaction_with_target(&self, source_chunks: &[String], target: &ChunkMetadata) -> CsResult<()> {
        self.inner.complete_compaction_with_target(source_chunks, target).await
    }
    async fn update_compaction_status(&self, job_id: &str, status: CompactionStatus) -> CsResult<()> {
        self.inner.update_compaction_status(job_id, status).await
    }
    async fn get_pending_compaction_jobs(&self) -> CsResult<Vec<CompactionJob>> {
        self.inner.get_pending_compaction_jobs().await
    }
    async fn cleanup_completed_jobs(&self, max_age_secs: i64) -> CsResult<usize> {
        self.inner.cleanup_completed_jobs(max_age_secs).await
    }
    async fn start_split(&self, old_shard: &str, new_shards: Vec<String>, split_point: Vec<u8>) -> CsResult<()> {
        self.inner.start_split(old_shard, new_shards, split_point).await
    }
    async fn get_split_state(&self, shard_id: &str) -> CsResult<Option<SplitState>> {
        self.inner.get_split_state(shard_id).await
    }
    async fn update_split_progress(&self, shard_id: &str, progress: f64, phase: SplitPhase) -> CsResult<()> {
        self.inner.update_split_progress(shard_id, progress, phase).await
    }
    async fn complete_split(&self, old_shard: &str) -> CsResult<()> {
        self.inner.complete_split(old_shard).await
    }
    async fn get_chunks_for_shard(&self, shard_id: &str) -> CsResult<Vec<TimeIndexEntry>> {
        self.inner.get_chunks_for_shard(shard_id).await
    }
    async fn get_shard_metadata(&self, shard_id: &str) -> CsResult<Option<ShardMetadata>> {
        self.inner.get_shard_metadata(shard_id).await
    }
    async fn update_shard_metadata(&self, shard_id: &str, metadata: &ShardMetadata, expected_generation: u64) -> CsResult<()> {
        self.inner.update_shard_metadata(shard_id, metadata, expected_generation).await
    }
    async fn acquire_lease(&self, node_id: &str, chunks: &[String], level: u32) -> CsResult<CompactionLease> {
        self.inner.acquire_lease(node_id, chunks, level).await
    }
    async fn complete_lease(&self, lease_id: &str) -> CsResult<()> {
        self.inner.complete_lease(lease_id).await
    }
    async fn fail_lease(&self, lease_id: &str) -> CsResult<()> {
        self.inner.fail_lease(lease_id).await
    }
    async fn renew_lease(&self, lease_id: &str) -> CsResult<()> {
        self.inner.renew_lease(lease_id).await
    }
    async fn load_leases(&self) -> CsResult<CompactionLeases> {
        self.inner.load_leases().await
    }
    async fn scavenge_leases(&self) -> CsResult<usize> {
        self.inner.scavenge_leases().await
    }
    async fn has_active_split(&self) -> CsResult<bool> {
        self.inner.has_active_split().await
    }
    async fn pending_split_targets(&self) -> CsResult<Vec<String>> {
        self.inner.pending_split_targets().await
    }
}

// ------------------------------------------------------------------------------------------------
// layouts
// ------------------------------------------------------------------------------------------------

#[derive(Clone, Debug, Serialize, Deserialize, PartialEq)]
struct RowS {
    /// offset from the frozen wall clock, ns
    off: i64,
    metric: String,
    host: Option<String>,
    id: i64,
    value: f64,
}

impl RowS {
    fn row(&self) -> Row {
        Row { ts: NOW + self.off, metric: self.metric.clone(), host: self.host.clone(), id: self.id, value: self.value }
    }
}

#[derive(Clone, Debug, Serialize, Deserialize)]
struct Compact {
    /// indices (into `chunks`) of the chunks merged into one L1 chunk
    sources: Vec<usize>,
    /// source objects deleted from the store afterwards (as the compactor's GC does)
    gc: bool,
    /// performed through the node's catalog client after half of the batch instead of before the node exists
    mid: bool,
}

#[derive(Clone, Debug, Serialize, Deserialize)]
struct Layout {
    name: String,
    dataset: String,
    /// false = Int64 timestamp column, true = Timestamp(ns, UTC)
    ts_type: bool,
    /// false = LocalMetadataClient, true = ObjectStoreMetadataClient
    os: bool,
    /// catalog entries carry true column statistics (object-store back end only)
    stats: bool,
    rows: Vec<RowS>,
    /// row indices per chunk, in registration (flush) order
    chunks: Vec<Vec<usize>>,
    compact: Option<Compact>,
}

/// offsets of the row alphabet: 25 h, 3 h, 70 min old; the three instants around "one hour ago" (which is an
/// hour-bucket boundary and the start of the default window); 50/20/10 min old; the three instants around
/// "now" (bucket boundary, end of the default window); 5 min in the future
const U_OFFS: [i64; 13] = [-25 * H, -3 * H, -70 * MINUTE, -H - 1, -H, -H + 1, -50 * MINUTE, -20 * MINUTE, -10 * MINUTE, -1, 0, 1, 5 * MINUTE];

fn universe() -> Vec<RowS> {
    U_OFFS
        .iter()
        .enumerate()
        .map(|(i, o)| RowS {
            off: *o,
            metric: if i % 2 == 0 { "cpu" } else { "mem" }.to_string(),
            host: [Some("a"), Some("b"), None][i % 3].map(|s| s.to_string()),
            id: i as i64,
            value: (i + 1) as f64,
        })
        .collect()
}

fn dataset(name: &str) -> Vec<RowS> {
    let u = universe();
    let pick = |ix: &[usize]| ix.iter().map(|i| u[*i].clone()).collect::<Vec<_>>();
    match name {
        "U13" => u.clone(),
        // everything older than the default window
        "old" => pick(&[0, 1, 2, 3]),
        // everything inside the default window
        "recent" => pick(&[5, 6, 7, 8, 9]),
        // only the instants around the two bucket boundaries
        "edge" => pick(&[3, 4, 5, 9, 10, 11]),
        "future" => pick(&[10, 11, 12]),
        "one" => pick(&[6]),
        _ => panic!("unknown dataset {name}"),
    }
}

/// chunkings of `n` rows (given in timestamp order)
fn chunkings(n: usize, tier: &str) -> Vec<(String, Vec<Vec<usize>>)> {
    let all: Vec<usize> = (0..n).collect();
    let mut v: Vec<(String, Vec<Vec<usize>>)> = Vec::new();
    v.push(("single".into(), vec![all.clone()]));
    if n > 1 {
        v.push(("per-row".into(), all.iter().map(|i| vec![*i]).collect()));
        v.push(("per-row-reversed".into(), all.iter().rev().map(|i| vec![*i]).collect()));
        // overlapping: two chunks that both span (nearly) the whole range
        v.push(("evens-odds".into(), vec![all.iter().copied().filter(|i| i % 2 == 0).collect(), all.iter().copied().filter(|i| i % 2 == 1).collect()]));
    }
    if n > 3 {
        // pairs shifted by one, so that chunks straddle the boundaries between neighbouring rows
        let mut st = vec![vec![0]];
        let mut i = 1;
        while i < n {
            st.push((i..(i + 2).min(n)).collect());
            i += 2;
        }
        v.push(("straddle".into(), st));
        // nested: one chunk spanning everything, the others inside it
        let mid = n / 2;
        v.push(("nested".into(), vec![vec![0, n - 1], (1..mid).collect(), (mid..n - 1).collect()]));
        v.push(("thirds-late-first".into(), vec![(2 * n / 3..n).collect(), (0..n / 3).collect(), (n / 3..2 * n / 3).collect()]));
    }
    if tier == "thorough" {
        // every cut of the timestamp-ordered rows into two or three contiguous chunks
        for a in 1..n {
            v.push((format!("cut-{a}"), vec![(0..a).collect(), (a..n).collect()]));
            for b in a + 1..n {
                v.push((format!("cut-{a}-{b}"), vec![(0..a).collect(), (a..b).collect(), (b..n).collect()]));
            }
        }
        // every assignment of the rows to two chunks (interleavings), for small data sets
        if n <= 6 {
            for m in 1u32..(1 << (n - 1)) {
                let a: Vec<usize> = (0..n).filter(|i| m >> i & 1 == 1).collect();
                let b: Vec<usize> = (0..n).filter(|i| m >> i & 1 == 0).collect();
                v.push((format!("mask-{m}"), vec![a, b]));
            }
        }
    }
    v.retain(|(_, c)| c.iter().all(|x| !x.is_empty()));
    v
}

fn chunk_path(k: usize) -> String {
    format!("data/t/chunk_{k:03}.parquet")
}
const MERGED: &str = "data/t/merged_l1.parquet";

struct World {
    store: Arc<dyn ObjectStore>,
    /// the catalog client the query node uses (wrapped by `spy`)
    inner: Arc<dyn MetadataClient>,
    spy: Arc<SpyMeta>,
    /// live chunk path -> rows
    chunk_rows: BTreeMap<String, Vec<Row>>,
    ts_type: bool,
}

fn stats_of(rows: &[Row]) -> HashMap<String, ColumnStats> {
    let mut m = HashMap::new();
    let smin = |f: &dyn Fn(&Row) -> Option<String>| -> Option<(String, String, bool)> {
        let vals: Vec<String> = rows.iter().filter_map(|r| f(r)).collect();
        let nulls = vals.len() < rows.len();
        let mn = vals.iter().min()?.clone();
        let mx = vals.iter().max()?.clone();
        Some((mn, mx, nulls))
    };
    if let Some((a, b, n)) = smin(&|r| Some(r.metric.clone())) {
        m.insert("metric_name".to_string(), ColumnStats { min: json!(a), max: json!(b), has_nulls: n });
    }
    if let Some((a, b, n)) = smin(&|r| r.host.clone()) {
        m.insert("host".to_string(), ColumnStats { min: json!(a), max: json!(b), has_nulls: n });
    }
    let ids: Vec<i64> = rows.iter().map(|r| r.id).collect();
    m.insert("id".to_string(), ColumnStats { min: json!(ids.iter().min().unwrap()), max: json!(ids.iter().max().unwrap()), has_nulls: false });
    let vmin = rows.iter().map(|r| r.value).fold(f64::INFINITY, f64::min);
    let vmax = rows.iter().map(|r| r.value).fold(f64::NEG_INFINITY, f64::max);
    m.insert("value_f64".to_string(), ColumnStats { min: json!(vmin), max: json!(vmax), has_nulls: false });
    m
}

async fn patch_stats(store: &Arc<dyn ObjectStore>, chunk_rows: &BTreeMap<String, Vec<Row>>) -> Result<(), String> {
    let body = crate::engine::store::raw_get(store, CATALOG).await.ok_or("no catalog.json to patch")?;
    let mut cat = parse_catalog(&body)?;
    for (p, e) in cat.chunks.iter_mut() {
        let rows = chunk_rows.get(p).ok_or_else(|| format!("catalog lists {p}, unknown to the harness"))?;
        e.column_stats = stats_of(rows);
    }
    let out = serde_json::to_vec(&cat).map_err(|e| e.to_string())?;
    store.put(&object_store::path::Path::parse(CATALOG).expect("path"), out.into()).await.map_err(|e| e.to_string())?;
    Ok(())
}

async fn do_compact(store: &Arc<dyn ObjectStore>, meta: &dyn MetadataClient, chunk_rows: &mut BTreeMap<String, Vec<Row>>, c: &Compact, ts_type: bool) -> Result<(), String> {
    let srcs: Vec<String> = c.sources.iter().map(|k| chunk_path(*k)).collect();
    let mut rows: Vec<Row> = Vec::new();
    for s in &srcs {
        rows.extend(chunk_rows.get(s).ok_or_else(|| format!("compaction source {s} unknown"))?.iter().cloned());
    }
    rows.sort_by_key(|r| (r.ts, r.id));
    let bytes = encode_parquet(&rows_to_batch(&rows, ts_type));
    let size = bytes.len() as u64;
    store.put(&object_store::path::Path::from(MERGED), bytes.into()).await.map_err(|e| e.to_string())?;
    let m = ChunkMetadata {
        path: MERGED.to_string(),
        min_timestamp: rows.iter().map(|r| r.ts).min().unwrap_or(0),
        max_timestamp: rows.iter().map(|r| r.ts).max().unwrap_or(0),
        row_count: rows.len() as u64,
        size_bytes: size,
    };
    meta.complete_compaction_with_target(&srcs, &m).await.map_err(|e| format!("complete_compaction_with_target: {e}"))?;
    for s in &srcs {
        chunk_rows.remove(s);
        if c.gc {
            store.delete(&object_store::path::Path::from(s.as_str())).await.map_err(|e| e.to_string())?;
        }
    }
    chunk_rows.insert(MERGED.to_string(), rows);
    Ok(())
}

async fn build_world(l: &Layout) -> Result<World, String> {
    let store = new_mem();
    let setup: Arc<dyn MetadataClient> = if l.os { Arc::new(os_client(store.clone())) } else { Arc::new(LocalMetadataClient::new()) };
    let mut chunk_rows = BTreeMap::new();
    for (k, idx) in l.chunks.iter().enumerate() {
        let rows: Vec<Row> = idx.iter().map(|i| l.rows[*i].row()).collect();
        let p = chunk_path(k);
        put_chunk(&store, setup.as_ref(), &p, &rows, l.ts_type).await;
        chunk_rows.insert(p, rows);
    }
    if let Some(c) = &l.compact {
        if !c.mid {
            do_compact(&store, setup.as_ref(), &mut chunk_rows, c, l.ts_type).await?;
        }
    }
    if l.stats {
        if !l.os {
            return Err("statistics need the object-store catalog".into());
        }
        patch_stats(&store, &chunk_rows).await?;
    }
    // the node's client is created after the catalog has its final content (its cache has a TTL; bounded
    // staleness is not C04's matter)
    let inner: Arc<dyn MetadataClient> = if l.os { Arc::new(os_client(store.clone())) } else { setup };
    let spy = Arc::new(SpyMeta { inner: inner.clone(), calls: Mutex::new(Vec::new()) });
    Ok(World { store, inner, spy, chunk_rows, ts_type: l.ts_type })
}

struct Node {
    node: QueryNode,
    ctl: Option<(Arc<AdaptiveIndexController>, Vec<String>)>,
}

async fn build_node(w: &World, adaptive: bool) -> Result<Node, String> {
    let qc = QueryConfig { l1_cache_size: 8 * 1024 * 1024, l2_cache_size: 0, l2_cache_dir: None, ..QueryConfig::default() };
    let meta: Arc<dyn MetadataClient> = w.spy.clone();
    let n = QueryNode::new(qc, w.store.clone(), meta, super::c03::storage_config()).await.map_err(|e| format!("QueryNode::new: {e}"))?;
    if !adaptive {
        return Ok(Node { node: n, ctl: None });
    }
    let ctl = Arc::new(AdaptiveIndexController::new(AdaptiveIndexConfig::default()));
    let lm = &ctl.lifecycle_manager;
    let mut ids = Vec::new();
    // a visible index on host, invisible ones on metric_name and timestamp
    let vis = lm
        .create_invisible_index("default".to_string(), "host".to_string(), cardinalsin::adaptive_index::IndexType::Inverted)
        .await
        .map_err(|e| e.to_string())?;
    for _ in 0..100 {
        lm.record_would_have_helped(&vis);
    }
    if !lm.visibility_check(&vis).await.map_err(|e| e.to_string())? {
        return Err("index on host was not promoted to visible".into());
    }
    ids.push(vis);
    for col in ["metric_name", "timestamp"] {
        ids.push(
            lm.create_invisible_index("default".to_string(), col.to_string(), cardinalsin::adaptive_index::IndexType::Inverted)
                .await
                .map_err(|e| e.to_string())?,
        );
    }
    Ok(Node { node: n.with_adaptive_indexing(ctl.clone()), ctl: Some((ctl, ids)) })
}

// ------------------------------------------------------------------------------------------------
// the query grammar
// ------------------------------------------------------------------------------------------------

#[derive(Clone, Copy, Debug, PartialEq)]
enum Op {
    Lt,
    Le,
    Gt,
    Ge,
    Eq,
    Ne,
}
impl Op {
    fn sql(self) -> &'static str {
        match self {
            Op::Lt => "<",
            Op::Le => "<=",
            Op::Gt => ">",
            Op::Ge => ">=",
            Op::Eq => "=",
            Op::Ne => "!=",
        }
    }
    /// `lit mirror(op) ts` means `ts op lit`
    fn mirror(self) -> Op {
        match self {
            Op::Lt => Op::Gt,
            Op::Le => Op::Ge,
            Op::Gt => Op::Lt,
            Op::Ge => Op::Le,
            o => o,
        }
    }
}

/// how a bound is written
#[derive(Clone, Copy, Debug, PartialEq)]
enum Form {
    /// integer literal (Int64 timestamp column)
    Int,
    /// TIMESTAMP '2025-06-01T11:00:00.000000000Z'
    TsLit,
    /// to_timestamp_nanos(<int>)
    ToTsNanos,
    /// now() -/+ interval '<n> minutes|seconds'
    NowRel,
}
impl Form {
    fn name(self) -> &'static str {
        match self {
            Form::Int => "int",
            Form::TsLit => "timestamp-literal",
            Form::ToTsNanos => "to_timestamp_nanos",
            Form::NowRel => "now-relative",
        }
    }
}

fn ts_string(ns: i64) -> String {
    let dt = chrono::DateTime::<chrono::Utc>::from_timestamp(ns.div_euclid(1_000_000_000), ns.rem_euclid(1_000_000_000) as u32).unwrap();
    dt.format("%Y-%m-%dT%H:%M:%S%.9fZ").to_string()
}

/// (SQL text, normalised text) of the bound `v` (absolute ns)
fn lit(form: Form, v: i64) -> (String, String) {
    match form {
        Form::Int => (v.to_string(), "?".into()),
        Form::TsLit => (format!("TIMESTAMP '{}'", ts_string(v)), "TIMESTAMP ?".into()),
        Form::ToTsNanos => (format!("to_timestamp_nanos({v})"), "to_timestamp_nanos(?)".into()),
        Form::NowRel => {
            let off = v - NOW;
            if off == 0 {
                return ("now()".into(), "now()".into());
            }
            let a = off.abs();
            let unit = if a % MINUTE == 0 {
                format!("{} minutes", a / MINUTE)
            } else if a % 1_000_000_000 == 0 {
                format!("{} seconds", a / 1_000_000_000)
            } else {
                format!("{}.{:09} seconds", a / 1_000_000_000, a % 1_000_000_000)
            };
            let sign = if off < 0 { "-" } else { "+" };
            (format!("now() {sign} interval '{unit}'"), format!("now() {sign} interval ?"))
        }
    }
}

/// WHERE-clause tree; `usize` fields index into the bound vector of the instance
#[derive(Clone, Debug)]
enum W {
    /// `timestamp op B` (or, flipped, `B mirror(op) timestamp`)
    Cmp(Op, usize, bool),
    Between(usize, usize, bool),
    In(Vec<usize>, bool),
    And(Vec<W>),
    Or(Vec<W>),
    Not(Box<W>),
    /// a predicate on other columns: (SQL, normalised SQL); says nothing about the timestamp
    Raw(&'static str, &'static str),
}

fn cmp(op: Op, b: usize) -> W {
    W::Cmp(op, b, false)
}
fn flip(op: Op, b: usize) -> W {
    W::Cmp(op, b, true)
}
fn and(v: Vec<W>) -> W {
    W::And(v)
}
fn or(v: Vec<W>) -> W {
    W::Or(v)
}
fn not(w: W) -> W {
    W::Not(Box::new(w))
}
fn btw(a: usize, b: usize) -> W {
    W::Between(a, b, false)
}
fn nbtw(a: usize, b: usize) -> W {
    W::Between(a, b, true)
}

fn render(w: &W, b: &[i64], form: Form, tmpl: bool) -> String {
    let l = |i: usize| -> String {
        let (s, t) = lit(form, b[i]);
        if tmpl {
            t
        } else {
            s
        }
    };
    match w {
        W::Cmp(op, i, false) => format!("timestamp {} {}", op.sql(), l(*i)),
        W::Cmp(op, i, true) => format!("{} {} timestamp", l(*i), op.mirror().sql()),
        W::Between(lo, hi, neg) => format!("timestamp {}BETWEEN {} AND {}", if *neg { "NOT " } else { "" }, l(*lo), l(*hi)),
        W::In(v, neg) => format!("timestamp {}IN ({})", if *neg { "NOT " } else { "" }, v.iter().map(|i| l(*i)).collect::<Vec<_>>().join(", ")),
        W::And(v) => v
            .iter()
            .map(|c| match c {
                W::Or(_) | W::Raw(..) => format!("({})", render(c, b, form, tmpl)),
                _ => render(c, b, form, tmpl),
            })
            .collect::<Vec<_>>()
            .join(" AND "),
        W::Or(v) => v
            .iter()
            .map(|c| match c {
                W::And(_) | W::Raw(..) => format!("({})", render(c, b, form, tmpl)),
                _ => render(c, b, form, tmpl),
            })
            .collect::<Vec<_>>()
            .join(" OR "),
        W::Not(x) => format!("NOT ({})", render(x, b, form, tmpl)),
        W::Raw(s, t) => (if tmpl { *t } else { *s }).to_string(),
    }
}

// ---- interval analysis of the generator (decides membership in the family) -----------------------

type Iv = (i128, i128);
const NINF: i128 = i128::MIN / 4;
const PINF: i128 = i128::MAX / 4;

fn nset(mut v: Vec<Iv>) -> Vec<Iv> {
    v.retain(|(a, b)| a <= b);
    v.sort();
    let mut out: Vec<Iv> = Vec::new();
    for (a, b) in v {
        if let Some(l) = out.last_mut() {
            if a <= l.1.saturating_add(1) {
                l.1 = l.1.max(b);
                continue;
            }
        }
        out.push((a, b));
    }
    out
}
fn s_union(a: &[Iv], b: &[Iv]) -> Vec<Iv> {
    nset(a.iter().chain(b.iter()).copied().collect())
}
fn s_inter(a: &[Iv], b: &[Iv]) -> Vec<Iv> {
    let mut out = Vec::new();
    for x in a {
        for y in b {
            out.push((x.0.max(y.0), x.1.min(y.1)));
        }
    }
    nset(out)
}
fn s_compl(a: &[Iv]) -> Vec<Iv> {
    let a = nset(a.to_vec());
    let mut out = Vec::new();
    let mut cur = NINF;
    for (x, y) in a {
        if x > cur {
            out.push((cur, x - 1));
        }
        cur = y + 1;
    }
    if cur <= PINF {
        out.push((cur, PINF));
    }
    nset(out)
}
fn s_atom(op: Op, v: i128) -> Vec<Iv> {
    match op {
        Op::Lt => vec![(NINF, v - 1)],
        Op::Le => vec![(NINF, v)],
        Op::Gt => vec![(v + 1, PINF)],
        Op::Ge => vec![(v, PINF)],
        Op::Eq => vec![(v, v)],
        Op::Ne => vec![(NINF, v - 1), (v + 1, PINF)],
    }
}
/// over-approximation of the timestamps for which `w` (negated if `neg`) can be true
fn s_eval(w: &W, b: &[i64], neg: bool) -> Vec<Iv> {
    let ng = |s: Vec<Iv>, n: bool| if n { s_compl(&s) } else { nset(s) };
    match w {
        W::Cmp(op, i, _) => ng(s_atom(*op, b[*i] as i128), neg),
        W::Between(lo, hi, n) => ng(vec![(b[*lo] as i128, b[*hi] as i128)], *n ^ neg),
        W::In(v, n) => ng(v.iter().map(|i| (b[*i] as i128, b[*i] as i128)).collect(), *n ^ neg),
        W::And(v) => {
            if !neg {
                v.iter().fold(vec![(NINF, PINF)], |acc, c| s_inter(&acc, &s_eval(c, b, false)))
            } else {
                v.iter().fold(Vec::new(), |acc, c| s_union(&acc, &s_eval(c, b, true)))
            }
        }
        W::Or(v) => {
            if !neg {
                v.iter().fold(Vec::new(), |acc, c| s_union(&acc, &s_eval(c, b, false)))
            } else {
                v.iter().fold(vec![(NINF, PINF)], |acc, c| s_inter(&acc, &s_eval(c, b, true)))
            }
        }
        W::Not(x) => s_eval(x, b, !neg),
        W::Raw(..) => vec![(NINF, PINF)],
    }
}
/// Some((lo, hi)) if the clause confines the timestamp to a finite window (None for the empty set, which is
/// confined as well, is reported as Some((1, 0)))
fn confined(w: &W, b: &[i64]) -> Option<(i128, i128)> {
    let s = s_eval(w, b, false);
    if s.is_empty() {
        return Some((1, 0));
    }
    let lo = s.first().unwrap().0;
    let hi = s.last().unwrap().1;
    if lo <= NINF || hi >= PINF {
        None
    } else {
        Some((lo, hi))
    }
}

#[derive(Clone, Debug)]
struct Q {
    sql: String,
    /// normalised statement (literals replaced by ?), used in signatures
    tmpl: String,
    /// normalised timestamp part of the WHERE clause
    time_tmpl: String,
    /// the WHERE clause alone (None for shapes with more than one filter)
    where_sql: Option<String>,
    /// expected to be rejected by subject and reference alike
    expect_both_error: bool,
    /// literal form of the bounds
    form: &'static str,
    /// hull of the timestamps the WHERE clause admits, by the generator's interval analysis (None: empty)
    hull: Option<(i64, i64)>,
}

/// a WHERE tree with its bounds (absolute ns)
#[derive(Clone, Debug)]
struct Wi {
    w: W,
    b: Vec<i64>,
}

fn at(offs: &[i64]) -> Vec<i64> {
    offs.iter().map(|o| NOW + o).collect()
}

/// bound points (offsets from now)
fn points(tier: &str) -> Vec<i64> {
    let mut p = vec![-26 * H, -25 * H, -3 * H, -2 * H, -90 * MINUTE, -70 * MINUTE, -H - 1, -H, -H + 1, -30 * MINUTE, -10 * MINUTE, -1, 0, 1, 5 * MINUTE, 10 * MINUTE];
    if tier == "thorough" {
        p.extend([-25 * H - 1, -50 * MINUTE]);
        p.sort();
    }
    p
}

fn windows(tier: &str) -> Vec<(i64, i64)> {
    if tier == "thorough" {
        let p = points(tier);
        let mut v = Vec::new();
        for (i, a) in p.iter().enumerate() {
            for b in &p[i..] {
                v.push((*a, *b));
            }
        }
        return v;
    }
    vec![
        (-26 * H, 10 * MINUTE),      // everything
        (-26 * H, -2 * H),           // only old rows
        (-3 * H, -70 * MINUTE),      // end points on rows, all before the default window
        (-70 * MINUTE, -H - 1),      // ends on the last instant before the default window
        (-H, -H),                    // one instant: the start of the default window
        (-H - 1, -H + 1),            // across the bucket boundary
        (-90 * MINUTE, -30 * MINUTE), // straddles the start of the default window
        (-30 * MINUTE, -10 * MINUTE), // inside the default window
        (-H, 0),                     // the default window itself
        (-10 * MINUTE, 5 * MINUTE),  // reaches into the future
        (0, 10 * MINUTE),            // now and later
        (-1, 1),                     // around now
    ]
}

fn triples(tier: &str) -> Vec<[i64; 3]> {
    let mut v = vec![
        [-26 * H, -2 * H, -H],
        [-3 * H, -70 * MINUTE, -10 * MINUTE],
        [-25 * H, -3 * H, -70 * MINUTE],
        [-H - 1, -H, -H + 1],
        [-30 * MINUTE, -10 * MINUTE, 5 * MINUTE],
        [-70 * MINUTE, -H, 0],
        [-1, 0, 1],
    ];
    if tier == "thorough" {
        let p = [-25 * H, -3 * H, -70 * MINUTE, -H - 1, -H, -10 * MINUTE, 0, 5 * MINUTE];
        for i in 0..p.len() {
            for j in i..p.len() {
                for k in j..p.len() {
                    v.push([p[i], p[j], p[k]]);
                }
            }
        }
    }
    v
}

fn quads(tier: &str) -> Vec<[i64; 4]> {
    let mut v = vec![
        [-26 * H, -3 * H, -70 * MINUTE, -H],
        [-26 * H, -25 * H, -10 * MINUTE, 10 * MINUTE],
        [-3 * H, -2 * H, -90 * MINUTE, -H - 1],
        [-H - 1, -H, -H + 1, -30 * MINUTE],
        [-90 * MINUTE, -H, -10 * MINUTE, 0],
        [-30 * MINUTE, -10 * MINUTE, 0, 5 * MINUTE],
        [-25 * H, -25 * H, 5 * MINUTE, 5 * MINUTE],
    ];
    if tier == "thorough" {
        let p = [-25 * H, -3 * H, -70 * MINUTE, -H, -20 * MINUTE, 0, 5 * MINUTE];
        for i in 0..p.len() {
            for j in i..p.len() {
                for k in j..p.len() {
                    for l in k..p.len() {
                        v.push([p[i], p[j], p[k], p[l]]);
                    }
                }
            }
        }
    }
    v
}

/// (name, tree) of the two-bound templates: bound 0 <= bound 1
fn two_bound_templates() -> Vec<(&'static str, W)> {
    use Op::*;
    vec![
        ("ge-le", and(vec![cmp(Ge, 0), cmp(Le, 1)])),
        ("gt-lt", and(vec![cmp(Gt, 0), cmp(Lt, 1)])),
        ("ge-lt", and(vec![cmp(Ge, 0), cmp(Lt, 1)])),
        ("gt-le", and(vec![cmp(Gt, 0), cmp(Le, 1)])),
        ("flipped-both", and(vec![flip(Ge, 0), flip(Le, 1)])),
        ("flipped-strict", and(vec![flip(Gt, 0), flip(Lt, 1)])),
        ("flipped-one", and(vec![flip(Gt, 0), cmp(Le, 1)])),
        ("upper-first", and(vec![cmp(Le, 1), cmp(Ge, 0)])),
        ("between", btw(0, 1)),
        ("not-lt-and-not-gt", and(vec![not(cmp(Lt, 0)), not(cmp(Gt, 1))])),
        ("not-of-or", not(or(vec![cmp(Lt, 0), cmp(Gt, 1)]))),
        ("ge-and-not-gt", and(vec![cmp(Ge, 0), not(cmp(Gt, 1))])),
        ("not-lt-and-le", and(vec![not(cmp(Lt, 0)), cmp(Le, 1)])),
        ("not-not", not(not(and(vec![cmp(Ge, 0), cmp(Le, 1)])))),
        ("not-not-between", not(nbtw(0, 1))),
        ("not-flipped", and(vec![not(flip(Lt, 0)), not(flip(Gt, 1))])),
        ("not-le-and-not-ge", and(vec![not(cmp(Le, 0)), not(cmp(Ge, 1))])),
        ("eq-or-eq", or(vec![cmp(Eq, 0), cmp(Eq, 1)])),
        ("eq-or-eq-reversed", or(vec![cmp(Eq, 1), cmp(Eq, 0)])),
        ("in-2", W::In(vec![0, 1], false)),
        ("window-and-ne", and(vec![cmp(Ge, 0), cmp(Le, 1), cmp(Ne, 0)])),
        ("ge-and-eq", and(vec![cmp(Ge, 0), cmp(Eq, 1)])),
        ("eq-and-le", and(vec![cmp(Eq, 0), cmp(Le, 1)])),
        ("between-and-eq", and(vec![btw(0, 1), cmp(Eq, 1)])),
        ("eq-or-flipped-eq", or(vec![cmp(Eq, 0), flip(Eq, 1)])),
    ]
}
fn one_bound_templates() -> Vec<(&'static str, W)> {
    use Op::*;
    vec![
        ("eq", cmp(Eq, 0)),
        ("eq-flipped", flip(Eq, 0)),
        ("ge-le-same", and(vec![cmp(Ge, 0), cmp(Le, 0)])),
        ("not-ne", not(cmp(Ne, 0))),
        ("in-1", W::In(vec![0], false)),
        ("between-same", btw(0, 0)),
        ("not-lt-and-not-gt-same", and(vec![not(cmp(Lt, 0)), not(cmp(Gt, 0))])),
    ]
}
/// bounds 0 <= 1 <= 2
fn three_bound_templates() -> Vec<(&'static str, W)> {
    use Op::*;
    vec![
        ("window-or-eq", or(vec![and(vec![cmp(Ge, 0), cmp(Le, 1)]), cmp(Eq, 2)])),
        ("eq-or-window", or(vec![cmp(Eq, 2), and(vec![cmp(Ge, 0), cmp(Le, 1)])])),
        ("eq-low-or-window", or(vec![cmp(Eq, 0), and(vec![cmp(Ge, 1), cmp(Le, 2)])])),
        ("window-or-eq-low", or(vec![and(vec![cmp(Ge, 1), cmp(Le, 2)]), cmp(Eq, 0)])),
        ("eq-or-eq-or-eq", or(vec![cmp(Eq, 0), cmp(Eq, 1), cmp(Eq, 2)])),
        ("eq-or-eq-or-eq-mixed-order", or(vec![cmp(Eq, 1), cmp(Eq, 2), cmp(Eq, 0)])),
        ("in-3", W::In(vec![0, 1, 2], false)),
        ("in-3-mixed-order", W::In(vec![1, 2, 0], false)),
        ("window-and-not-eq", and(vec![cmp(Ge, 0), cmp(Le, 2), not(cmp(Eq, 1))])),
        ("window-and-not-in", and(vec![btw(0, 2), W::In(vec![1], true)])),
        ("gt-and-le-or-eq", and(vec![cmp(Gt, 0), or(vec![cmp(Le, 1), cmp(Eq, 2)])])),
        ("between-or-eq", or(vec![btw(0, 1), cmp(Eq, 2)])),
        ("label-or-eq-inside-window", and(vec![cmp(Ge, 0), cmp(Le, 2), or(vec![W::Raw("host = 'a'", "host = ?"), cmp(Eq, 1)])])),
    ]
}
/// bounds 0 <= 1 <= 2 <= 3
fn four_bound_templates() -> Vec<(&'static str, W)> {
    use Op::*;
    let win = |a, b| and(vec![cmp(Ge, a), cmp(Le, b)]);
    vec![
        ("window-or-window", or(vec![win(0, 1), win(2, 3)])),
        ("window-or-window-late-first", or(vec![win(2, 3), win(0, 1)])),
        ("window-or-window-strict", or(vec![and(vec![cmp(Gt, 0), cmp(Lt, 1)]), and(vec![cmp(Gt, 2), cmp(Lt, 3)])])),
        ("between-or-between", or(vec![btw(0, 1), btw(2, 3)])),
        ("between-and-not-between", and(vec![btw(0, 3), nbtw(1, 2)])),
        ("not-between-and-between", and(vec![nbtw(1, 2), btw(0, 3)])),
        ("between-and-not-paren-between", and(vec![btw(0, 3), not(btw(1, 2))])),
        ("window-and-hole", and(vec![cmp(Ge, 0), cmp(Le, 3), or(vec![cmp(Lt, 1), cmp(Gt, 2)])])),
        ("redundant-bounds", and(vec![cmp(Ge, 0), cmp(Ge, 1), cmp(Le, 2), cmp(Le, 3)])),
        ("redundant-bounds-tight-first", and(vec![cmp(Ge, 1), cmp(Ge, 0), cmp(Le, 3), cmp(Le, 2)])),
        ("or-of-lower-and-or-of-upper", and(vec![or(vec![cmp(Ge, 0), cmp(Ge, 1)]), or(vec![cmp(Le, 2), cmp(Le, 3)])])),
        ("not-of-outside-or-hole", not(or(vec![cmp(Lt, 0), cmp(Gt, 3), and(vec![cmp(Gt, 1), cmp(Lt, 2)])]))),
        (
            "labelled-window-or-labelled-window",
            or(vec![
                and(vec![cmp(Ge, 0), cmp(Le, 1), W::Raw("host = 'a'", "host = ?")]),
                and(vec![cmp(Ge, 2), cmp(Le, 3), W::Raw("host = 'b'", "host = ?")]),
            ]),
        ),
        ("in-4", W::In(vec![3, 0, 2, 1], false)),
    ]
}

/// every (template, bound assignment) of the time grammar
fn time_clauses(tier: &str) -> Vec<(&'static str, Wi)> {
    let mut v = Vec::new();
    for (a, b) in windows(tier) {
        for (n, w) in two_bound_templates() {
            v.push((n, Wi { w, b: at(&[a, b]) }));
        }
    }
    for p in points(tier) {
        for (n, w) in one_bound_templates() {
            v.push((n, Wi { w, b: at(&[p]) }));
        }
    }
    for t in triples(tier) {
        for (n, w) in three_bound_templates() {
            v.push((n, Wi { w, b: at(&t) }));
        }
    }
    for q in quads(tier) {
        for (n, w) in four_bound_templates() {
            v.push((n, Wi { w, b: at(&q) }));
        }
    }
    v
}

const LABEL_PREDS: &[(&str, &str)] = &[
    ("host = 'a'", "host = ?"),
    ("host != 'a'", "host != ?"),
    ("host IS NULL", "host IS NULL"),
    ("host IS NOT NULL", "host IS NOT NULL"),
    ("metric_name = 'cpu'", "metric_name = ?"),
    ("host = 'a' OR metric_name = 'mem'", "host = ? OR metric_name = ?"),
    ("value_f64 > 6", "value_f64 > ?"),
    ("value_f64 >= 7.0 AND value_f64 < 11.0", "value_f64 >= ? AND value_f64 < ?"),
    ("host IN ('a', 'b')", "host IN (?, ?)"),
    ("NOT (host = 'b')", "NOT (host = ?)"),
    ("id BETWEEN 3 AND 9", "id BETWEEN ? AND ?"),
    ("host = 'zzz'", "host = ?"),
];

/// SELECT shapes over one WHERE clause `{w}`
const SHAPES: &[(&str, &str)] = &[
    ("star", "SELECT * FROM metrics WHERE {w}"),
    ("ids", "SELECT id FROM metrics WHERE {w}"),
    ("columns", "SELECT timestamp, metric_name, host, value_f64 FROM metrics WHERE {w}"),
    ("host-value", "SELECT host, value_f64 FROM metrics WHERE {w}"),
    ("count", "SELECT count(*) FROM metrics WHERE {w}"),
    ("aggregates", "SELECT count(*), sum(value_f64), min(value_f64), max(value_f64), avg(value_f64) FROM metrics WHERE {w}"),
    ("min-max-ts", "SELECT min(timestamp), max(timestamp) FROM metrics WHERE {w}"),
    ("group-by-metric", "SELECT metric_name, count(*), sum(value_f64) FROM metrics WHERE {w} GROUP BY metric_name"),
    ("group-by-host", "SELECT host, count(*), min(value_f64), max(value_f64), avg(value_f64) FROM metrics WHERE {w} GROUP BY host"),
    ("group-by-both", "SELECT metric_name, host, count(*) FROM metrics WHERE {w} GROUP BY metric_name, host"),
    ("distinct-host", "SELECT DISTINCT host FROM metrics WHERE {w}"),
    ("count-distinct", "SELECT count(DISTINCT host), count(host) FROM metrics WHERE {w}"),
    ("order-limit", "SELECT id, value_f64 FROM metrics WHERE {w} ORDER BY timestamp, id LIMIT 3"),
    ("order-desc-limit", "SELECT id FROM metrics WHERE {w} ORDER BY timestamp DESC, id DESC LIMIT 2"),
    ("expr-projection", "SELECT id + 1, value_f64 * 2.0 FROM metrics WHERE {w}"),
];

/// shapes whose label predicate sits in a filter of its own, so that it reaches the statistics pruning
/// (`{w}` = a time window): HAVING on a grouping column, a filter over a derived table
const PUSHDOWN_SHAPES: &[(&str, &str)] = &[
    ("SELECT host, count(*), sum(value_f64) FROM metrics WHERE {w} GROUP BY host HAVING host = 'a'", "GROUP BY host HAVING host = ?"),
    ("SELECT metric_name, count(*) FROM metrics WHERE {w} GROUP BY metric_name HAVING metric_name = 'mem'", "GROUP BY metric_name HAVING metric_name = ?"),
    ("SELECT host, count(*) FROM metrics WHERE {w} GROUP BY host HAVING host > 'a'", "GROUP BY host HAVING host > ?"),
    ("SELECT host, count(*) FROM metrics WHERE {w} GROUP BY host HAVING host IN ('b')", "GROUP BY host HAVING host IN (?)"),
    ("SELECT host, count(*) FROM metrics WHERE {w} GROUP BY host HAVING host != 'a'", "GROUP BY host HAVING host != ?"),
    ("SELECT host, count(*) FROM metrics WHERE {w} GROUP BY host HAVING NOT (host = 'a')", "GROUP BY host HAVING NOT (host = ?)"),
    ("SELECT host, count(*) FROM metrics WHERE {w} GROUP BY host HAVING host = 'a' OR host = 'b'", "GROUP BY host HAVING host = ? OR host = ?"),
    ("SELECT id FROM (SELECT * FROM metrics WHERE {w}) WHERE host = 'a'", "derived WHERE host = ?"),
    ("SELECT id FROM (SELECT * FROM metrics WHERE {w}) WHERE metric_name = 'cpu' AND host = 'b'", "derived WHERE metric_name = ? AND host = ?"),
    ("SELECT id FROM (SELECT * FROM metrics WHERE {w}) WHERE value_f64 >= 7.0", "derived WHERE value_f64 >= ?"),
    ("SELECT id FROM (SELECT * FROM metrics WHERE {w}) WHERE value_f64 < 3.0 OR value_f64 > 11.0", "derived WHERE value_f64 < ? OR value_f64 > ?"),
    ("SELECT id FROM (SELECT * FROM metrics WHERE {w}) WHERE value_f64 = 5", "derived WHERE value_f64 = ?int"),
    ("SELECT id FROM (SELECT * FROM metrics WHERE {w}) WHERE id BETWEEN 3 AND 5", "derived WHERE id BETWEEN ? AND ?"),
    ("SELECT id FROM (SELECT * FROM metrics WHERE {w}) WHERE id NOT BETWEEN 3 AND 5", "derived WHERE id NOT BETWEEN ? AND ?"),
    ("SELECT id FROM (SELECT * FROM metrics WHERE {w}) WHERE id IN (1, 12)", "derived WHERE id IN (?, ?)"),
    ("SELECT id FROM (SELECT * FROM metrics WHERE {w}) WHERE id NOT IN (1, 12)", "derived WHERE id NOT IN (?, ?)"),
    ("SELECT id FROM (SELECT * FROM metrics WHERE {w}) WHERE id <= 2", "derived WHERE id <= ?"),
    ("SELECT id FROM (SELECT * FROM metrics WHERE {w}) WHERE id < 3", "derived WHERE id < ?"),
    ("SELECT id FROM (SELECT * FROM metrics WHERE {w}) WHERE id >= 10", "derived WHERE id >= ?"),
    ("SELECT id FROM (SELECT * FROM metrics WHERE {w}) WHERE id > 9", "derived WHERE id > ?"),
    ("SELECT id FROM (SELECT * FROM metrics WHERE {w}) WHERE id != 4", "derived WHERE id != ?"),
    ("SELECT id FROM (SELECT * FROM metrics WHERE {w}) WHERE NOT (id > 4)", "derived WHERE NOT (id > ?)"),
    ("SELECT id FROM (SELECT * FROM metrics WHERE {w}) WHERE host <= 'a'", "derived WHERE host <= ?"),
    ("SELECT id FROM (SELECT * FROM metrics WHERE {w}) WHERE host >= 'b'", "derived WHERE host >= ?"),
    ("SELECT id FROM (SELECT * FROM metrics WHERE {w}) WHERE host = 'a' OR host IS NULL", "derived WHERE host = ? OR host IS NULL"),
    ("SELECT id FROM (SELECT id, host FROM metrics WHERE {w}) WHERE host = 'b'", "derived(id, host) WHERE host = ?"),
    ("SELECT id FROM (SELECT * FROM metrics WHERE host = 'a') WHERE {w}", "derived(host = ?) WHERE window"),
    ("SELECT id FROM (SELECT * FROM metrics WHERE id >= 6) WHERE {w}", "derived(id >= ?) WHERE window"),
    // column names that are aliases must not reach the statistics
    ("SELECT * FROM (SELECT host, sum(value_f64) AS value_f64 FROM metrics WHERE {w} GROUP BY host) WHERE value_f64 > 20.0", "derived(sum AS value_f64) WHERE value_f64 > ?"),
    ("SELECT * FROM (SELECT metric_name AS host, id FROM metrics WHERE {w}) WHERE host = 'cpu'", "derived(metric_name AS host) WHERE host = ?"),
    ("SELECT count(*) FROM (SELECT * FROM metrics WHERE {w}) WHERE value_f64 = 5.0", "derived count WHERE value_f64 = ?"),
];

fn forms_for(ts_type: bool) -> Vec<Form> {
    if ts_type {
        vec![Form::TsLit, Form::ToTsNanos, Form::NowRel]
    } else {
        vec![Form::Int]
    }
}

static OUTSIDE_FAMILY: AtomicUsize = AtomicUsize::new(0);

/// membership in the family: the generator's interval analysis must find a finite window
fn in_family(wi: &Wi) -> bool {
    let ok = confined(&wi.w, &wi.b).is_some();
    if !ok {
        OUTSIDE_FAMILY.fetch_add(1, Ordering::SeqCst);
    }
    ok
}

fn mk_q(shape_sql: &str, shape_tmpl: Option<&str>, wi: &Wi, form: Form) -> Q {
    let w = render(&wi.w, &wi.b, form, false);
    let t = render(&wi.w, &wi.b, form, true);
    let single = shape_tmpl.is_none();
    Q {
        sql: shape_sql.replace("{w}", &w),
        tmpl: shape_sql.replace("{w}", &t),
        time_tmpl: t,
        where_sql: if single { Some(w) } else { None },
        expect_both_error: false,
        form: form.name(),
        hull: confined(&wi.w, &wi.b).filter(|(a, b)| a <= b).map(|(a, b)| (a as i64, b as i64)),
    }
}

/// sub-space "windows": every time clause x literal form, row-identifying projection
fn q_windows(ts_type: bool, tier: &str, reduced_forms: bool) -> Vec<Q> {
    let mut v = Vec::new();
    // in the quick tier the two function-call forms run on a subset of the templates
    let core: BTreeSet<&str> = ["ge-le", "flipped-both", "between", "not-lt-and-not-gt", "eq-or-eq", "in-2", "eq", "window-or-eq", "window-or-window", "between-and-not-between", "gt-lt"].into_iter().collect();
    for (name, wi) in time_clauses(tier) {
        if !in_family(&wi) {
            continue;
        }
        for f in forms_for(ts_type) {
            if reduced_forms && matches!(f, Form::ToTsNanos | Form::NowRel) && !core.contains(name) {
                continue;
            }
            v.push(mk_q("SELECT id FROM metrics WHERE {w}", None, &wi, f));
        }
    }
    v
}

fn base_windows() -> Vec<Wi> {
    use Op::*;
    let w2 = and(vec![cmp(Ge, 0), cmp(Le, 1)]);
    vec![
        Wi { w: w2.clone(), b: at(&[-26 * H, 10 * MINUTE]) },
        Wi { w: w2.clone(), b: at(&[-3 * H, -H]) },
        Wi { w: btw(0, 1), b: at(&[-70 * MINUTE, -10 * MINUTE]) },
        Wi { w: and(vec![cmp(Gt, 0), cmp(Lt, 1)]), b: at(&[-H, 0]) },
        Wi { w: or(vec![and(vec![cmp(Ge, 0), cmp(Le, 1)]), and(vec![cmp(Ge, 2), cmp(Le, 3)])]), b: at(&[-25 * H, -3 * H, -20 * MINUTE, 5 * MINUTE]) },
    ]
}

/// sub-space "shapes": SELECT shapes and label predicates over a few windows
fn q_shapes(ts_type: bool, tier: &str) -> Vec<Q> {
    let mut v = Vec::new();
    let form = if ts_type { Form::TsLit } else { Form::Int };
    let forms = if tier == "thorough" { forms_for(ts_type) } else { vec![form] };
    for wi in base_windows() {
        if !in_family(&wi) {
            continue;
        }
        for f in &forms {
            for (_, s) in SHAPES {
                v.push(mk_q(s, None, &wi, *f));
            }
            for (p, pt) in LABEL_PREDS {
                // the label predicate joins the WHERE clause
                let lw = Wi { w: and(vec![wi.w.clone(), W::Raw(p, pt)]), b: wi.b.clone() };
                let lw2 = Wi { w: and(vec![W::Raw(p, pt), wi.w.clone()]), b: wi.b.clone() };
                for s in ["SELECT id FROM metrics WHERE {w}", "SELECT count(*), sum(value_f64) FROM metrics WHERE {w}", "SELECT host, count(*) FROM metrics WHERE {w} GROUP BY host"] {
                    v.push(mk_q(s, None, &lw, *f));
                }
                v.push(mk_q("SELECT id FROM metrics WHERE {w}", None, &lw2, *f));
            }
        }
    }
    v
}

/// sub-space "pushdown": label predicates in a filter of their own
fn q_pushdown(ts_type: bool, tier: &str) -> Vec<Q> {
    let mut v = Vec::new();
    let form = if ts_type { Form::TsLit } else { Form::Int };
    let forms = if tier == "thorough" { forms_for(ts_type) } else { vec![form] };
    for wi in base_windows() {
        if !in_family(&wi) {
            continue;
        }
        for f in &forms {
            for (s, t) in PUSHDOWN_SHAPES {
                v.push(mk_q(s, Some(t), &wi, *f));
            }
        }
    }
    v
}

/// statements that subject and reference must both reject (a Timestamp column against an integer literal)
fn q_both_error(ts_type: bool) -> Vec<Q> {
    if !ts_type {
        return Vec::new();
    }
    let wi = Wi { w: and(vec![cmp(Op::Ge, 0), cmp(Op::Le, 1)]), b: at(&[-3 * H, 0]) };
    let mut q = mk_q("SELECT id FROM metrics WHERE {w}", None, &wi, Form::Int);
    q.expect_both_error = true;
    vec![q]
}

// ------------------------------------------------------------------------------------------------
// reference and comparison
// ------------------------------------------------------------------------------------------------

/// result as a sorted multiset of rendered rows
fn norm(batches: &[RecordBatch]) -> Result<Vec<String>, String> {
    use arrow::util::display::{ArrayFormatter, FormatOptions};
    let opts = FormatOptions::default().with_null("NULL");
    let mut out = Vec::new();
    for b in batches {
        let fm: Vec<ArrayFormatter> = b.columns().iter().map(|c| ArrayFormatter::try_new(c.as_ref(), &opts).map_err(|e| e.to_string())).collect::<Result<_, _>>()?;
        for i in 0..b.num_rows() {
            out.push(fm.iter().map(|f| f.value(i).to_string()).collect::<Vec<_>>().join("|"));
        }
    }
    out.sort();
    Ok(out)
}

fn minus(a: &[String], b: &[String]) -> Vec<String> {
    let mut cb: BTreeMap<&str, i64> = BTreeMap::new();
    for s in b {
        *cb.entry(s.as_str()).or_insert(0) += 1;
    }
    let mut out = Vec::new();
    for s in a {
        let e = cb.entry(s.as_str()).or_insert(0);
        if *e > 0 {
            *e -= 1;
        } else {
            out.push(s.clone());
        }
    }
    out
}

type RefKey = (bool, String, String);
static REF_CACHE: std::sync::OnceLock<Mutex<HashMap<RefKey, Result<Vec<String>, String>>>> = std::sync::OnceLock::new();

/// the same SQL over a `MemTable` of all rows of the data set (memoised: the answer depends on nothing else)
struct Oracle {
    rows: Vec<Row>,
    ts_type: bool,
    key: String,
    ctx: Option<datafusion::prelude::SessionContext>,
    use_cache: bool,
}
impl Oracle {
    fn new(l: &Layout, use_cache: bool) -> Self {
        let rows: Vec<Row> = l.rows.iter().map(|r| r.row()).collect();
        Self { rows, ts_type: l.ts_type, key: l.dataset.clone(), ctx: None, use_cache }
    }
    async fn query(&mut self, sql: &str) -> Result<Vec<String>, String> {
        let k: RefKey = (self.ts_type, self.key.clone(), sql.to_string());
        let cache = REF_CACHE.get_or_init(|| Mutex::new(HashMap::new()));
        if self.use_cache {
            if let Some(v) = cache.lock().unwrap().get(&k) {
                return v.clone();
            }
        }
        if self.ctx.is_none() {
            use datafusion::prelude::{SessionConfig, SessionContext};
            let ctx = SessionContext::new_with_config(SessionConfig::new().with_target_partitions(1));
            let b = rows_to_batch(&self.rows, self.ts_type);
            let t = datafusion::datasource::MemTable::try_new(b.schema(), vec![vec![b]]).expect("memtable");
            ctx.register_table("metrics", Arc::new(t)).expect("register");
            self.ctx = Some(ctx);
        }
        let ctx = self.ctx.as_ref().unwrap();
        let r = async {
            let df = ctx.sql(sql).await.map_err(|e| e.to_string())?;
            let b = df.collect().await.map_err(|e| e.to_string())?;
            norm(&b)
        }
        .await;
        if self.use_cache {
            cache.lock().unwrap().insert(k, r.clone());
        }
        r
    }
}

/// error text reduced to its class (digits, quoted parts and everything after the first line dropped)
fn err_class(e: &str) -> String {
    let first = e.lines().next().unwrap_or("");
    let mut out = String::new();
    let mut in_q = false;
    for c in first.chars() {
        match c {
            '\'' | '"' | '`' => {
                in_q = !in_q;
                if in_q {
                    out.push('_');
                }
            }
            _ if in_q => {}
            '0'..='9' => {
                if !out.ends_with('#') {
                    out.push('#');
                }
            }
            _ => out.push(c),
        }
    }
    out.truncate(110);
    out.trim().to_string()
}

#[derive(Default, Clone, Debug)]
struct Stats {
    evaluations: u64,
    agree: u64,
    both_error: u64,
    nonempty: u64,
    pruned_time: u64,
    pruned_stats: u64,
    pruned_any: u64,
    pruned_and_nonempty: u64,
    selected_none: u64,
    with_predicates: u64,
    fresh_node: u64,
    repeats: u64,
    after_compaction: u64,
    adaptive: u64,
    index_usage_recorded: u64,
    fails: u64,
}
impl Stats {
    fn add(&mut self, o: &Stats) {
        macro_rules! a { ($($f:ident),*) => { $( self.$f += o.$f; )* } }
        a!(evaluations, agree, both_error, nonempty, pruned_time, pruned_stats, pruned_any, pruned_and_nonempty, selected_none, with_predicates, fresh_node, repeats, after_compaction, adaptive, index_usage_recorded, fails);
    }
}

#[derive(Clone, Debug)]
struct Fail {
    sig: String,
    msg: String,
    /// index of the failing query within the case's batch
    at: usize,
}

#[derive(Default)]
struct Outcome {
    fails: Vec<Fail>,
    machinery: Vec<String>,
    stats: BTreeMap<&'static str, Stats>,
    log: Vec<String>,
    sample: Option<Value>,
    /// literal form -> (evaluations, evaluations in which the time index skipped a chunk)
    by_form: BTreeMap<&'static str, (u64, u64)>,
}

fn off_str(ts: i64) -> String {
    let o = ts as i128 - NOW as i128;
    if ts == i64::MIN {
        return "-inf".into();
    }
    if ts == i64::MAX {
        return "+inf".into();
    }
    let a = o.abs();
    let s = if o < 0 { "-" } else { "+" };
    if a % (MINUTE as i128) == 0 {
        format!("now{s}{}min", a / MINUTE as i128)
    } else {
        format!("now{s}{}min{s}{}ns", a / MINUTE as i128, a % MINUTE as i128)
    }
}

/// Judge one query. `tag` qualifies the node state for statistics ("fresh", "repeat", ...).
#[allow(clippy::too_many_arguments)]
async fn judge(space: &'static str, w: &World, n: &Node, oracle: &mut Oracle, q: &Q, at: usize, fresh: bool, repeat: bool, after_compaction: bool, verbose: bool, out: &mut Outcome) {
    macro_rules! say { ($($t:tt)*) => { if verbose { out.log.push(format!($($t)*)); } } }
    let expected = oracle.query(&q.sql).await;
    let _ = w.spy.take();
    let usage_before: u64 = n.ctl.as_ref().map(|(c, _)| index_usage(c)).unwrap_or(0);
    let got = AssertUnwindSafe(n.node.query(&q.sql)).catch_unwind().await;
    let calls = w.spy.take();
    let usage_after: u64 = n.ctl.as_ref().map(|(c, _)| index_usage(c)).unwrap_or(0);
    let st = out.stats.entry(space).or_default();
    st.evaluations += 1;
    if fresh {
        st.fresh_node += 1;
    }
    if repeat {
        st.repeats += 1;
    }
    if after_compaction {
        st.after_compaction += 1;
    }
    if n.ctl.is_some() {
        st.adaptive += 1;
        if usage_after > usage_before {
            st.index_usage_recorded += 1;
        }
    }
    let call = calls.last().cloned();
    let mut pruned = false;
    if let Some(c) = &call {
        if let Some(sel) = &c.selected {
            let pt = c.all.saturating_sub(c.time_selected.len());
            let ps = c.time_selected.len().saturating_sub(sel.len());
            if !repeat {
                let bf = out.by_form.entry(q.form).or_insert((0, 0));
                bf.0 += 1;
                if pt > 0 {
                    bf.1 += 1;
                }
                if pt > 0 {
                    st.pruned_time += 1;
                }
                if ps > 0 {
                    st.pruned_stats += 1;
                }
                if pt + ps > 0 {
                    st.pruned_any += 1;
                    pruned = true;
                }
                if sel.is_empty() {
                    st.selected_none += 1;
                }
                if c.n_preds > 0 {
                    st.with_predicates += 1;
                }
            }
        }
        say!("  window passed to the catalog: [{}, {}] = [{}, {}]; predicates {}", c.start, c.end, off_str(c.start), off_str(c.end), c.preds);
        say!("  chunks: {} registered, {} after time-index pruning, selected {:?}", c.all, c.time_selected.len(), c.selected);
    }
    let got: Result<Vec<String>, String> = match got {
        Err(p) => {
            let m = p.downcast_ref::<String>().cloned().or_else(|| p.downcast_ref::<&str>().map(|s| s.to_string())).unwrap_or_default();
            st.fails += 1;
            out.fails.push(Fail { sig: format!("C04:panic:{}:{}", err_class(&m), q.time_tmpl), msg: format!("`{}` panicked: {m}", q.sql), at });
            return;
        }
        Ok(Ok(b)) => norm(&b),
        Ok(Err(e)) => Err(e.to_string()),
    };
    say!("  subject:   {:?}", got);
    say!("  full scan: {:?}", expected);
    let state = if fresh { "fresh-node" } else { "warm-node" };
    match (&got, &expected) {
        (Err(_), Err(_)) => {
            st.both_error += 1;
            if !q.expect_both_error {
                out.machinery.push(format!("subject and reference both reject a statement of the family: `{}`: {:?}", q.sql, expected));
            }
        }
        (Err(e), Ok(x)) => {
            st.fails += 1;
            out.fails.push(Fail {
                sig: format!("C04:error-vs-ok:{}:{state}", err_class(e)),
                msg: format!("`{}` on a {state} failed with `{}`; a full scan of all rows answers {} row(s) {:?}", q.sql, e.lines().next().unwrap_or(""), x.len(), x.iter().take(4).collect::<Vec<_>>()),
                at,
            });
        }
        (Ok(g), Err(e)) => {
            st.fails += 1;
            out.fails.push(Fail {
                sig: format!("C04:ok-vs-error:{}:{state}", err_class(e)),
                msg: format!("`{}` on a {state} answered {:?} although a full scan of all rows rejects the statement: {}", q.sql, g.iter().take(4).collect::<Vec<_>>(), e.lines().next().unwrap_or("")),
                at,
            });
        }
        (Ok(g), Ok(x)) if g == x => {
            st.agree += 1;
            if !x.is_empty() {
                st.nonempty += 1;
                if pruned {
                    st.pruned_and_nonempty += 1;
                }
            }
            if q.expect_both_error {
                out.machinery.push(format!("`{}` was expected to be rejected by both sides", q.sql));
            }
            if pruned && !x.is_empty() && out.sample.is_none() {
                if let Some(c) = &call {
                    out.sample = Some(json!({"sql": q.sql, "chunks_registered": c.all, "after_time_pruning": c.time_selected.len(), "selected": c.selected.as_ref().map(|s| s.len()), "answer_rows": x.len(), "window": [off_str(c.start), off_str(c.end)]}));
                }
            }
        }
        (Ok(g), Ok(x)) => {
            st.fails += 1;
            let missing = minus(x, g);
            let extra = minus(g, x);
            let kind = match (missing.is_empty(), extra.is_empty()) {
                (false, true) => "missing-rows",
                (true, false) => "extra-rows",
                _ => "wrong-rows",
            };
            // attribute the mismatch: does the set of selected chunks explain it, and if so which chunk that
            // contributes to the full-scan answer was not selected, and why
            let mut cause = "no-catalog-call".to_string();
            let mut detail = String::new();
            let mut by_time = false;
            if let Some(c) = &call {
                if let Some(sel) = &c.selected {
                    let sel_rows: Vec<Row> = w.chunk_rows.iter().filter(|(p, _)| sel.contains(p)).flat_map(|(_, r)| r.iter().cloned()).collect();
                    let r_sel = ref_over(&sel_rows, w.ts_type, &q.sql).await;
                    if r_sel.as_ref().ok() != Some(g) {
                        cause = "selected-chunks-suffice-but-answer-differs".into();
                    } else {
                        cause = "needed-chunks-not-selected".into();
                        for (p, rows) in &w.chunk_rows {
                            if sel.contains(p) {
                                continue;
                            }
                            let mut plus = sel_rows.clone();
                            plus.extend(rows.iter().cloned());
                            if ref_over(&plus, w.ts_type, &q.sql).await == r_sel {
                                continue;
                            }
                            let mn = rows.iter().map(|r| r.ts).min().unwrap();
                            let mx = rows.iter().map(|r| r.ts).max().unwrap();
                            if c.time_selected.contains(p) {
                                cause = "needed-chunk-pruned-by-statistics".into();
                            } else {
                                by_time = true;
                                let why = if c.start > c.end {
                                    "window-inverted"
                                } else if mx < c.start {
                                    if c.start == NOW - H && q.hull.map(|h| h.0 != NOW - H).unwrap_or(true) {
                                        "lower-bound-defaulted-to-one-hour-ago"
                                    } else {
                                        "lower-bound-too-high"
                                    }
                                } else if mn > c.end {
                                    if c.end == NOW && q.hull.map(|h| h.1 != NOW).unwrap_or(true) {
                                        "upper-bound-defaulted-to-now"
                                    } else {
                                        "upper-bound-too-low"
                                    }
                                } else {
                                    "overlapping-chunk-not-found-by-time-index"
                                };
                                cause = format!("needed-chunk-pruned-by-time:{why}");
                            }
                            detail = format!("; chunk {p} [{}, {}] contributes to the answer but was not selected (window used [{}, {}], predicates {})", off_str(mn), off_str(mx), off_str(c.start), off_str(c.end), c.preds);
                            break;
                        }
                    }
                }
            }
            // a wrong window is a matter of the timestamp part of the WHERE clause and of the statement's plan shape;
            // anything else is keyed by the whole normalised statement
            let key = if by_time { format!("{}:{}", shape_class(&q.sql), q.time_tmpl) } else { q.tmpl.clone() };
            out.fails.push(Fail {
                sig: format!("C04:{cause}:{kind}:{key}"),
                msg: format!(
                    "`{}` on a {state} returned {} row(s), a full scan of all rows returns {}: missing {:?} extra {:?}{detail}",
                    q.sql,
                    g.len(),
                    x.len(),
                    missing.iter().take(4).collect::<Vec<_>>(),
                    extra.iter().take(4).collect::<Vec<_>>()
                ),
                at,
            });
        }
    }
}

/// plan shape of a statement, as far as it matters for finding the filters
fn shape_class(sql: &str) -> &'static str {
    if sql.contains("FROM (SELECT") {
        "derived-table"
    } else if sql.contains("SELECT DISTINCT") {
        "select-distinct"
    } else if sql.contains(" HAVING ") {
        "having"
    } else if sql.contains(" ORDER BY ") {
        "order-by"
    } else if sql.contains(" GROUP BY ") {
        "group-by"
    } else {
        "plain"
    }
}

/// `sql` over a MemTable holding exactly `rows`
async fn ref_over(rows: &[Row], ts_type: bool, sql: &str) -> Result<Vec<String>, String> {
    use datafusion::prelude::{SessionConfig, SessionContext};
    let ctx = SessionContext::new_with_config(SessionConfig::new().with_target_partitions(1));
    let b = rows_to_batch(rows, ts_type);
    let t = datafusion::datasource::MemTable::try_new(b.schema(), vec![vec![b]]).map_err(|e| e.to_string())?;
    ctx.register_table("metrics", Arc::new(t)).map_err(|e| e.to_string())?;
    let df = ctx.sql(sql).await.map_err(|e| e.to_string())?;
    let b = df.collect().await.map_err(|e| e.to_string())?;
    norm(&b)
}

fn index_usage(c: &Arc<AdaptiveIndexController>) -> u64 {
    let t = "default".to_string();
    let lm = &c.lifecycle_manager;
    lm.get_visible_index_metadata(&t).iter().map(|m| m.usage_count).sum::<u64>() + lm.get_invisible_indexes(&t).iter().map(|m| m.would_have_helped).sum::<u64>()
}

// ------------------------------------------------------------------------------------------------
// cases
// ------------------------------------------------------------------------------------------------

#[derive(Clone, Copy, Debug, PartialEq, Serialize, Deserialize)]
enum Mode {
    /// one node serves the whole batch (its first query meets a freshly started node)
    Warm,
    /// every query on a node of its own
    FreshEach,
    /// every query twice in a row on one node
    Twice,
}

#[derive(Clone)]
struct Case {
    space: &'static str,
    layout: Arc<Layout>,
    adaptive: bool,
    mode: Mode,
    queries: Arc<Vec<Q>>,
    from: usize,
    to: usize,
}

async fn run_case(c: &Case, verbose_from: Option<usize>, use_cache: bool) -> Outcome {
    let mut out = Outcome::default();
    let envs = EnvState::new();
    env::install(&envs);
    let r = AssertUnwindSafe(run_case_inner(c, verbose_from, use_cache, &mut out)).catch_unwind().await;
    env::uninstall();
    if let Err(p) = r {
        let m = p.downcast_ref::<String>().cloned().or_else(|| p.downcast_ref::<&str>().map(|s| s.to_string())).unwrap_or_default();
        out.machinery.push(format!("harness panicked outside the judged calls: {m}"));
    }
    out
}

async fn run_case_inner(c: &Case, verbose_from: Option<usize>, use_cache: bool, out: &mut Outcome) {
    let l = &c.layout;
    let mut w = match build_world(l).await {
        Ok(w) => w,
        Err(e) => {
            out.machinery.push(format!("layout {}: {e}", l.name));
            return;
        }
    };
    let mut oracle = Oracle::new(l, use_cache);
    let qs = &c.queries[c.from..c.to];
    let mid = l.compact.as_ref().filter(|x| x.mid).cloned();
    let mid_at = qs.len() / 2;
    let mut compacted = l.compact.is_some() && mid.is_none();
    let mut node: Option<Node> = None;
    for (i, q) in qs.iter().enumerate() {
        let verbose = verbose_from.map(|v| i >= v).unwrap_or(false);
        if let Some(m) = &mid {
            if i == mid_at {
                let inner = w.inner.clone();
                if let Err(e) = do_compact(&w.store.clone(), inner.as_ref(), &mut w.chunk_rows, m, w.ts_type).await {
                    out.machinery.push(format!("layout {}: mid-batch compaction: {e}", l.name));
                    return;
                }
                compacted = true;
            }
        }
        let fresh = node.is_none() || c.mode == Mode::FreshEach;
        if fresh {
            node = match build_node(&w, c.adaptive).await {
                Ok(n) => Some(n),
                Err(e) => {
                    out.machinery.push(format!("layout {}: {e}", l.name));
                    return;
                }
            };
        }
        let n = node.as_ref().unwrap();
        if verbose {
            out.log.push(format!("[{i}] {} node: {}", if fresh { "fresh" } else { "warm" }, q.sql));
        }
        judge(c.space, &w, n, &mut oracle, q, i, fresh, false, compacted, verbose, out).await;
        if c.mode == Mode::Twice {
            if verbose {
                out.log.push(format!("[{i}] again: {}", q.sql));
            }
            judge(c.space, &w, n, &mut oracle, q, i, false, true, compacted, verbose, out).await;
        }
    }
}

// ------------------------------------------------------------------------------------------------
// the plan: which queries meet which layouts
// ------------------------------------------------------------------------------------------------

fn layout(ds: &str, chunking: &(String, Vec<Vec<usize>>), ts_type: bool, os: bool, stats: bool, compact: Option<Compact>) -> Arc<Layout> {
    let ctag = match &compact {
        None => String::new(),
        Some(c) => format!("+compact{:?}{}{}", c.sources, if c.gc { "+gc" } else { "" }, if c.mid { "+mid" } else { "" }),
    };
    Arc::new(Layout {
        name: format!("{ds}/{}/{}/{}{}{ctag}", chunking.0, if ts_type { "Timestamp" } else { "Int64" }, if os { "object-store" } else { "local" }, if stats { "+stats" } else { "" }),
        dataset: ds.to_string(),
        ts_type,
        os,
        stats,
        rows: dataset(ds),
        chunks: chunking.1.clone(),
        compact,
    })
}

fn find_chunking(n: usize, name: &str, tier: &str) -> (String, Vec<Vec<usize>>) {
    chunkings(n, tier).into_iter().find(|c| c.0 == name).unwrap_or_else(|| panic!("no chunking {name} for {n} rows"))
}

fn batches(space: &'static str, l: &Arc<Layout>, adaptive: bool, mode: Mode, qs: &Arc<Vec<Q>>, batch: usize, out: &mut Vec<Case>) {
    let mut from = 0;
    while from < qs.len() {
        let to = (from + batch).min(qs.len());
        out.push(Case { space, layout: l.clone(), adaptive, mode, queries: qs.clone(), from, to });
        from = to;
    }
}

fn plan(tier: &str) -> Vec<Case> {
    let thorough = tier == "thorough";
    let mut cases = Vec::new();
    let batch = 64;
    for ts_type in [false, true] {
        let mut win = q_windows(ts_type, tier, !thorough);
        win.extend(q_both_error(ts_type));
        let win = Arc::new(win);
        // the small data sets meet the quick tier's statement list under every chunking
        let win_small = if thorough {
            let mut w = q_windows(ts_type, "quick", true);
            w.extend(q_both_error(ts_type));
            Arc::new(w)
        } else {
            win.clone()
        };
        let shapes = Arc::new(q_shapes(ts_type, tier));
        let push = Arc::new(q_pushdown(ts_type, tier));
        let n13 = dataset("U13").len();

        // ---- A: windows -----------------------------------------------------------------------------
        let mut k = 0usize;
        for ch in chunkings(n13, tier) {
            let both = !thorough || !ch.0.starts_with("cut-");
            for os in [false, true] {
                // in the thorough tier the many contiguous cuts alternate between the back ends
                if !both && (k % 2 == 0) != os {
                    continue;
                }
                batches("windows", &layout("U13", &ch, ts_type, os, false, None), false, Mode::Warm, &win, batch, &mut cases);
            }
            k += 1;
        }
        for (ds, names) in [("old", vec!["per-row", "single"]), ("edge", vec!["per-row", "evens-odds"]), ("future", vec!["single"]), ("recent", vec!["per-row"]), ("one", vec!["single"])] {
            let n = dataset(ds).len();
            let list: Vec<(String, Vec<Vec<usize>>)> = if thorough { chunkings(n, tier) } else { names.iter().map(|x| find_chunking(n, x, tier)).collect() };
            for (j, ch) in list.iter().enumerate() {
                for os in [false, true] {
                    if !thorough && (j % 2 == 0) != os && ds != "old" {
                        continue;
                    }
                    batches("windows", &layout(ds, ch, ts_type, os, false, None), false, Mode::Warm, &win_small, batch, &mut cases);
                }
            }
        }

        // ---- B: shapes -------------------------------------------------------------------------------
        let shape_chunkings: Vec<&str> = if thorough { vec!["single", "per-row", "per-row-reversed", "evens-odds", "straddle", "nested", "thirds-late-first"] } else { vec!["per-row", "straddle", "evens-odds"] };
        for name in &shape_chunkings {
            let ch = find_chunking(n13, name, tier);
            for os in [false, true] {
                batches("shapes", &layout("U13", &ch, ts_type, os, false, None), false, Mode::Warm, &shapes, batch, &mut cases);
            }
        }
        for ds in ["old", "edge"] {
            let ch = find_chunking(dataset(ds).len(), "per-row", tier);
            batches("shapes", &layout(ds, &ch, ts_type, true, false, None), false, Mode::Warm, &shapes, batch, &mut cases);
        }

        // ---- C: pushdown (catalog entries with true column statistics) ------------------------------------
        let push_chunkings: Vec<&str> = if thorough { vec!["single", "per-row", "per-row-reversed", "evens-odds", "straddle", "nested", "thirds-late-first"] } else { vec!["per-row", "straddle", "evens-odds", "nested", "single"] };
        for name in &push_chunkings {
            let ch = find_chunking(n13, name, tier);
            let l = layout("U13", &ch, ts_type, true, true, None);
            batches("pushdown", &l, false, Mode::Warm, &push, batch, &mut cases);
            batches("pushdown", &l, false, Mode::Warm, &shapes, batch, &mut cases);
        }
        {
            let ch = find_chunking(n13, "per-row", tier);
            // controls: no statistics, in-memory catalog
            batches("pushdown", &layout("U13", &ch, ts_type, true, false, None), false, Mode::Warm, &push, batch, &mut cases);
            batches("pushdown", &layout("U13", &ch, ts_type, false, false, None), false, Mode::Warm, &push, batch, &mut cases);
            let ch = find_chunking(dataset("edge").len(), "per-row", tier);
            batches("pushdown", &layout("edge", &ch, ts_type, true, true, None), false, Mode::Warm, &push, batch, &mut cases);
            if thorough {
                batches("pushdown", &layout("U13", &find_chunking(n13, "per-row", tier), ts_type, true, true, None), false, Mode::Warm, &win, batch, &mut cases);
            }
        }

        // ---- D: node and catalog state ----------------------------------------------------------------------
        // every query on a node of its own (the first query after start-up)
        let step = if thorough { 1 } else { 5 };
        let mut fresh: Vec<Q> = win.iter().step_by(step).cloned().collect();
        fresh.extend(shapes.iter().step_by(if thorough { 1 } else { 3 }).cloned());
        fresh.extend(push.iter().step_by(if thorough { 1 } else { 4 }).cloned());
        let fresh = Arc::new(fresh);
        for (ds, name, os) in [("U13", "per-row", false), ("U13", "straddle", true), ("old", "per-row", true), ("recent", "single", false)] {
            let ch = find_chunking(dataset(ds).len(), name, tier);
            batches("state:fresh-node", &layout(ds, &ch, ts_type, os, false, None), false, Mode::FreshEach, &fresh, 32, &mut cases);
        }
        // the same query twice in a row (cache temperature, unchanged table binding)
        for (name, os) in [("per-row", true), ("straddle", false)] {
            let ch = find_chunking(n13, name, tier);
            batches("state:repeat", &layout("U13", &ch, ts_type, os, false, None), false, Mode::Twice, &shapes, batch, &mut cases);
            if thorough {
                batches("state:repeat", &layout("U13", &ch, ts_type, os, false, None), false, Mode::Twice, &win, batch, &mut cases);
            }
        }
        // compaction: chunks merged into an L1 chunk before the node starts, or between two queries
        let per_row = find_chunking(n13, "per-row", tier);
        let straddle = find_chunking(n13, "straddle", tier);
        let mut comp_q: Vec<Q> = shapes.iter().cloned().collect();
        comp_q.extend(win.iter().step_by(if thorough { 2 } else { 4 }).cloned());
        let comp_q = Arc::new(comp_q);
        for (ch, sources) in [(&per_row, vec![3, 4, 5]), (&per_row, vec![0, 12]), (&straddle, vec![1, 2, 3])] {
            for os in [false, true] {
                for (gc, mid) in [(true, false), (false, false), (true, true)] {
                    if !thorough && !gc {
                        continue;
                    }
                    let l = layout("U13", ch, ts_type, os, false, Some(Compact { sources: sources.clone(), gc, mid }));
                    // a mid-batch compaction happens once per batch, so every batch exercises the switch
                    batches("state:compaction", &l, false, Mode::Warm, &comp_q, batch, &mut cases);
                }
            }
        }
        {
            let l = layout("U13", &per_row, ts_type, true, true, Some(Compact { sources: vec![3, 4, 5], gc: true, mid: false }));
            batches("state:compaction", &l, false, Mode::Warm, &push, batch, &mut cases);
        }
        // adaptive indexing enabled
        let mut ad_q: Vec<Q> = shapes.iter().cloned().collect();
        ad_q.extend(push.iter().cloned());
        ad_q.extend(win.iter().step_by(if thorough { 1 } else { 6 }).cloned());
        let ad_q = Arc::new(ad_q);
        for (ch, os, stats) in [(&per_row, false, false), (&straddle, true, false), (&per_row, true, true)] {
            batches("state:adaptive-indexing", &layout("U13", ch, ts_type, os, stats, None), true, Mode::Warm, &ad_q, batch, &mut cases);
        }
    }
    cases
}

// ------------------------------------------------------------------------------------------------
// driver
// ------------------------------------------------------------------------------------------------

fn q_json(q: &Q) -> Value {
    json!({"sql": q.sql, "tmpl": q.tmpl, "time_tmpl": q.time_tmpl, "where_sql": q.where_sql, "expect_both_error": q.expect_both_error, "hull": q.hull.map(|(a, b)| vec![a, b])})
}
fn q_from(v: &Value) -> Q {
    Q {
        sql: v["sql"].as_str().unwrap_or("").to_string(),
        tmpl: v["tmpl"].as_str().unwrap_or("").to_string(),
        time_tmpl: v["time_tmpl"].as_str().unwrap_or("").to_string(),
        where_sql: v["where_sql"].as_str().map(|s| s.to_string()),
        expect_both_error: v["expect_both_error"].as_bool().unwrap_or(false),
        form: "replay",
        hull: v["hull"].as_array().and_then(|a| Some((a.first()?.as_i64()?, a.get(1)?.as_i64()?))),
    }
}

fn replay_json(c: &Case, at: usize) -> Value {
    let qs = &c.queries[c.from..c.to];
    // a node of its own per query: the earlier queries of the batch do not matter
    let first = if c.mode == Mode::FreshEach && c.layout.compact.as_ref().map(|x| !x.mid).unwrap_or(true) { at } else { 0 };
    json!({
        "space": c.space,
        "layout": serde_json::to_value(&*c.layout).unwrap(),
        "adaptive": c.adaptive,
        "mode": serde_json::to_value(c.mode).unwrap(),
        "batch_len": qs.len(),
        "first": first,
        "queries": qs[first..=at].iter().map(q_json).collect::<Vec<_>>(),
    })
}

struct Merged {
    stats: BTreeMap<&'static str, Stats>,
    /// sig -> (order key, msg, replay, count)
    fails: BTreeMap<String, ((usize, usize), String, Value, u64)>,
    machinery: Vec<String>,
    samples: Vec<Value>,
    done: usize,
    by_form: BTreeMap<&'static str, (u64, u64)>,
}

fn drive(cases: &[Case], deadline: std::time::Instant) -> (Merged, bool) {
    let next = AtomicUsize::new(0);
    let capped = AtomicBool::new(false);
    let merged = Mutex::new(Merged { stats: BTreeMap::new(), fails: BTreeMap::new(), machinery: Vec::new(), samples: Vec::new(), done: 0, by_form: BTreeMap::new() });
    std::thread::scope(|s| {
        for _ in 0..crate::engine::sched::default_workers() {
            // roomy stacks: DataFusion's planner grows the stack through mmap when little is left, which
            // serialises the workers on the process-wide mapping lock
            std::thread::Builder::new()
                .stack_size(256 << 20)
                .spawn_scoped(s, || loop {
                    let i = next.fetch_add(1, Ordering::SeqCst);
                    if i >= cases.len() {
                        break;
                    }
                    if std::time::Instant::now() > deadline {
                        capped.store(true, Ordering::SeqCst);
                        break;
                    }
                    let rt = tokio::runtime::Builder::new_current_thread().enable_all().start_paused(true).build().unwrap();
                    let o = rt.block_on(run_case(&cases[i], None, true));
                    drop(rt);
                    let mut g = merged.lock().unwrap();
                    g.done += 1;
                    for (k, st) in &o.stats {
                        g.stats.entry(k).or_default().add(st);
                    }
                    for (k, v) in &o.by_form {
                        let e = g.by_form.entry(k).or_insert((0, 0));
                        e.0 += v.0;
                        e.1 += v.1;
                    }
                    for f in o.fails {
                        let key = (i, f.at);
                        let e = g.fails.entry(f.sig.clone()).or_insert_with(|| (key, f.msg.clone(), replay_json(&cases[i], f.at), 0));
                        e.3 += 1;
                        if key < e.0 {
                            e.0 = key;
                            e.1 = f.msg;
                            e.2 = replay_json(&cases[i], f.at);
                        }
                    }
                    for m in o.machinery {
                        if g.machinery.len() < 12 {
                            g.machinery.push(format!("[{} {}] {m}", cases[i].space, cases[i].layout.name));
                        }
                    }
                    if let Some(sm) = o.sample {
                        if g.samples.len() < 400 {
                            g.samples.push(json!({"space": cases[i].space, "layout": cases[i].layout.name, "case": sm}));
                        }
                    }
                })
                .expect("spawn worker");
        }
    });
    let m = merged.into_inner().unwrap();
    (m, capped.load(Ordering::SeqCst))
}

pub fn run(tier: &str) -> i32 {
    let mut rep = Report::new("C04", tier, "exploration");
    rep.assume("DataFusion is the trusted evaluator and also the reference: the same SQL over a MemTable holding every ingested row once, in a fresh single-partition session; results are compared as sorted multisets of rendered rows (column values, not Arrow types); a statement both sides reject counts as agreement");
    rep.assume("chunks are written as real Parquet objects through the repository's ParquetWriter into an in-memory object store and registered through MetadataClient::register_chunk with their true min/max timestamps; the ingester's buffering, WAL and flush timing are other properties' matter");
    rep.assume("the wall clock is frozen at 2025-06-01T12:00:00Z for the whole case, so the default window and now() are the same instant for subject and reference");
    rep.assume("column statistics are never written by the repository itself; the statistics-pruning path is exercised with catalog.json entries that carry the true per-chunk min/max of metric_name, host, id and value_f64");
    rep.assume("compaction state is produced by writing the merged Parquet object and calling complete_compaction_with_target (the call the compactor makes); the merge routine itself is not under test here");
    rep.assume("the query node's catalog client is created after the catalog has its final content, or performs the catalog change itself (bounded staleness of the 60 s catalog cache is not C04's matter)");
    rep.assume("queries whose WHERE clause does not confine the timestamp to a finite window (one-sided bounds, no bound: the documented last-hour default) are outside the property and are not generated; the generator's own interval analysis decides membership");
    rep.assume("all timestamps are non-negative and within a few days of the frozen clock; Timestamp columns are Timestamp(Nanosecond, UTC)");

    if std::env::var("VERIF_ONLY").as_deref() == Ok("label-sets") {
        println!("note: VERIF_ONLY=label-sets: partial run");
        super::c04_labels::label_space(&mut rep, tier);
        return rep.finish();
    }
    let cases = plan(tier);
    let total_q: usize = cases.iter().map(|c| (c.to - c.from) * if c.mode == Mode::Twice { 2 } else { 1 }).sum();
    let budget = if tier == "thorough" { 24 * 60 } else { 50 };
    let deadline = std::time::Instant::now() + std::time::Duration::from_secs(budget);
    if std::env::var("C04_PLAN_ONLY").is_ok() {
        println!("  C04 plan: {} cases, {} query evaluations", cases.len(), total_q);
        return 2;
    }
    let t0 = std::time::Instant::now();
    let (m, capped) = drive(&cases, deadline);
    println!("  C04 plan: {} cases ({} layouts x batches), {} query evaluations planned; {} cases done in {:.1}s{}", cases.len(), cases.iter().map(|c| c.layout.name.clone()).collect::<BTreeSet<_>>().len(), total_q, m.done, t0.elapsed().as_secs_f64(), if capped { " CAPPED" } else { "" });
    let mut tot = Stats::default();
    for (k, s) in &m.stats {
        println!(
            "  C04 {k}: evaluations {} agree {} (non-empty answers {}) both-reject {} failing {} | chunk skipped by time index {} by statistics {} either {} (with non-empty answer {}) nothing selected {} predicates pushed {} | first query of a node {} repeats {} after compaction {} adaptive {} (index usage recorded {})",
            s.evaluations, s.agree, s.nonempty, s.both_error, s.fails, s.pruned_time, s.pruned_stats, s.pruned_any, s.pruned_and_nonempty, s.selected_none, s.with_predicates, s.fresh_node, s.repeats, s.after_compaction, s.adaptive, s.index_usage_recorded
        );
        tot.add(s);
        rep.set(&format!("space:{k}"), json!({"evaluations": s.evaluations, "agree": s.agree, "nonempty_answers": s.nonempty, "both_reject": s.both_error, "failing": s.fails, "skipped_by_time_index": s.pruned_time, "skipped_by_statistics": s.pruned_stats, "skipped_any": s.pruned_any, "skipped_any_with_nonempty_answer": s.pruned_and_nonempty, "nothing_selected": s.selected_none, "predicates_pushed": s.with_predicates, "fresh_node": s.fresh_node, "repeats": s.repeats, "after_compaction": s.after_compaction, "adaptive": s.adaptive, "index_usage_recorded": s.index_usage_recorded}));
    }
    println!("  C04 literal forms (evaluations, of which the time index skipped a chunk): {}", m.by_form.iter().map(|(k, v)| format!("{k} {}/{}", v.1, v.0)).collect::<Vec<_>>().join(", "));
    rep.set("time_pruning_by_literal_form", json!(m.by_form.iter().map(|(k, v)| (k.to_string(), json!({"evaluations": v.0, "time_index_skipped_a_chunk": v.1}))).collect::<serde_json::Map<String, Value>>()));
    rep.set("generated_clauses_outside_family_dropped", OUTSIDE_FAMILY.load(Ordering::SeqCst) as u64);
    rep.set("evaluations", tot.evaluations);
    rep.set("distinct_nontrivial", tot.pruned_any);
    rep.set("skipped_by_time_index_cases", tot.pruned_time);
    rep.set("skipped_by_statistics_cases", tot.pruned_stats);
    rep.set("skipped_with_nonempty_answer_cases", tot.pruned_and_nonempty);
    rep.set("agreeing_cases", tot.agree);
    rep.set("both_reject_cases", tot.both_error);
    rep.set("layouts", cases.iter().map(|c| c.layout.name.clone()).collect::<BTreeSet<_>>().len() as u64);
    rep.set("distinct_statements", cases.iter().flat_map(|c| c.queries[c.from..c.to].iter().map(|q| q.sql.clone())).collect::<BTreeSet<_>>().len() as u64);
    rep.set("distinct_where_templates", cases.iter().flat_map(|c| c.queries[c.from..c.to].iter().map(|q| q.tmpl.clone())).collect::<BTreeSet<_>>().len() as u64);
    rep.set(
        "rule",
        "cases = {layout} x {statement}. layout = data set (subsets of 13 rows at now-{25h,3h,70min,1h+1ns,1h,1h-1ns,50min,20min,10min,1ns,0}, now+{1ns,5min}; metric cpu/mem; host a/b/NULL) x chunking (one chunk, one per row in both flush orders, interleaved, straddling, nested, out-of-order thirds; thorough: every cut into 2 or 3 contiguous chunks, every 2-chunk assignment of the small sets) x {Int64, Timestamp(ns,UTC)} column x {in-memory, object-store} catalog x {no statistics, true column statistics} x {no compaction, chunks merged to L1 before start / between two queries, sources deleted or kept}. statement = every WHERE template of the grammar (comparisons in both operand orders, strict and inclusive, BETWEEN, =, IN, AND/OR/NOT combinations incl. double negation, NOT BETWEEN, holes, redundant bounds, repeated equality, labelled disjuncts) x bound assignments from a pool of instants on and next to rows and hour boundaries x literal form (integer; TIMESTAMP string; to_timestamp_nanos(); now() +/- interval), kept only if the generator's interval analysis finds the window finite; plus SELECT shapes (projections, aggregates, GROUP BY, DISTINCT, ORDER BY/LIMIT) x label/value predicates, plus HAVING / derived-table shapes whose label predicate reaches the statistics pruning; node state: warm node, first query of a node, same query twice, adaptive indexing on. Each runs through QueryNode::query and is compared with the same SQL over a MemTable of all rows. distinct_nontrivial counts the (layout, statement) evaluations (repeats excluded) in which the catalog call made by the query skipped at least one registered chunk (by hour bucket/overlap or by statistics), as observed by a recording wrapper around the catalog client",
    );
    for s in m.samples.iter().step_by((m.samples.len() / 6).max(1)) {
        rep.push_sample(s.clone());
    }
    if capped {
        rep.set("exhaustive", false);
        rep.set("cap_note", format!("time budget reached after {} of {} cases (cases are ordered by sub-space: windows, shapes, pushdown, state; Int64 family first)", m.done, cases.len()));
    }
    for e in &m.machinery {
        rep.machinery(e.clone());
    }
    // vacuity guards
    if !capped {
        if tot.pruned_time == 0 {
            rep.machinery("no evaluation ever skipped a chunk through the time index");
        }
        if tot.pruned_stats == 0 {
            rep.machinery("no evaluation ever skipped a chunk through column statistics");
        }
        if tot.pruned_and_nonempty == 0 {
            rep.machinery("no evaluation skipped a chunk and still had a non-empty answer");
        }
        for f in [Form::Int, Form::TsLit, Form::ToTsNanos, Form::NowRel] {
            if m.by_form.get(f.name()).map(|v| v.1).unwrap_or(0) == 0 {
                rep.machinery(format!("bounds written as {} never led to a chunk being skipped by the time index", f.name()));
            }
        }
        if tot.both_error == 0 {
            rep.machinery("the statement both sides must reject was never rejected by both");
        }
        if tot.fresh_node == 0 || tot.repeats == 0 || tot.after_compaction == 0 || tot.index_usage_recorded == 0 {
            rep.machinery(format!("a node/catalog state was never exercised: fresh {} repeats {} after-compaction {} index usage {}", tot.fresh_node, tot.repeats, tot.after_compaction, tot.index_usage_recorded));
        }
        for sp in ["windows", "shapes", "pushdown", "state:fresh-node", "state:repeat", "state:compaction", "state:adaptive-indexing"] {
            // (a sub-space in which the subject fails is not vacuous: the violations are the verdict)
            if m.stats.get(sp).map(|s| s.nonempty == 0 && s.fails == 0).unwrap_or(true) {
                rep.machinery(format!("sub-space {sp}: no agreeing evaluation with a non-empty answer"));
            }
        }
    }
    let mut fails: Vec<_> = m.fails.into_iter().collect();
    fails.sort_by_key(|(_, v)| v.0);
    for (sig, (_, msg, replay, n)) in fails {
        rep.violation_n(&sig, &msg, replay, n);
    }
    super::c04_labels::label_space(&mut rep, tier);
    rep.finish()
}

pub fn replay(v: &Value) -> i32 {
    if v["kind"] == "label-set-case" {
        return super::c04_labels::replay_case(v);
    }
    let layout: Layout = match serde_json::from_value(v["layout"].clone()) {
        Ok(l) => l,
        Err(e) => {
            println!("MACHINERY: replay layout does not parse: {e}");
            return 2;
        }
    };
    let mode: Mode = serde_json::from_value(v["mode"].clone()).unwrap_or(Mode::Warm);
    let qs: Vec<Q> = v["queries"].as_array().map(|a| a.iter().map(q_from).collect()).unwrap_or_default();
    if qs.is_empty() {
        println!("MACHINERY: replay has no queries");
        return 2;
    }
    let first = v["first"].as_u64().unwrap_or(0) as usize;
    let batch_len = v["batch_len"].as_u64().unwrap_or(qs.len() as u64) as usize;
    println!("layout {}: {} rows in {} chunk(s)", layout.name, layout.rows.len(), layout.chunks.len());
    for (k, c) in layout.chunks.iter().enumerate() {
        let offs: Vec<String> = c.iter().map(|i| format!("id{}@{}", layout.rows[*i].id, off_str(NOW + layout.rows[*i].off))).collect();
        println!("  {}: {}", chunk_path(k), offs.join(" "));
    }
    let n = qs.len();
    let _ = first;
    // a mid-batch compaction is performed after half of the original batch; the recorded prefix starts at the
    // head of the batch in that case, so padding the tail restores the position of the switch
    let mut all = qs.clone();
    if layout.compact.as_ref().map(|c| c.mid).unwrap_or(false) {
        while all.len() < batch_len {
            all.push(qs[n - 1].clone());
        }
    }
    let to = all.len();
    let c = Case { space: "replay", layout: Arc::new(layout), adaptive: v["adaptive"].as_bool().unwrap_or(false), mode, queries: Arc::new(all), from: 0, to };
    let rt = tokio::runtime::Builder::new_current_thread().enable_all().start_paused(true).build().unwrap();
    let o = std::thread::scope(|s| std::thread::Builder::new().stack_size(256 << 20).spawn_scoped(s, || rt.block_on(run_case(&c, Some(n - 1), false))).expect("spawn").join().expect("join"));
    for l in &o.log {
        println!("{l}");
    }
    for m in &o.machinery {
        println!("MACHINERY: {m}");
    }
    let judged: Vec<&Fail> = o.fails.iter().filter(|f| f.at == n - 1).collect();
    for f in &judged {
        println!("violation [{}]: {}", f.sig, f.msg);
    }
    if !o.machinery.is_empty() {
        2
    } else if judged.is_empty() {
        println!("no violation for the recorded query");
        0
    } else {
        1
    }
}
