//! Running one case against the real receiver, and the worker-process main loop.

use super::spaces;
use super::model::*;
use super::oracle::{self, extract_rows, match_rows};
use arrow_array::RecordBatch;
use cardinalsin::api::grpc::OtlpGrpcService;
use cardinalsin::api::ingest::flight_ingest::FlightIngestService;
use cardinalsin::api::ingest::prometheus as prom;
use cardinalsin::api::ApiState;
use cardinalsin::ingester::{Ingester, IngesterConfig, WalConfig};
use cardinalsin::metadata::LocalMetadataClient;
use cardinalsin::query::{QueryConfig, QueryNode};
use cardinalsin::schema::MetricSchema;
use cardinalsin::{CloudProvider, StorageConfig};
use object_store::memory::InMemory;
use object_store::ObjectStore;
use opentelemetry_proto::tonic::collector::metrics::v1::metrics_service_server::MetricsService;
use opentelemetry_proto::tonic::collector::metrics::v1::ExportMetricsServiceRequest;
use prost::Message;
use serde::{Deserialize, Serialize};
use serde_json::{json, Value};
use std::collections::{BTreeMap, HashSet};
use std::panic::{catch_unwind, AssertUnwindSafe};
use std::sync::{Arc, Mutex};

static LAST_PANIC: Mutex<Option<(String, String)>> = Mutex::new(None);

/// Record location + message of every panic (the oracles turn them into signatures).
pub fn install_panic_recorder() {
    let loud = std::env::var("VERIF_LOUD_PANICS").is_ok();
    std::panic::set_hook(Box::new(move |info| {
        let file = info.location().map(|l| l.file().to_string()).unwrap_or_default();
        let msg = if let Some(s) = info.payload().downcast_ref::<&str>() {
            s.to_string()
        } else if let Some(s) = info.payload().downcast_ref::<String>() {
            s.clone()
        } else {
            "<non-string panic>".to_string()
        };
        if loud {
            eprintln!("panic at {:?}: {msg}", info.location());
        }
        *LAST_PANIC.lock().unwrap_or_else(|e| e.into_inner()) = Some((file, msg));
    }));
}

/// Signature part for a panic: source file (registry prefix stripped) + message with numbers masked.
fn panic_sig() -> (String, String) {
    let (file, msg) = LAST_PANIC.lock().unwrap_or_else(|e| e.into_inner()).take().unwrap_or_default();
    let file = match file.find("/registry/src/") {
        Some(p) => file[p + 14..].splitn(2, '/').nth(1).unwrap_or("").to_string(),
        None => match file.find("/src/") {
            Some(p) if file.starts_with('/') => file[p + 1..].to_string(),
            _ => file,
        },
    };
    let mut masked = String::new();
    let mut in_num = false;
    for ch in msg.chars() {
        if ch.is_ascii_digit() {
            if !in_num {
                masked.push('N');
            }
            in_num = true;
        } else {
            in_num = false;
            masked.push(if ch == '\n' { ' ' } else { ch });
        }
        if masked.len() >= 64 {
            break;
        }
    }
    (format!("panic@{file}:{masked}"), msg)
}

pub struct Live {
    pub store: Arc<InMemory>,
    pub state: ApiState,
    pub otlp: OtlpGrpcService,
    pub flight: FlightIngestService,
    pub accepted: usize,
    /// oldest / newest timestamp (ns) of anything handed to this receiver so far
    pub span: Option<(i128, i128)>,
}

pub struct Ctx {
    pub rt: tokio::runtime::Runtime,
    pub qn: Arc<QueryNode>,
    live: Option<Live>,
    /// false: inputs whose timestamps span more than WIDE_HOURS hours are not handed to the ingester
    /// (the chunk catalog indexes a chunk under every hour it spans; that cost is judged once, in the
    /// dedicated space `rw-wide-span`, and would otherwise stall thousands of mutation cases)
    pub allow_wide: bool,
}

pub const WIDE_HOURS: i128 = 10_000;
const HOUR_NS: i128 = 3_600_000_000_000;

fn range(ts_ns: impl Iterator<Item = i128>) -> Option<(i128, i128)> {
    let (mut lo, mut hi) = (i128::MAX, i128::MIN);
    for t in ts_ns {
        lo = lo.min(t);
        hi = hi.max(t);
    }
    if hi >= lo {
        Some((lo, hi))
    } else {
        None
    }
}
fn is_wide(r: Option<(i128, i128)>) -> bool {
    matches!(r, Some((lo, hi)) if hi - lo > WIDE_HOURS * HOUR_NS)
}
fn wide(ts_ns: impl Iterator<Item = i128>) -> bool {
    is_wide(range(ts_ns))
}

fn storage() -> StorageConfig {
    StorageConfig { provider: CloudProvider::Memory, container: "c17".into(), tenant_id: "t".into() }
}

impl Ctx {
    pub fn new() -> Ctx {
        let rt = tokio::runtime::Builder::new_current_thread().enable_all().start_paused(true).build().expect("runtime");
        let qn = rt.block_on(async {
            let store: Arc<dyn ObjectStore> = Arc::new(InMemory::new());
            QueryNode::new(QueryConfig::default(), store, Arc::new(LocalMetadataClient::new()), storage()).await.expect("query node")
        });
        Ctx { rt, qn: Arc::new(qn), live: None, allow_wide: false }
    }
    /// A receiver that flushes every accepted write to its own in-memory object store at once.
    pub fn fresh(&self) -> Live {
        self.receiver(1)
    }
    /// A receiver with the given row threshold for flushing (the default configuration uses 1M rows;
    /// a write whose schema differs from the buffered one flushes the buffer first in any case).
    pub fn receiver(&self, flush_row_count: usize) -> Live {
        let store = Arc::new(InMemory::new());
        let cfg = IngesterConfig { flush_row_count, wal: WalConfig { enabled: false, ..WalConfig::default() }, ..IngesterConfig::default() };
        let _g = self.rt.enter();
        let ing = Arc::new(Ingester::new(cfg, store.clone() as Arc<dyn ObjectStore>, Arc::new(LocalMetadataClient::new()), storage(), MetricSchema::default_metrics()));
        Live {
            store,
            state: ApiState { ingester: ing.clone(), query_node: self.qn.clone() },
            otlp: OtlpGrpcService::new(ing.clone()),
            flight: FlightIngestService::new(ing),
            accepted: 0,
            span: None,
        }
    }
    /// Receiver shared by consecutive totality cases (renewed after a panic and every 500 accepted writes).
    /// It flushes when 64 rows are buffered or the schema changes, so most accepted writes are buffered
    /// like in production and a flush (Parquet + catalog) still happens every few dozen writes.
    /// `range`: oldest / newest timestamp of the case about to run. Rows of several cases share the
    /// receiver's buffer, so the receiver is also renewed when the union of their timestamps would span
    /// more than WIDE_HOURS (see `allow_wide`).
    fn shared(&mut self, range: Option<(i128, i128)>) -> Live {
        let mut l = match self.live.take() {
            Some(l) if l.accepted < 500 => l,
            _ => self.receiver(64),
        };
        if let Some((lo, hi)) = range {
            let (ulo, uhi) = match l.span {
                Some((a, b)) => (a.min(lo), b.max(hi)),
                None => (lo, hi),
            };
            if uhi - ulo > WIDE_HOURS * HOUR_NS && !self.allow_wide {
                l = self.receiver(64);
                l.span = Some((lo, hi));
            } else {
                l.span = Some((ulo, uhi));
            }
        }
        l
    }
    fn give_back(&mut self, l: Live) {
        self.live = Some(l);
    }
}

#[derive(Default, Clone, Debug, Serialize, Deserialize)]
pub struct Outcome {
    pub class: String,
    pub nontrivial: bool,
    /// (signature without the "C17:<entry>:" prefix, message)
    pub violations: Vec<(String, String)>,
    /// things seen, for the vacuity guards
    pub flags: Vec<String>,
}

fn read_back(ctx: &Ctx, store: &Arc<InMemory>) -> Result<Vec<RecordBatch>, String> {
    use futures::StreamExt;
    let objs: Vec<(String, bytes::Bytes)> = ctx.rt.block_on(async {
        let mut out = Vec::new();
        let metas: Vec<_> = store.list(None).collect().await;
        for m in metas.into_iter().flatten() {
            let b = store.get(&m.location).await.map_err(|e| e.to_string())?.bytes().await.map_err(|e| e.to_string())?;
            out.push((m.location.to_string(), b));
        }
        Ok::<_, String>(out)
    })?;
    let mut batches = Vec::new();
    for (path, b) in objs {
        if !path.ends_with(".parquet") {
            continue;
        }
        let rd = parquet::arrow::arrow_reader::ParquetRecordBatchReaderBuilder::try_new(b).map_err(|e| format!("{path}: {e}"))?.build().map_err(|e| format!("{path}: {e}"))?;
        for rb in rd {
            batches.push(rb.map_err(|e| format!("{path}: {e}"))?);
        }
    }
    Ok(batches)
}

enum Http {
    Status(u16),
    Panic(String, String),
}

fn post(ctx: &Ctx, live: &Live, body: Vec<u8>) -> Http {
    let state = live.state.clone();
    let r = catch_unwind(AssertUnwindSafe(|| {
        ctx.rt.block_on(async move {
            let resp = prom::handle_remote_write(axum::extract::State(state), axum::body::Bytes::from(body)).await;
            axum::response::IntoResponse::into_response(resp).status().as_u16()
        })
    }));
    match r {
        Ok(s) => Http::Status(s),
        Err(_) => {
            let (sig, msg) = panic_sig();
            Http::Panic(sig, msg)
        }
    }
}

fn snappy(b: &[u8]) -> Vec<u8> {
    snap::raw::Encoder::new().compress_vec(b).expect("snappy compress")
}

fn value_flags(rows: &[oracle::ActRow], flags: &mut Vec<String>) {
    for r in rows {
        if r.f.is_some() {
            flags.push("col:value_f64".into());
        }
        if r.i.is_some() {
            flags.push("col:value_i64".into());
        }
        if r.u.is_some() {
            flags.push("col:value_u64".into());
        }
    }
}

/// Totality leg for remote write: any body, only "a status comes back".
fn run_rw_body(ctx: &mut Ctx, body: &[u8]) -> Outcome {
    let mut o = Outcome::default();
    // harness-side classification of how far the body gets (hook re-exports; a panic in here is the same
    // defect the handler call below reports, so it is swallowed)
    let mut is_wide = false;
    let mut span = None;
    let class = catch_unwind(AssertUnwindSafe(|| match snap::raw::Decoder::new().decompress_vec(body) {
        Err(_) => "snappy-rejects",
        Ok(p) => match prom::verif::parse_write_request(&p) {
            Err(_) => "parser-rejects",
            Ok(r) if r.timeseries.is_empty() => "parsed-no-series",
            Ok(r) if r.timeseries.iter().all(|t| t.samples.is_empty()) => "parsed-no-samples",
            Ok(r) => {
                let all: Vec<i128> = r.timeseries.iter().flat_map(|t| t.samples.iter().map(|x| x.timestamp_ms as i128 * 1_000_000)).collect();
                // only when every timestamp survives the ms -> ns conversion does the request reach the ingester
                if all.iter().all(|t| *t >= i64::MIN as i128 && *t <= i64::MAX as i128) {
                    span = range(all.into_iter());
                    is_wide = self::is_wide(span);
                }
                "parsed-with-samples"
            }
        },
    }))
    .unwrap_or("parser-panics");
    if is_wide && !ctx.allow_wide {
        let mut o = Outcome::default();
        // parse + convert only
        let r = catch_unwind(AssertUnwindSafe(|| {
            let p = snap::raw::Decoder::new().decompress_vec(body).unwrap();
            prom::verif::parse_write_request(&p).and_then(|r| prom::verif::convert_prom_to_arrow(&r)).is_ok()
        }));
        o.nontrivial = true;
        match r {
            Ok(_) => o.class = "parsed-with-samples/wide-span:convert-only".into(),
            Err(_) => {
                let (sig, msg) = panic_sig();
                o.class = "parsed-with-samples/panic".into();
                o.violations.push((sig, format!("parse+convert panicked: {msg}")));
            }
        }
        return o;
    }
    let _ = LAST_PANIC.lock().unwrap_or_else(|e| e.into_inner()).take();
    let mut live = ctx.shared(span);
    match post(ctx, &live, body.to_vec()) {
        Http::Status(s) => {
            o.class = format!("{class}/{s}");
            o.nontrivial = class == "parsed-no-samples" || class == "parsed-with-samples";
            if (200..300).contains(&s) {
                live.accepted += 1;
            }
            if !(200..600).contains(&s) {
                o.violations.push((format!("odd-status:{s}"), format!("status {s}")));
            }
            ctx.give_back(live);
        }
        Http::Panic(sig, msg) => {
            o.class = format!("{class}/panic");
            o.nontrivial = class == "parsed-no-samples" || class == "parsed-with-samples";
            o.violations.push((sig, format!("handle_remote_write panicked: {msg}")));
        }
    }
    o
}

/// Fidelity leg for remote write.
fn run_rw_req(ctx: &mut Ctx, req: &PReq, enc: &[u8], how: &str, handler: bool) -> Outcome {
    let mut o = Outcome::default();
    let exp = oracle::prom_expected(req);
    let total = exp.rows.len();
    let desc = format!("[{how}] {}", serde_json::to_string(req).unwrap_or_default());
    let judge = |leg: &str, res: Result<Vec<RecordBatch>, String>, o: &mut Outcome| {
        match res {
            Err(status) => {
                if total == 0 {
                    o.flags.push("empty-request-rejected".into());
                } else if exp.unrepresentable {
                    o.flags.push("unrepresentable-timestamp-rejected".into());
                } else if exp.nameless {
                    o.flags.push("nameless-rejected".into());
                } else {
                    o.violations.push((format!("well-formed-request-rejected:{status}"), format!("{leg}: answered {status} to {desc}")));
                }
            }
            Ok(batches) => match extract_rows(&batches) {
                Err((sig, msg)) => o.violations.push((sig, format!("{leg}: {msg}; request {desc}"))),
                Ok(rows) => {
                    value_flags(&rows, &mut o.flags);
                    if rows.iter().any(|r| batches[0].num_columns() > 5 + r.labels.len()) {
                        o.flags.push("null-label-cell".into());
                    }
                    match match_rows(&exp.rows, &rows) {
                        Ok(()) => {
                            if total > 0 {
                                o.nontrivial = true;
                            }
                        }
                        Err((sig, msg)) => o.violations.push((sig, format!("{leg}: {msg}; request {desc}"))),
                    }
                }
            },
        }
    };
    // leg 1: re-exported parse + convert
    let r = catch_unwind(AssertUnwindSafe(|| {
        let parsed = prom::verif::parse_write_request(enc).map_err(|e| format!("parse error ({e})"))?;
        let batch = prom::verif::convert_prom_to_arrow(&parsed).map_err(|_| "convert error".to_string())?;
        Ok::<_, String>(batch)
    }));
    match r {
        Ok(Ok(b)) => judge("parse+convert", Ok(vec![b]), &mut o),
        Ok(Err(e)) => judge("parse+convert", Err(if e.starts_with("parse") { "400".into() } else { "500".into() }), &mut o),
        Err(_) => {
            let (sig, msg) = panic_sig();
            o.violations.push((sig, format!("parse+convert panicked: {msg}; request {desc}")));
        }
    }
    // leg 2: the HTTP handler, rows read back from the flushed chunk
    let is_wide = !exp.unrepresentable && wide(exp.rows.iter().map(|r| r.ts));
    if handler && is_wide && !ctx.allow_wide {
        o.flags.push("wide-span:handler-leg-skipped".into());
    } else if handler {
        let live = ctx.fresh();
        match post(ctx, &live, snappy(enc)) {
            Http::Status(s) if (200..300).contains(&s) => match read_back(ctx, &live.store) {
                Ok(b) => judge("handle_remote_write", Ok(b), &mut o),
                Err(e) => o.violations.push(("chunk-unreadable".into(), format!("flushed chunk cannot be read back: {e}"))),
            },
            Http::Status(s) => judge("handle_remote_write", Err(format!("{s}")), &mut o),
            Http::Panic(sig, msg) => o.violations.push((sig, format!("handle_remote_write panicked: {msg}; request {desc}"))),
        }
    }
    o.class = if !o.violations.is_empty() {
        "violation".into()
    } else if o.nontrivial {
        "rows-verified".into()
    } else if total == 0 {
        "no-samples".into()
    } else {
        "rejected-leniently".into()
    };
    o.violations.dedup_by(|a, b| a.0 == b.0);
    o
}

fn run_otlp(ctx: &mut Ctx, req: ExportMetricsServiceRequest, fidelity: bool, o: &mut Outcome) {
    let span = if fidelity { None } else { range(oracle::otlp_expected(&req).rows.iter().map(|r| r.ts as i64 as i128)) };
    if !fidelity && !ctx.allow_wide && is_wide(span) {
        match catch_unwind(AssertUnwindSafe(|| cardinalsin::api::ingest::otlp::export_request_to_arrow(&req).is_ok())) {
            Ok(_) => o.class = "wide-span:convert-only".into(),
            Err(_) => {
                let (sig, msg) = panic_sig();
                o.class = "convert-panics".into();
                o.violations.push((sig, format!("export_request_to_arrow panicked: {msg}")));
            }
        }
        o.nontrivial = true;
        return;
    }
    let live = if fidelity { ctx.fresh() } else { ctx.shared(span) };
    let exp = if fidelity { Some(oracle::otlp_expected(&req)) } else { None };
    let desc = if fidelity { format!("{req:?}") } else { String::new() };
    let r = catch_unwind(AssertUnwindSafe(|| ctx.rt.block_on(live.otlp.export(tonic::Request::new(req)))));
    match r {
        Err(_) => {
            let (sig, msg) = panic_sig();
            o.class = "export-panics".into();
            o.nontrivial = true;
            o.violations.push((sig, format!("OtlpGrpcService::export panicked: {msg} {desc}")));
        }
        Ok(Err(status)) => {
            o.class = format!("export-status-{:?}", status.code());
            if let Some(exp) = exp {
                if exp.rows.is_empty() {
                    o.flags.push("empty-export-rejected".into());
                } else if exp.unrepresentable {
                    o.flags.push("unrepresentable-timestamp-rejected".into());
                } else {
                    o.violations.push((format!("well-formed-request-rejected:{:?}", status.code()), format!("export answered {status:?} to {desc}")));
                }
            }
            if !fidelity {
                ctx.give_back(live);
            }
        }
        Ok(Ok(_)) => {
            o.class = "export-ok".into();
            o.nontrivial = true;
            if let Some(exp) = exp {
                match read_back(ctx, &live.store).map_err(|e| ("chunk-unreadable".to_string(), e)).and_then(|b| extract_rows(&b)) {
                    Err((sig, msg)) => o.violations.push((sig, format!("{msg}; request {desc}"))),
                    Ok(rows) => {
                        if let Err((sig, msg)) = match_rows(&exp.rows, &rows) {
                            o.violations.push((sig, format!("{msg}; request {desc}")));
                        } else if rows.is_empty() {
                            o.nontrivial = false;
                        }
                    }
                }
            } else {
                let mut live = live;
                live.accepted += 1;
                ctx.give_back(live);
            }
        }
    }
}

fn flight_span(frames: &[arrow_flight::FlightData]) -> Option<(i128, i128)> {
    use arrow_array::Array;
    let payload: Vec<arrow_flight::FlightData> = frames.iter().filter(|m| !m.data_header.is_empty() || !m.data_body.is_empty()).cloned().collect();
    if payload.is_empty() {
        return None;
    }
    let r = catch_unwind(AssertUnwindSafe(|| arrow_flight::utils::flight_data_to_batches(&payload)));
    let _ = LAST_PANIC.lock().unwrap_or_else(|e| e.into_inner()).take();
    let Ok(Ok(batches)) = r else { return None };
    let mut ts = Vec::new();
    for b in &batches {
        if let Some(c) = b.column_by_name("timestamp") {
            if let Ok(c) = arrow::compute::cast(c, &arrow_schema::DataType::Int64) {
                let c = c.as_any().downcast_ref::<arrow_array::Int64Array>().unwrap();
                ts.extend((0..c.len()).filter(|i| !c.is_null(*i)).map(|i| c.value(i) as i128));
            }
        }
    }
    range(ts.into_iter())
}

fn run_flight(ctx: &mut Ctx, frames: Vec<arrow_flight::FlightData>, expect_rows: Option<u64>, o: &mut Outcome) {
    let span = flight_span(&frames);
    if !ctx.allow_wide && is_wide(span) {
        o.class = "wide-span:decoded-not-ingested".into();
        o.nontrivial = true;
        return;
    }
    let mut live = ctx.shared(span);
    let r = catch_unwind(AssertUnwindSafe(|| ctx.rt.block_on(live.flight.process_stream(frames.into_iter()))));
    match r {
        Err(_) => {
            let (sig, msg) = panic_sig();
            o.class = "process_stream-panics".into();
            o.violations.push((sig, format!("FlightIngestService::process_stream panicked: {msg}")));
        }
        Ok(Err(e)) => {
            o.class = "process_stream-error".into();
            if expect_rows.is_some() {
                o.violations.push(("valid-stream-rejected".into(), format!("a valid DoPut stream was rejected: {e}")));
            }
            ctx.give_back(live);
        }
        Ok(Ok(n)) => {
            o.class = if n > 0 { "process_stream-ok-rows".into() } else { "process_stream-ok-0".into() };
            o.nontrivial = n > 0;
            if let Some(x) = expect_rows {
                if x != n {
                    o.violations.push(("row-count".into(), format!("{x} rows sent, process_stream reports {n}")));
                }
            }
            live.accepted += 1;
            ctx.give_back(live);
        }
    }
}

pub fn run_case(ctx: &mut Ctx, case: &Case) -> Outcome {
    let mut o = Outcome::default();
    match case {
        Case::RwBody { body } => return run_rw_body(ctx, &body.0),
        Case::RwPayload { payload } => return run_rw_body(ctx, &snappy(&payload.0)),
        Case::RwReq { req, enc, how, handler } => return run_rw_req(ctx, req, &enc.0, how, *handler),
        Case::Otlp { req } => match ExportMetricsServiceRequest::decode(&req.0[..]) {
            Ok(r) => run_otlp(ctx, r, true, &mut o),
            Err(e) => o.violations.push(("harness-encoding".into(), format!("harness-built request does not decode: {e}"))),
        },
        Case::OtlpBytes { bytes } => {
            // what tonic's ProstCodec does with the message bytes
            match catch_unwind(AssertUnwindSafe(|| ExportMetricsServiceRequest::decode(&bytes.0[..]))) {
                Err(_) => {
                    let (sig, msg) = panic_sig();
                    o.class = "decode-panics".into();
                    o.violations.push((sig, format!("prost decode panicked: {msg}")));
                }
                Ok(Err(_)) => o.class = "grpc-decode-rejects".into(),
                Ok(Ok(r)) => run_otlp(ctx, r, false, &mut o),
            }
        }
        Case::Flight { frames, expect_rows, .. } => {
            let fd = frames
                .iter()
                .map(|(h, b)| arrow_flight::FlightData { flight_descriptor: None, data_header: h.0.clone().into(), app_metadata: Default::default(), data_body: b.0.clone().into() })
                .collect();
            run_flight(ctx, fd, *expect_rows, &mut o);
        }
        Case::FlightBytes { frames } => {
            let mut fd = Vec::new();
            for f in frames {
                match catch_unwind(AssertUnwindSafe(|| arrow_flight::FlightData::decode(&f.0[..]))) {
                    Err(_) => {
                        let (sig, msg) = panic_sig();
                        o.class = "decode-panics".into();
                        o.violations.push((sig, format!("prost decode panicked: {msg}")));
                        return o;
                    }
                    Ok(Err(_)) => {
                        o.class = "grpc-decode-rejects".into();
                        return o;
                    }
                    Ok(Ok(m)) => fd.push(m),
                }
            }
            run_flight(ctx, fd, None, &mut o);
        }
    }
    o
}

// ---------------------------------------------------------------------------- worker process

#[derive(Clone, Debug, Serialize, Deserialize)]
pub struct Job {
    pub space: String,
    pub tier: String,
    pub part: u64,
    pub nparts: u64,
    /// case numbers known to kill / hang the worker: not run again
    pub skip: Vec<u64>,
    pub shm: String,
}

#[derive(Clone, Debug, Serialize, Deserialize, Default)]
pub struct VioRec {
    pub count: u64,
    pub idx: u64,
    pub msg: String,
    pub case: Value,
}

#[derive(Clone, Debug, Serialize, Deserialize, Default)]
pub struct JobResult {
    pub walked: u64,
    pub evaluations: u64,
    pub duplicates: u64,
    pub nontrivial: u64,
    pub classes: BTreeMap<String, u64>,
    pub flags: BTreeMap<String, u64>,
    pub violations: BTreeMap<String, VioRec>,
    pub samples: Vec<Value>,
    /// slowest case of the partition: (milliseconds, case number)
    pub slowest_ms: f64,
    pub slowest_idx: u64,
    /// seconds spent inside cases / in the whole worker
    pub busy_s: f64,
    pub total_s: f64,
}

pub const SHM_STATE: usize = 0; // 0 starting, 1 running, 2 done
pub const SHM_IDX: usize = 1;
pub const SHM_TICK: usize = 2;

struct Shm(*mut u64);
impl Shm {
    fn open(path: &str) -> Shm {
        use std::os::unix::io::AsRawFd;
        let f = std::fs::OpenOptions::new().read(true).write(true).open(path).expect("open shm file");
        let p = unsafe { libc::mmap(std::ptr::null_mut(), 4096, libc::PROT_READ | libc::PROT_WRITE, libc::MAP_SHARED, f.as_raw_fd(), 0) };
        assert!(p != libc::MAP_FAILED, "mmap");
        Shm(p as *mut u64)
    }
    fn set(&self, slot: usize, v: u64) {
        unsafe { std::ptr::write_volatile(self.0.add(slot), v) }
    }
}

pub fn worker_main(job_json: &str) -> i32 {
    let job: Job = serde_json::from_str(job_json).expect("job");
    let t_worker = std::time::Instant::now();
    install_panic_recorder();
    let shm = Shm::open(&job.shm);
    let info = spaces::SPACES.iter().find(|s| s.name == job.space).expect("space");
    let mut ctx = Ctx::new();
    ctx.allow_wide = job.space == "rw-wide-span";
    let mut res = JobResult::default();
    let skip: HashSet<u64> = job.skip.iter().copied().collect();
    let mut seen: HashSet<u64> = HashSet::new();
    let mut tick = 0u64;
    shm.set(SHM_STATE, 1);
    let walked = spaces::generate(&job.space, &job.tier, &mut |idx, mk| {
        // progress beacon: moves with every case walked (own or not), stands still only inside a case
        tick += 1;
        shm.set(SHM_TICK, tick);
        let case;
        if info.unique {
            if idx % job.nparts != job.part {
                return true;
            }
            case = mk();
        } else {
            case = mk();
            let k = case.key();
            if k % job.nparts != job.part {
                return true;
            }
            if !seen.insert(k) {
                res.duplicates += 1;
                return true;
            }
        }
        if skip.contains(&idx) {
            return true;
        }
        shm.set(SHM_IDX, idx);
        let t0 = std::time::Instant::now();
        let o = run_case(&mut ctx, &case);
        let dt = t0.elapsed().as_secs_f64();
        res.busy_s += dt;
        if dt * 1000.0 > res.slowest_ms {
            res.slowest_ms = dt * 1000.0;
            res.slowest_idx = idx;
        }
        res.evaluations += 1;
        if o.nontrivial {
            res.nontrivial += 1;
        }
        *res.classes.entry(o.class.clone()).or_default() += 1;
        for f in &o.flags {
            *res.flags.entry(f.clone()).or_default() += 1;
        }
        if (o.nontrivial && res.samples.len() < 2) || (!o.nontrivial && res.samples.len() < 1) {
            res.samples.push(json!({"space": job.space, "idx": idx, "outcome": o.class, "case": short_case(&case)}));
        }
        for (sig, msg) in o.violations {
            let full = format!("C17:{}:{}", case.entry(), sig);
            let e = res.violations.entry(full).or_insert_with(|| VioRec { count: 0, idx, msg: msg.chars().take(1500).collect(), case: serde_json::to_value(&case).unwrap() });
            e.count += 1;
        }
        true
    });
    res.walked = walked;
    res.total_s = t_worker.elapsed().as_secs_f64();
    shm.set(SHM_STATE, 2);
    println!("C17RESULT {}", serde_json::to_string(&res).unwrap());
    0
}

/// abbreviated case for the evidence samples
pub fn short_case(c: &Case) -> Value {
    let mut v = serde_json::to_value(c).unwrap();
    fn trim(v: &mut Value) {
        match v {
            Value::String(s) if s.len() > 160 => {
                let n = s.len();
                s.truncate(160);
                s.push_str(&format!("...({} chars)", n));
            }
            Value::Array(a) => a.iter_mut().for_each(trim),
            Value::Object(m) => m.values_mut().for_each(trim),
            _ => {}
        }
    }
    trim(&mut v);
    v
}
