//! Case model: what one enumerated input is, how it is serialised for replays.

use super::pb::Node;
use serde::{Deserialize, Serialize};

/// Byte string serialised as lowercase hex.
#[derive(Clone, Debug, PartialEq, Eq, Hash, Default)]
pub struct Hex(pub Vec<u8>);

impl Serialize for Hex {
    fn serialize<S: serde::Serializer>(&self, s: S) -> Result<S::Ok, S::Error> {
        s.serialize_str(&hex(&self.0))
    }
}
impl<'de> Deserialize<'de> for Hex {
    fn deserialize<D: serde::Deserializer<'de>>(d: D) -> Result<Self, D::Error> {
        let s = String::deserialize(d)?;
        unhex(&s).map(Hex).ok_or_else(|| serde::de::Error::custom("bad hex"))
    }
}

pub fn hex(b: &[u8]) -> String {
    let mut s = String::with_capacity(b.len() * 2);
    for x in b {
        s.push_str(&format!("{x:02x}"));
    }
    s
}
pub fn unhex(s: &str) -> Option<Vec<u8>> {
    if s.len() % 2 != 0 {
        return None;
    }
    (0..s.len() / 2).map(|i| u8::from_str_radix(s.get(2 * i..2 * i + 2)?, 16).ok()).collect()
}

/// One sample: value as IEEE bits (JSON cannot carry NaN/inf), timestamp in ms.
#[derive(Clone, Debug, Serialize, Deserialize, PartialEq)]
pub struct PSample {
    pub value_bits: u64,
    /// human-readable copy of the value (not used by the replay)
    pub value: String,
    pub ts_ms: i64,
}
impl PSample {
    pub fn new(v: f64, ts_ms: i64) -> Self {
        Self { value_bits: v.to_bits(), value: format!("{v:?}"), ts_ms }
    }
    pub fn v(&self) -> f64 {
        f64::from_bits(self.value_bits)
    }
}

#[derive(Clone, Debug, Serialize, Deserialize, PartialEq)]
pub struct PSeries {
    pub labels: Vec<(String, String)>,
    pub samples: Vec<PSample>,
}

/// A logical Prometheus remote-write request.
#[derive(Clone, Debug, Serialize, Deserialize, PartialEq, Default)]
pub struct PReq {
    pub series: Vec<PSeries>,
}

impl PReq {
    /// The straightforward encoding: every field present, in field-number order.
    pub fn nodes(&self) -> Vec<Node> {
        self.series
            .iter()
            .map(|s| {
                let mut kids = Vec::new();
                for (n, v) in &s.labels {
                    kids.push(Node::Msg { field: 1, kids: vec![Node::str(1, n), Node::str(2, v)] });
                }
                for sm in &s.samples {
                    kids.push(Node::Msg { field: 2, kids: vec![Node::f64(1, sm.v()), Node::i64(2, sm.ts_ms)] });
                }
                Node::Msg { field: 1, kids }
            })
            .collect()
    }
}

#[derive(Clone, Debug, Serialize, Deserialize)]
#[serde(tag = "kind")]
pub enum Case {
    /// raw HTTP body for POST /api/v1/write (totality)
    RwBody { body: Hex },
    /// protobuf payload, snappy-compressed by the harness, then POSTed (totality)
    RwPayload { payload: Hex },
    /// well-formed logical request; `enc` is one valid protobuf encoding of it (fidelity).
    /// Always through the hook re-exports of parse/convert; through the HTTP handler too if `handler`.
    RwReq { req: PReq, enc: Hex, how: String, handler: bool },
    /// well-formed OTLP export, prost-encoded for the record (fidelity, through OtlpGrpcService::export)
    Otlp { req: Hex },
    /// bytes handed to the prost decoder of the gRPC layer, then to export (totality)
    OtlpBytes { bytes: Hex },
    /// DoPut frames (data_header, data_body) handed to FlightIngestService::process_stream (totality)
    Flight { frames: Vec<(Hex, Hex)>, how: String, expect_rows: Option<u64> },
    /// protobuf-encoded FlightData messages: prost decode (gRPC layer), then process_stream
    FlightBytes { frames: Vec<Hex> },
}

impl Case {
    /// Key for de-duplication of mutation spaces (identical inputs reached by different mutations).
    pub fn key(&self) -> u64 {
        use std::hash::{Hash, Hasher};
        let mut h = std::collections::hash_map::DefaultHasher::new();
        match self {
            Case::RwBody { body } => (0u8, &body.0).hash(&mut h),
            Case::RwPayload { payload } => (1u8, &payload.0).hash(&mut h),
            Case::RwReq { enc, handler, .. } => (2u8, &enc.0, handler).hash(&mut h),
            Case::Otlp { req } => (3u8, &req.0).hash(&mut h),
            Case::OtlpBytes { bytes } => (4u8, &bytes.0).hash(&mut h),
            Case::Flight { frames, .. } => (5u8, frames).hash(&mut h),
            Case::FlightBytes { frames } => (6u8, frames).hash(&mut h),
        }
        h.finish()
    }
    /// Cause class of a hang / abort that the input itself reveals (part of the signature).
    pub fn stall_class(&self) -> &'static str {
        if let Case::RwReq { req, .. } = self {
            let ts: Vec<i128> = req.series.iter().flat_map(|s| s.samples.iter().map(|x| x.ts_ms as i128)).filter(|t| (TS_MIN_MS as i128..=TS_MAX_MS as i128).contains(t)).collect();
            if let (Some(a), Some(b)) = (ts.iter().min(), ts.iter().max()) {
                // more than 10000 hour buckets between the oldest and the newest sample
                if b - a > 10_000 * 3_600_000 {
                    return ":samples-span-over-10000-hours";
                }
            }
        }
        ""
    }
    pub fn entry(&self) -> &'static str {
        match self {
            Case::RwBody { .. } | Case::RwPayload { .. } | Case::RwReq { .. } => "remote-write",
            Case::Otlp { .. } | Case::OtlpBytes { .. } => "otlp",
            Case::Flight { .. } | Case::FlightBytes { .. } => "flight",
        }
    }
}

/// The value alphabet of the fidelity spaces.
pub fn values() -> Vec<f64> {
    vec![
        0.0,
        -0.0,
        1.0,
        -1.0,
        0.5,
        4503599627370496.5,          // 2^52 + 0.5, the largest magnitude class with a fraction
        9007199254740992.0,          // 2^53
        9007199254740994.0,          // 2^53 + 2
        9223372036854774784.0,       // largest f64 below 2^63
        9223372036854775808.0,       // 2^63
        -9223372036854775808.0,      // -2^63
        -9223372036854777856.0,      // next f64 below -2^63
        1.8e19,                      // between 2^63 and 2^64
        18446744073709551616.0,      // 2^64
        1e300,
        -1e300,
        5e-324,
        f64::INFINITY,
        f64::NEG_INFINITY,
        f64::NAN,
    ]
}

pub const TS_MAX_MS: i64 = i64::MAX / 1_000_000;
pub const TS_MIN_MS: i64 = i64::MIN / 1_000_000;

/// Timestamp alphabet (ms). The last three cannot be expressed in i64 nanoseconds.
pub fn timestamps_ms() -> Vec<i64> {
    vec![0, 1, -1, 1_700_000_000_000, TS_MAX_MS, TS_MIN_MS, TS_MAX_MS + 1, i64::MAX, i64::MIN]
}
